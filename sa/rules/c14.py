"""C14 — ownership and indexing of modules and patterns stay coherent."""

from __future__ import annotations

import ast
from typing import Dict, List, Optional, Set, Tuple

from .. import alg, guards, inline
from ..cfg import CFG, Node
from ..model import AnchorMissing, Repo, attr_chain, norm, walk_no_nested

LEVEL = "other"
EXPLANATION = (
    "who-may-write census for module index/parent, pattern owner and the project's module/pattern lists over "
    "all of rv; path enumeration of Project.attach_module / attach_pattern: on every path that inserts a "
    "module its index is the insertion position and its parent is the project, gap filling is taken exactly "
    "when not loading and an empty position exists, refusals and the already-attached case precede any "
    "mutation; Project.__init__ and the reader put Output at position 0; Note.mod setter/getter are an affine "
    "inverse pair consistent with Module.__int__. The invariant over histories follows by induction from the "
    "per-operation obligations (every writer of the state is in the census)."
)
DECLINED = ["the reachable-state invariant itself is argued inductively from the per-operation rules, not enumerated"]
ASSUMPTIONS = ["list.index returns the lowest matching position", "list.append inserts at len(list)"]

INDEX_PARENT_WRITERS = {
    "src/python/rv/modules/module.py:Module.__init__": "fresh module: index/parent from keywords (None by default)",
    "src/python/rv/project.py:Project.attach_module": "the attach operation",
}
NOT_MODULE_OBJECTS = {
    "src/python/rv/modules/module.py:ModuleList.__init__": "ModuleList.parent (operator sugar list), not a module",
    "src/python/rv/modules/spectravoice.py:Harmonic.__init__": "Harmonic.index (harmonic number), not a module",
    "src/python/rv/modules/metamodule.py:UserDefinedProxy.__init__": "proxy controller index, not a module",
}
LIST_WRITERS = {
    "modules": {
        "src/python/rv/project.py:Project.__init__": "creation",
        "src/python/rv/project.py:Project.attach_module": "the attach operation",
        "src/python/rv/readers/sunvox.py:SunVoxReader.process_chunks": "load: drop the pre-attached Output before reading",
        "src/python/rv/readers/sunvox.py:SunVoxReader.process_end_of_file": "load: strip trailing empty positions",
    },
    "patterns": {
        "src/python/rv/project.py:Project.__init__": "creation",
        "src/python/rv/project.py:Project.attach_pattern": "the attach operation",
    },
}
PATTERN_OWNER_WRITERS = {
    "src/python/rv/project.py:Project.attach_pattern": "the attach operation",
}
MUT = {"append", "extend", "insert", "pop", "remove", "clear", "sort", "reverse"}


def _nm(repo: Repo, ci, name: str):
    """The method with private helpers inlined and single-use locals of conditions resolved."""
    from .. import inline
    return inline.resolve_flags(inline.normalize(repo, ci, repo.own_method(ci, name, raw=True), aliases=True))


def _value_tests(fn: ast.FunctionDef, known_roots: Set[str]) -> List[str]:
    """Branch conditions that test a computed local (`position is None`, `slot < 0`): decisions taken on values, which the
    path rules of this module (conditions over the parameters and the project's lists) cannot follow."""
    params = {a.arg for a in fn.args.args + fn.args.kwonlyargs}
    out = []
    for n in ast.walk(fn):
        if isinstance(n, (ast.If, ast.While, ast.IfExp)):
            for x in ast.walk(n.test):
                if isinstance(x, ast.Name) and isinstance(x.ctx, ast.Load) and x.id not in params and x.id not in known_roots \
                        and x.id not in ("self", "None", "True", "False", "isinstance", "len", "Module", "Output", "callable", "type"):
                    out.append(norm(n.test))
                    break
    return out


def run(repo: Repo, rep, tier: str):
    rep.count("files_in_scope", repo.consult_all())
    census(repo, rep, "C14")
    attach_module_rules(repo, rep, "C14")
    attach_pattern_rules(repo, rep, "C14")
    output_rules(repo, rep, "C14")
    note_mod_rules(repo, rep, "C14")
    entry_points(repo, rep, "C14")


def _functions(sf):
    def rec(node, prefix):
        for ch in ast.iter_child_nodes(node):
            if isinstance(ch, (ast.FunctionDef, ast.AsyncFunctionDef)):
                yield f"{prefix}{ch.name}", ch
                yield from rec(ch, f"{prefix}{ch.name}.")
            elif isinstance(ch, ast.ClassDef):
                yield from rec(ch, f"{prefix}{ch.name}.")
            else:
                yield from rec(ch, prefix)
    yield from rec(sf.tree, "")


# ----------------------------------------------------------------------------------- R1
def census(repo: Repo, rep, P: str):
    n_idx = n_list = n_owner = 0
    for rel, sf in sorted(repo.files.items()):
        if not sf.modname.startswith("rv"):
            continue
        for qn, fn in _functions(sf):
            from .. import inline
            arel, aq = inline.attributed_to(repo, rel, qn)
            fq = f"{arel}:{aq}"            # a private helper is accounted to the one function that uses it
            for n in walk_no_nested(fn):
                targets = []
                if isinstance(n, ast.Assign):
                    targets = list(n.targets)
                    flat = []
                    for t in targets:
                        flat += list(t.elts) if isinstance(t, (ast.Tuple, ast.List)) else [t]
                    targets = flat
                elif isinstance(n, (ast.AugAssign, ast.AnnAssign)):
                    targets = [n.target]
                elif isinstance(n, ast.Delete):
                    targets = list(n.targets)
                for t in targets:
                    if isinstance(t, ast.Attribute) and t.attr in ("index", "parent"):
                        n_idx += 1
                        if fq in INDEX_PARENT_WRITERS:
                            rep.ok(f"{P}.R1", fq, norm(n), INDEX_PARENT_WRITERS[fq])
                        elif fq in NOT_MODULE_OBJECTS:
                            rep.ok(f"{P}.R1", fq, norm(n), NOT_MODULE_OBJECTS[fq], nontrivial=False)
                        elif sf.modname.startswith("rv.tools"):
                            rep.info(f"{P}.R1", fq, norm(n), "tools/ (not part of the library API)")
                        elif norm(t.value) == "self" and not _in_module_class(repo, sf, qn):
                            rep.ok(f"{P}.R1", fq, norm(n), "attribute of a class that is not a Module", nontrivial=False)
                        elif not _mutates_list(fn, "modules"):
                            rep.violation(f"{P}.R1", fq, norm(n),
                                          f"`.{t.attr}` of an object is re-assigned by a function that does not move it in any "
                                          "module list: the back-reference stops mirroring the project's module list",
                                          f"{rel}:{n.lineno}")
                        else:
                            rep.inconclusive(f"{P}.R1", fq, norm(n),
                                             f"new writer of .{t.attr}: index/ownership coherence is argued from a fixed set of "
                                             "writers; this one is not analysed", f"{rel}:{n.lineno}")
                    if isinstance(t, ast.Attribute) and t.attr == "project" and "pattern" in norm(t.value).lower():
                        n_owner += 1
                        if fq in PATTERN_OWNER_WRITERS:
                            rep.ok(f"{P}.R1", fq, norm(n), PATTERN_OWNER_WRITERS[fq])
                        elif not _mutates_list(fn, "patterns"):
                            rep.violation(f"{P}.R1", fq, norm(n),
                                          "a pattern's owner is set by a function that does not put the pattern into any "
                                          "project's pattern list: owner and membership disagree", f"{rel}:{n.lineno}")
                        else:
                            rep.inconclusive(f"{P}.R1", fq, norm(n), "new writer of a pattern's owner", f"{rel}:{n.lineno}")
                    for lst in ("modules", "patterns"):
                        hit = False
                        if isinstance(t, ast.Attribute) and t.attr == lst:
                            hit = True
                        if isinstance(t, ast.Subscript) and isinstance(t.value, ast.Attribute) and t.value.attr == lst:
                            hit = True
                        if hit:
                            n_list += 1
                            _list_writer(rep, P, fq, lst, n, rel, sf, fn)
                if isinstance(n, ast.Call) and isinstance(n.func, ast.Attribute) and n.func.attr in MUT \
                        and isinstance(n.func.value, ast.Attribute) and n.func.value.attr in ("modules", "patterns"):
                    n_list += 1
                    _list_writer(rep, P, fq, n.func.value.attr, n, rel, sf, fn)
    rep.count("index_parent_store_sites", n_idx, 4)
    rep.count("list_mutation_sites", n_list, 8)
    rep.count("pattern_owner_store_sites", n_owner, 1)
    rep.count("files_scanned", len(repo.files), 100)


def _in_module_class(repo: Repo, sf, qn: str) -> bool:
    parts = qn.split(".")[:-1]
    if not parts:
        return False
    for c in repo.classes.get(".".join(parts), []) + repo.classes.get(parts[-1], []):
        if c.file is sf:
            try:
                return c.name == "Module" or repo.is_subclass(c, "Module")
            except AnchorMissing:
                return True
    return False


def _mutates_list(fn, lst: str) -> bool:
    for n in walk_no_nested(fn):
        if isinstance(n, ast.Call) and isinstance(n.func, ast.Attribute) and n.func.attr in MUT \
                and isinstance(n.func.value, ast.Attribute) and n.func.value.attr == lst:
            return True
        if isinstance(n, (ast.Assign, ast.AugAssign)):
            tg = n.targets if isinstance(n, ast.Assign) else [n.target]
            for t in tg:
                for sub in ast.walk(t):
                    if isinstance(sub, ast.Subscript) and isinstance(sub.value, ast.Attribute) and sub.value.attr == lst:
                        return True
                    if isinstance(sub, ast.Attribute) and sub.attr == lst and isinstance(sub.ctx, ast.Store):
                        return True
    return False


def _assigns_attr(fn, attr: str) -> bool:
    for n in walk_no_nested(fn):
        if isinstance(n, (ast.Assign, ast.AugAssign)):
            tg = n.targets if isinstance(n, ast.Assign) else [n.target]
            for t in tg:
                for sub in ast.walk(t):
                    if isinstance(sub, ast.Attribute) and sub.attr == attr and isinstance(sub.ctx, ast.Store):
                        return True
    return False


def _list_writer(rep, P, fq, lst, node, rel, sf, fn=None):
    if fq in LIST_WRITERS[lst]:
        rep.ok(f"{P}.R1", fq, norm(node), LIST_WRITERS[lst][fq])
    elif sf.modname.startswith("rv.tools"):
        rep.info(f"{P}.R1", fq, norm(node), "tools/")
    elif fn is not None and not _assigns_attr(fn, "index" if lst == "modules" else "project"):
        back = ".index" if lst == "modules" else ".project"
        rep.violation(f"{P}.R1", fq, norm(node),
                      f"Project.{lst} is restructured by a function that never updates the moved objects' `{back}`: "
                      "positions and back-references drift apart", f"{rel}:{node.lineno}")
    else:
        rep.inconclusive(f"{P}.R1", fq, norm(node),
                         f"new structural writer of Project.{lst}: positions/indices are argued from a fixed set of writers",
                         f"{rel}:{node.lineno}")


# ----------------------------------------------------------------------------------- R2/R3
def _events(g: CFG, path, mparam: str):
    """Events on one path: ('insert', how, node) / ('index', expr, node) / ('parent', expr, node) / ('mut', text, node)."""
    ev = []
    for nid, lab in path:
        n = g.nodes[nid]
        if n.kind != "stmt" or n.ast is None or lab == "exc":
            continue
        st = n.ast
        if isinstance(st, ast.Assign):
            for t in st.targets:
                if isinstance(t, ast.Attribute) and norm(t.value) == mparam and t.attr == "index":
                    ev.append(("index", st.value, n))
                elif isinstance(t, ast.Attribute) and norm(t.value) == mparam and t.attr == "parent":
                    ev.append(("parent", st.value, n))
                elif isinstance(t, ast.Subscript) and norm(t.value) == "self.modules":
                    ev.append(("insert", ("setitem", t.slice, st.value), n))
                elif isinstance(t, ast.Attribute) and norm(t) == "self.modules":
                    ev.append(("mut", norm(st), n))
        for c in ast.walk(st):
            if isinstance(c, ast.Call) and isinstance(c.func, ast.Attribute) and norm(c.func.value) == "self.modules" \
                    and c.func.attr in MUT:
                if c.func.attr == "append" and c.args:
                    ev.append(("insert", ("append", None, c.args[0]), n))
                else:
                    ev.append(("mut", norm(c), n))
    return ev


def _path_tests(g: CFG, path) -> List[Tuple[str, str]]:
    return [(norm(g.nodes[nid].ast), lab) for nid, lab in path if g.nodes[nid].kind == "test"]


def attach_module_rules(repo: Repo, rep, P: str):
    proj = repo.cls("Project", module="rv.project")
    fn = _nm(repo, proj, "attach_module")
    rel = proj.file.rel
    construct = f"{rel}:Project.attach_module"
    rep.func("rv.project.Project.attach_module")
    params = [a.arg for a in fn.args.args if a.arg != "self"]
    if not params:
        raise AnchorMissing("attach_module parameters")
    mp = params[0]
    vt = _value_tests(fn, set())
    if vt:
        rep.inconclusive(f"{P}.R2", construct, "; ".join(sorted(set(vt)))[:200],
                         "attach_module decides on computed values; the path rules follow conditions over the parameters and the module list only",
                         f"{rel}:{fn.lineno}")
        none_slot_first(repo, rep, P, "R2")
        module_index_rule(repo, rep, P, "R2")
        return
    g = CFG(fn)
    paths = g.paths(g.entry, [g.exit, g.raise_exit], max_visits=1, limit=5000)
    if paths is None:
        rep.inconclusive(f"{P}.R2", construct, "", "too many paths", f"{rel}:{fn.lineno}")
        return
    rep.count("attach_module_paths", len(paths), 6)
    none_slot_first(repo, rep, P, "R2")
    # module_index == list.index on self.modules
    module_index_rule(repo, rep, P, "R2")
    seen = set()
    n_insert_paths = 0
    for path in paths:
        end = path[-1][0]
        ev = _events(g, path, mp)
        reals = [g.nodes[n] for n, _ in path if g.nodes[n].kind in ("stmt", "test")]
        explicit_raise = end == g.raise_exit and reals and isinstance(reals[-1].ast, ast.Raise)
        if end == g.raise_exit and not explicit_raise:
            continue
        shape = (tuple((k, norm(v) if isinstance(v, ast.AST) else str([norm(x) if isinstance(x, ast.AST) else x for x in v]) if isinstance(v, tuple) else str(v)) for k, v, _ in ev),
                 "raise" if explicit_raise else "ok", tuple(_path_tests(g, path)))
        if shape in seen:
            continue
        seen.add(shape)
        tests = _path_tests(g, path)
        if explicit_raise:
            if ev:
                rep.violation(f"{P}.R3", construct, "; ".join(e[2].text() for e in ev) + f"; then {reals[-1].text()}",
                              "the project/module is modified on a path that then refuses the module", f"{rel}:{ev[0][2].lineno}")
            else:
                rep.ok(f"{P}.R3", construct, reals[-1].text(), "refusal before any mutation")
            continue
        inserts = [e for e in ev if e[0] == "insert"]
        others = [e for e in ev if e[0] == "mut"]
        if others:
            rep.inconclusive(f"{P}.R2", construct, others[0][2].text(), "unmodelled mutation of self.modules", f"{rel}:{others[0][2].lineno}")
            continue
        real_inserts = [e for e in inserts if norm(e[1][2]) == mp]
        none_path = any(t == (f"{mp} is None", "true") for t in tests)
        if none_path:
            # empty slot: append(None) only
            if len(inserts) == 1 and inserts[0][1][0] == "append" and not [e for e in ev if e[0] in ("index", "parent")]:
                rep.ok(f"{P}.R2", construct, inserts[0][2].text(), "empty position appended; nothing else touched")
            else:
                rep.violation(f"{P}.R2", construct, "; ".join(e[2].text() for e in ev) or "(nothing)",
                              "attaching None must append exactly one empty position", f"{rel}:{fn.lineno}")
            continue
        if not real_inserts:
            if ev:
                rep.violation(f"{P}.R3", construct, "; ".join(e[2].text() for e in ev),
                              "index/parent are changed on a path that does not insert the module (attaching an already "
                              "attached module must be a no-op)", f"{rel}:{ev[0][2].lineno}")
            continue
        n_insert_paths += 1
        _check_insert_path(rep, P, construct, rel, g, path, ev, real_inserts, tests, mp, params)
    rep.count("attach_module_insert_path_shapes", n_insert_paths, 2)
    # guards dominating every insertion: not already attached, not foreign
    dom = g.dominators()
    ins_nodes = set()
    for path in paths:
        if any(t == (f"{mp} is None", "true") for t in _path_tests(g, path)):
            continue     # the empty-slot path appends None
        for e in _events(g, path, mp):
            if e[0] == "insert" and norm(e[1][2]) == mp:
                ins_nodes.add(e[2].id)
    for nid in sorted(ins_nodes):
        node = g.nodes[nid]
        conds = _dominating_conditions(g, dom, nid)
        known = _facts(conds)
        need_new = (f"{mp} not in self.modules", "true")
        foreign_ok = guards.nnf(ast.parse(f"not ({mp}.parent is not None and {mp}.parent is not self)", mode="eval").body) in known \
            or {f"{mp}.parent is None"} <= known or {f"{mp}.parent is self"} <= known
        if need_new[0] in known:
            rep.ok(f"{P}.R3", construct, node.text(), f"guarded by `{need_new[0]}`")
        else:
            rep.violation(f"{P}.R3", construct, node.text(),
                          "insertion is not guarded by `module not in self.modules`: attaching the same module twice "
                          "would insert it twice", f"{rel}:{node.lineno}")
        if foreign_ok:
            rep.ok(f"{P}.R3", construct, node.text(), "guarded by the foreign-owner refusal")
        else:
            rep.violation(f"{P}.R3", construct, node.text(),
                          "insertion is reachable for a module whose parent is another project (ownership refusal missing "
                          "or not on this path)", f"{rel}:{node.lineno}")
    # the foreign-owner branch raises ModuleOwnershipError
    raises = [n for n in g.nodes if n.kind == "stmt" and isinstance(n.ast, ast.Raise) and n.ast.exc is not None
              and "ModuleOwnershipError" in norm(n.ast.exc)]
    if raises:
        conds = _dominating_conditions(g, dom, raises[0].id)
        known = _facts(conds)
        guard = next((t for t, lab in conds if "parent is not None" in t and "parent is not self" in t and lab == "true"), None)
        own = {f"{mp}.parent is not None", f"{mp}.parent is not self"}
        if own <= known and (guard is None or guards.facts_text(guard) == own):
            rep.ok(f"{P}.R3", construct, raises[0].text(), "raised exactly for a module owned by another project")
        elif guard:
            rep.violation(f"{P}.R3", construct, f"if {guard}", "the foreign-owner refusal carries an extra condition: some foreign modules are accepted",
                          f"{rel}:{raises[0].lineno}")
        else:
            rep.violation(f"{P}.R3", construct, raises[0].text(), "ownership error is raised under a different condition",
                          f"{rel}:{raises[0].lineno}")
    else:
        rep.violation(f"{P}.R3", construct, "raise ModuleOwnershipError(...)", "foreign modules are no longer refused",
                      f"{rel}:{fn.lineno}")


def _names_of(text: str) -> set:
    try:
        return {n.id for n in ast.walk(ast.parse(text, mode="eval")) if isinstance(n, ast.Name)}
    except SyntaxError:
        return set()


def _facts(conds) -> set:
    """Canonical literals known on a path / under dominating conditions."""
    out = set()
    for t, lab in conds:
        out |= guards.facts_text(t, lab == "true")
    return out


def _conjuncts(text: str) -> set:
    try:
        e = ast.parse(text, mode="eval").body
    except SyntaxError:
        return {text}
    if isinstance(e, ast.BoolOp) and isinstance(e.op, ast.And):
        return {norm(v) for v in e.values}
    return {norm(e)}


def none_slot_first(repo: Repo, rep, P: str, rule: str):
    """attach_module(None) appends an empty position whatever the list holds: the None test comes before everything else."""
    proj = repo.cls("Project", module="rv.project")
    fn = _nm(repo, proj, "attach_module")
    rel = proj.file.rel
    mp = [a.arg for a in fn.args.args if a.arg != "self"][0]
    g = CFG(fn)
    dom = g.dominators()
    tests = [n for n in g.nodes if n.kind == "test" and norm(n.ast) in (f"{mp} is None", f"{mp} == None", f"not {mp}")]
    if not tests:
        rep.violation(f"{P}.{rule}", f"{rel}:Project.attach_module", f"if {mp} is None: self.modules.append({mp})",
                      "empty positions are no longer handled", f"{rel}:{fn.lineno}")
        return
    t = tests[0]
    early = [n for n in g.nodes if n.kind in ("stmt", "test") and n.id != t.id and t.id not in dom.get(n.id, set()) and n.id in g.reachable()
             and not (n.kind == "stmt" and isinstance(n.ast, ast.Expr) and isinstance(n.ast.value, ast.Constant))]
    tsucc = [m for m, lab in g.succ[t.id] if lab == "true"]
    appends = tsucc and any(isinstance(c, ast.Call) and norm(c.func) == "self.modules.append" for c in ast.walk(g.nodes[tsucc[0]].ast or ast.Pass()))
    if early:
        rep.violation(f"{P}.{rule}", f"{rel}:Project.attach_module", early[0].text(),
                      f"`{early[0].text()}` runs before the empty-slot test: for {mp}=None it can return/raise without appending the "
                      "empty position (e.g. `None in self.modules` is true once one empty slot exists), so later modules shift down",
                      f"{rel}:{early[0].lineno}")
    elif not appends:
        rep.violation(f"{P}.{rule}", f"{rel}:Project.attach_module", t.text(), "the empty-slot branch does not append", f"{rel}:{t.lineno}")
    else:
        rep.ok(f"{P}.{rule}", f"{rel}:Project.attach_module", f"if {mp} is None: self.modules.append({mp})", "first test of the function")


def module_index_rule(repo: Repo, rep, P: str, rule: str):
    """Project.module_index(m) is self.modules.index(m) on every path (position look-up, ValueError for strangers)."""
    proj = repo.cls("Project", module="rv.project")
    rel = proj.file.rel
    mi = repo.own_method(proj, "module_index")
    mi_ret = [norm(s.value) for s in walk_no_nested(mi) if isinstance(s, ast.Return) and s.value is not None]
    mi_param = [a.arg for a in mi.args.args if a.arg != "self"]
    want = f"self.modules.index({mi_param[0]})" if mi_param else None
    if want is not None and mi_ret and all(r == want for r in mi_ret):
        rep.ok(f"{P}.{rule}", f"{rel}:Project.module_index", want, "lowest position holding the argument; ValueError for objects not in this project")
    else:
        bad = [r for r in mi_ret if r != want]
        rep.violation(f"{P}.{rule}", f"{rel}:Project.module_index", "; ".join(f"return {r}" for r in mi_ret),
                      f"module_index must return the position of its argument in THIS project's module list on every path "
                      f"(`return {bad[0] if bad else '?'}` does not look the object up: a module of another project, or None, is "
                      "given an index instead of raising ValueError)", f"{rel}:{mi.lineno}")


def _dominating_conditions(g: CFG, dom, nid: int) -> List[Tuple[str, str]]:
    """(test text, branch) for test nodes that dominate nid through a single branch."""
    out = []
    for d in dom.get(nid, set()):
        n = g.nodes[d]
        if n.kind != "test" or d == nid:
            continue
        labs = set()
        for m, lab in g.succ[d]:
            if lab in ("true", "false"):
                # does nid remain reachable only through this branch?
                r = g.reachable(m, avoid={d})
                if nid in r or m == nid:
                    labs.add(lab)
        if len(labs) == 1:
            out.append((norm(n.ast), labs.pop()))
    return out


def _check_insert_path(rep, P, construct, rel, g, path, ev, inserts, tests, mp, params):
    text = "; ".join(e[2].text() for e in ev)
    where = f"{rel}:{inserts[0][2].lineno}"
    if len(inserts) != 1:
        rep.violation(f"{P}.R2", construct, text, "the module is inserted more than once on one path", where)
        return
    how, sl, _ = inserts[0][1]
    order = [e[0] for e in ev]
    idx = [e for e in ev if e[0] == "index"]
    par = [e for e in ev if e[0] == "parent"]
    pos_insert = order.index("insert")
    ok = True
    if len(idx) != 1:
        ok = False
        rep.violation(f"{P}.R2", construct, text,
                      f"a path inserts the module but assigns {mp}.index {len(idx)} times: its index no longer mirrors its position", where)
    else:
        ie = norm(idx[0][1])
        pos_index = order.index("index")
        if how == "setitem":
            # index := first empty position, then stored at that very index
            if ie not in ("self.module_index(None)", "self.modules.index(None)"):
                ok = False
                rep.violation(f"{P}.R2", construct, text,
                              f"gap filling must take the LOWEST empty position (self.module_index(None)), got {ie}", where)
            if norm(sl) != f"{mp}.index" or pos_index > pos_insert:
                ok = False
                rep.violation(f"{P}.R2", construct, text,
                              f"the module is stored at [{norm(sl)}] which is not the index just assigned to it", where)
        else:
            after = pos_index > pos_insert
            good_after = ie in (f"self.module_index({mp})", f"self.modules.index({mp})", "len(self.modules) - 1")
            good_before = ie in ("len(self.modules)",)
            if not ((after and good_after) or (not after and good_before)):
                ok = False
                rep.violation(f"{P}.R2", construct, text,
                              f"after an append the module's index must be its position; `{mp}.index = {ie}` "
                              f"({'after' if after else 'before'} the append) is not", where)
    if len(par) < 1 or norm(par[-1][1]) != "self":
        ok = False
        rep.violation(f"{P}.R2", construct, text, f"a path inserts the module without setting {mp}.parent = self", where)
    # gap-fill decision: the lowest empty position is reused exactly when `not loading and None in self.modules`
    loading = params[1] if len(params) > 1 else "loading"
    known = _facts(tests)
    fill = guards.facts_text(f"not {loading} and None in self.modules")
    no_fill = guards.facts_text(f"not (not {loading} and None in self.modules)") | {loading, "None not in self.modules"}
    gap_text = "; ".join(f"{t} [{lab}]" for t, lab in tests if "None in self.modules" in t or loading in _names_of(t))
    if how == "setitem":
        if not fill <= known:
            ok = False
            rep.violation(f"{P}.R2", construct, f"{gap_text} → {text}",
                          f"an empty position must be reused exactly when `not {loading} and None in self.modules`; this gap-filling "
                          f"path does not establish {sorted(fill - known)}", where)
    else:
        if fill <= known:
            ok = False
            rep.violation(f"{P}.R2", construct, f"{gap_text} → {text}", "gap filling and appending are on the wrong branches", where)
        elif not (no_fill & known):
            ok = False
            rep.violation(f"{P}.R2", construct, f"{gap_text} → {text}",
                          f"the module is appended on a path that does not exclude `not {loading} and None in self.modules` exactly "
                          "(a new module must take the lowest empty position unless loading, and only then)", where)
    if ok:
        rep.ok(f"{P}.R2", construct, text, f"{how}: index = insertion position, parent = self")
        rep.sample({"path_tests": tests, "events": [e[2].text() for e in ev]})


def attach_pattern_rules(repo: Repo, rep, P: str):
    proj = repo.cls("Project", module="rv.project")
    fn = _nm(repo, proj, "attach_pattern")
    rel = proj.file.rel
    construct = f"{rel}:Project.attach_pattern"
    rep.func("rv.project.Project.attach_pattern")
    pp = [a.arg for a in fn.args.args if a.arg != "self"][0]
    g = CFG(fn)
    dom = g.dominators()
    raises = [n for n in g.nodes if n.kind == "stmt" and isinstance(n.ast, ast.Raise) and n.ast.exc is not None
              and "PatternOwnershipError" in norm(n.ast.exc)]
    muts = [n for n in g.nodes if n.kind == "stmt" and n.ast is not None and
            (any(isinstance(c, ast.Call) and isinstance(c.func, ast.Attribute) and norm(c.func.value) == "self.patterns"
                 and c.func.attr in MUT for c in ast.walk(n.ast))
             or (isinstance(n.ast, ast.Assign) and any(isinstance(t, ast.Attribute) and t.attr == "project" for t in n.ast.targets)))]
    if not raises:
        rep.violation(f"{P}.R3", construct, "raise PatternOwnershipError(...)", "owned patterns are no longer refused", f"{rel}:{fn.lineno}")
    else:
        r = raises[0]
        conds = _dominating_conditions(g, dom, r.id)
        guard = next((t for t, lab in conds if f"{pp}.project is not None" in t and lab == "true"), None)
        conj = _conjuncts(guard) if guard else set()
        allowed = {pp, f"{pp} is not None", f"{pp}.project is not None"}
        if guard and f"{pp}.project is not None" in conj and conj <= allowed:
            rep.ok(f"{P}.R3", construct, f"if {guard}: {r.text()}", "raised for every pattern or clone that already has an owner")
        elif guard:
            rep.violation(f"{P}.R3", construct, f"if {guard}: {r.text()}",
                          f"the ownership refusal is narrowed by {sorted(conj - allowed)}: owned objects that fail this extra test "
                          "(e.g. pattern clones) are attached to a second project", f"{rel}:{r.lineno}")
        else:
            rep.violation(f"{P}.R3", construct, r.text(), "ownership error raised under a different condition", f"{rel}:{r.lineno}")
        # no mutation can precede the raise
        before = [m for m in muts if r.id in g.reachable(m.id)]
        if before:
            rep.violation(f"{P}.R3", construct, f"{before[0].text()} … {r.text()}",
                          "the project is modified before the pattern is refused", f"{rel}:{before[0].lineno}")
        else:
            rep.ok(f"{P}.R3", construct, r.text(), "refusal precedes every mutation")
    # every normal path appends exactly the argument and sets the owner when it is a pattern
    appends = [n for n in g.nodes if n.kind == "stmt" and any(
        isinstance(c, ast.Call) and norm(c.func) == "self.patterns.append" and c.args and norm(c.args[0]) == pp for c in ast.walk(n.ast))]
    owner = [n for n in g.nodes if n.kind == "stmt" and isinstance(n.ast, ast.Assign)
             and any(norm(t) == f"{pp}.project" for t in n.ast.targets) and norm(n.ast.value) == "self"]
    wo = g.reachable(avoid={a.id for a in appends}, labels_excluded={"exc", "reraise", "nomatch"})
    if appends and g.exit not in wo:
        rep.ok(f"{P}.R2", construct, appends[0].text(), "on every normal path")
    else:
        rep.violation(f"{P}.R2", construct, "self.patterns.append(pattern)", "a normal path does not append the pattern/empty slot",
                      f"{rel}:{fn.lineno}")
    if owner:
        conds = _dominating_conditions(g, dom, owner[0].id)
        known = _facts(conds)
        allowed = {pp, f"{pp} is not None", f"{pp}.project is None"} | guards.facts_text(f"not ({pp} and {pp}.project is not None)") \
            | guards.facts_text(f"not ({pp} is not None and {pp}.project is not None)")
        extra = sorted(known - allowed)
        if not extra and (known & {pp, f"{pp} is not None"}):
            rep.ok(f"{P}.R2", construct, owner[0].text(), "owner set for every real pattern")
        else:
            rep.violation(f"{P}.R2", construct, owner[0].text() + f" under {conds}", "owner is set only under an extra condition",
                          f"{rel}:{owner[0].lineno}")
    else:
        rep.violation(f"{P}.R2", construct, f"{pp}.project = self", "attached patterns no longer get their owner set", f"{rel}:{fn.lineno}")
    rets = [norm(n.ast.value) for n in g.nodes if n.kind == "stmt" and isinstance(n.ast, ast.Return) and n.ast.value is not None]
    if rets == ["len(self.patterns) - 1"]:
        rep.ok(f"{P}.R2", construct, "return len(self.patterns) - 1", "returns the position of the appended slot", nontrivial=False)
    else:
        rep.info(f"{P}.R2", construct, "; ".join(rets), "return value is not the appended position")


# ----------------------------------------------------------------------------------- R4
def output_rules(repo: Repo, rep, P: str):
    proj = repo.cls("Project", module="rv.project")
    init = repo.own_method(proj, "__init__")
    rel = proj.file.rel
    body = [norm(s) for s in init.body if not (isinstance(s, ast.Expr) and isinstance(s.value, ast.Constant))]
    try:
        i_list = body.index("self.modules = []")
        i_out = next(i for i, s in enumerate(body) if "self.attach_module(Output())" in s)
        first_attach = next(i for i, s in enumerate(body) if "attach_module" in s or "new_module" in s)
        ok = i_list < i_out and first_attach == i_out and "self.output" in body[i_out]
    except (ValueError, StopIteration):
        ok = False
    if ok:
        rep.ok(f"{P}.R4", f"{rel}:Project.__init__", "self.modules = []; self.output = self.attach_module(Output())",
               "Output is the first module attached to the empty list")
    else:
        rep.violation(f"{P}.R4", f"{rel}:Project.__init__", "; ".join(body[:3]),
                      "a new project must start with an empty module list and attach Output() first (position 0)",
                      f"{rel}:{init.lineno}")
    am = _nm(repo, proj, "attach_module")
    src = norm(am)
    if "isinstance(module, Output) and module.index == 0" in src and "self.output = module" in src:
        rep.ok(f"{P}.R4", f"{rel}:Project.attach_module", "if isinstance(module, Output) and module.index == 0: self.output = module",
               nontrivial=False)
    else:
        rep.info(f"{P}.R4", f"{rel}:Project.attach_module", "", "project.output is no longer refreshed when an Output lands at 0")
    out = repo.cls("Output", module="rv.modules.output")
    try:
        v = repo.fold(out.assigns["index"], ci=out)
    except Exception:
        v = None
    if v == 0:
        rep.ok(f"{P}.R4", f"{out.file.rel}:Output", "index = 0")
    else:
        rep.violation(f"{P}.R4", f"{out.file.rel}:Output", f"index = {v!r}", "Output's class-level index must be 0", f"{out.file.rel}:{out.node.lineno}")
    mr = repo.cls("ModuleReader", module="rv.readers.module")
    pc = repo.own_method(mr, "process_chunks")
    srcs = [norm(s) for s in pc.body]
    # which class is built for position 0 and for position 1: fold the conditional with self._index replaced
    import copy as _copy

    def built_for(k: int) -> Optional[str]:
        class Rep(ast.NodeTransformer):
            def visit_Attribute(self, node):
                if norm(node) == "self._index":
                    return ast.copy_location(ast.Constant(value=k), node)
                return self.generic_visit(node)
        in_if = {id(x) for top in pc.body if isinstance(top, ast.If) for x in ast.walk(top)}
        for st in ast.walk(pc):
            tgt = val = None
            if isinstance(st, ast.Assign) and any(norm(t) == "self.object" for t in st.targets) and id(st) not in in_if:
                val = st.value
            if val is None:
                continue
            v2 = Rep().visit(_copy.deepcopy(val))
            ast.fix_missing_locations(v2)
            while isinstance(v2, ast.IfExp):
                try:
                    v2 = v2.body if repo.fold(v2.test, ci=mr) else v2.orelse
                except Exception:
                    return None
            if isinstance(v2, ast.Call):
                return norm(v2.func).split(".")[-1]
        # statement form: if self._index …: self.object = A() else: self.object = B()
        for st in pc.body:
            if isinstance(st, ast.If):
                t2 = Rep().visit(_copy.deepcopy(st.test))
                ast.fix_missing_locations(t2)
                try:
                    br = st.body if repo.fold(t2, ci=mr) else st.orelse
                except Exception:
                    return None
                for b in br:
                    if isinstance(b, ast.Assign) and any(norm(t) == "self.object" for t in b.targets) and isinstance(b.value, ast.Call):
                        return norm(b.value.func).split(".")[-1]
        return None
    b0, b1 = built_for(0), built_for(1)
    if b0 == "Output" and b1 == "Module":
        rep.ok(f"{P}.R4", f"{mr.file.rel}:ModuleReader.process_chunks", "position 0 → Output(), other positions → Module()",
               "reader builds Output for position 0")
    elif b0 is None or b1 is None:
        rep.inconclusive(f"{P}.R4", f"{mr.file.rel}:ModuleReader.process_chunks", "; ".join(srcs)[:120],
                         "construction of the module object by position not recognised", f"{mr.file.rel}:{pc.lineno}")
    else:
        rep.violation(f"{P}.R4", f"{mr.file.rel}:ModuleReader.process_chunks", f"position 0 → {b0}(), position 1 → {b1}()",
                      "the module read at position 0 must be constructed as Output", f"{mr.file.rel}:{pc.lineno}")
    sr = repo.cls("SunVoxReader", module="rv.readers.sunvox")
    sfff = repo.own_method(sr, "process_SFFF")
    from .. import inline
    from ..packed import subst_locals
    from .. import codec as _codec14
    sflat = inline.normalize(repo, sr, getattr(sr.methods, "raw", sr.methods).get("process_SFFF", sfff), aliases=True,
                             also=_codec14.section_helpers(repo, sr))            # `self.read_section(ModuleReader, data, index=…)` read through
    src = " ".join(norm(s) for s in sflat.body)
    ctor = [c for c in ast.walk(sflat) if isinstance(c, ast.Call) and norm(c.func).split(".")[-1] == "ModuleReader"]
    idx = None
    if ctor:
        idx = next((k.value for k in ctor[0].keywords if k.arg == "index"), ctor[0].args[1] if len(ctor[0].args) > 1 else None)
        if idx is not None:
            idx = subst_locals(sflat, idx)
    if idx is not None and norm(idx) == "len(self.object.modules)":
        rep.ok(f"{P}.R4", f"{sr.file.rel}:SunVoxReader.process_SFFF", "index = len(self.object.modules)",
               "reader passes the position the module will be appended at")
    elif not ctor or idx is None:
        rep.inconclusive(f"{P}.R4", f"{sr.file.rel}:SunVoxReader.process_SFFF", src[:140], "construction of the module reader not recognised",
                         f"{sr.file.rel}:{sfff.lineno}")
    else:
        rep.violation(f"{P}.R4", f"{sr.file.rel}:SunVoxReader.process_SFFF", f"index = {norm(idx)}",
                      "the reader must hand ModuleReader the position the module will occupy", f"{sr.file.rel}:{sfff.lineno}")


# ----------------------------------------------------------------------------------- R5
def note_mod_rules(repo: Repo, rep, P: str):
    note = repo.cls("Note", module="rv.note")
    rel = note.file.rel
    rep.func("rv.note.Note.mod / module_index")
    s = note.setters.get("mod")
    gm = note.getters.get("mod")
    gi = note.getters.get("module_index")
    if s is None or gm is None or gi is None:
        raise AnchorMissing("Note.mod / Note.module_index")
    from .. import inline as _il
    # named constants (`_NO_MODULE = 0`, `_MODULE_NUMBER_BASE = 1`) are read as their values
    s = _il.fold_module_names(repo, note.file, _il.normalize(repo, note, s), ci=note)
    gi = _il.fold_module_names(repo, note.file, gi, ci=note)
    gm = _il.fold_module_names(repo, note.file, gm, ci=note)
    sp = [a.arg for a in s.args.args if a.arg != "self"][0]
    store = None
    for n in walk_no_nested(s):
        if isinstance(n, ast.Assign) and any(norm(t) == "self.module" for t in n.targets):
            store = n.value

    def leaf(e):
        if norm(e) == f"{sp}.index":
            return alg.Poly.sym("idx")
        if norm(e) == "self.module":
            return alg.Poly.sym("m")
        if norm(e) == "self.index":
            return alg.Poly.sym("idx")
        return None
    ok_set = False
    if store is not None:
        from ..packed import single_defs as _sd5, resolve_names as _rn5
        store = _rn5(store, _sd5(s))               # `number = new_mod.index + 1; self.module = number`
        try:
            ok_set = alg.to_poly(store, leaf) == alg.Poly.sym("idx") + 1
        except alg.NotAlgebraic:
            ok_set = None
    if ok_set:
        rep.ok(f"{P}.R5", f"{rel}:Note.mod.setter", f"self.module = {norm(store)}", "stores index + 1")
    elif ok_set is None:
        rep.inconclusive(f"{P}.R5", f"{rel}:Note.mod.setter", f"self.module = {norm(store)}", "the stored module number is not an affine expression of the module's index",
                         f"{rel}:{s.lineno}")
    else:
        rep.violation(f"{P}.R5", f"{rel}:Note.mod.setter", f"self.module = {norm(store) if store is not None else '?'}",
                      "the note's module number must be the module's index + 1 (0 means no module)", f"{rel}:{s.lineno}")
    # module_index: None if module == 0 else module - 1   (conditional expression or if/return form)
    from .. import inline
    gi_e = inline.as_expression(inline.normalize(repo, note, gi))
    ok_get = False
    if isinstance(gi_e, ast.IfExp):
        ie = gi_e
        try:
            zero = guards.facts(ie.test, True)
            if zero == {"self.module == 0"}:
                ok_get = norm(ie.body) == "None" and alg.to_poly(ie.orelse, leaf) == alg.Poly.sym("m") - 1
            elif zero in ({"self.module != 0"}, {"self.module"}):
                ok_get = norm(ie.orelse) == "None" and alg.to_poly(ie.body, leaf) == alg.Poly.sym("m") - 1
        except alg.NotAlgebraic:
            ok_get = False
        if ok_get:
            rep.ok(f"{P}.R5", f"{rel}:Note.module_index", norm(ie), "0 → None, m → m − 1 (inverse of the setter)")
        else:
            rep.violation(f"{P}.R5", f"{rel}:Note.module_index", norm(ie),
                          "module_index must map 0 to None and m to m − 1", f"{rel}:{gi.lineno}")
    else:
        rep.inconclusive(f"{P}.R5", f"{rel}:Note.module_index", norm(gi)[:120],
                         "module_index is not a two-way conditional on self.module: shape not recognised", f"{rel}:{gi.lineno}")
    # mod: project.modules[module_index] exactly when module_index is set and in range, None otherwise
    gmn = inline.split_ifexp_returns(inline.normalize(repo, note, gm, aliases=True))
    g = CFG(gmn)
    paths = g.paths(g.entry, [g.exit], max_visits=1, limit=2000, labels_excluded=("exc",))
    bad = []
    seen_lookup = False
    in_range = guards.facts_text("self.module_index is not None and self.module_index < len(self.project.modules)")
    out_atoms = ["self.module_index is None", "self.module_index >= len(self.project.modules)"]
    out_range = {guards.canon_text(a) for a in out_atoms} | {guards.nnf(ast.parse(" or ".join(out_atoms), mode="eval").body)}
    from ..packed import resolve_names as _rn

    def _simple(e: ast.expr) -> bool:
        """names, attribute chains, constants and subscripts of these: values that can be written at their use"""
        if all(isinstance(x, (ast.Name, ast.Attribute, ast.Constant, ast.Subscript, ast.Load)) for x in ast.walk(e)):
            return True
        # a named condition (`beyond_last = not (index < len(modules))`): comparisons / not / and / or over such values and len(…)
        return all(isinstance(x, (ast.Name, ast.Attribute, ast.Constant, ast.Subscript, ast.Load, ast.Compare, ast.BoolOp, ast.UnaryOp, ast.cmpop,
                                  ast.boolop, ast.Not)) or (isinstance(x, ast.Call) and norm(x.func) == "len" and len(x.args) == 1 and not x.keywords)
                   for x in ast.walk(e)) and isinstance(e, (ast.Compare, ast.BoolOp, ast.UnaryOp))
    for path in paths or []:
        if not g.feasible(path):
            continue
        # locals along this path (`index = self.module_index`, `found = modules[index]`) are read as what they name
        env_: Dict[str, ast.expr] = {}
        tests_: List[Tuple[str, str]] = []
        val = None
        has_ret = False
        for nid, lab in path:
            nn = g.nodes[nid]
            if nn.kind == "test":
                tests_.append((norm(_rn(nn.ast, env_)), lab))
            elif nn.kind == "stmt" and isinstance(nn.ast, ast.Assign) and len(nn.ast.targets) == 1 and isinstance(nn.ast.targets[0], ast.Name):
                v_ = _rn(nn.ast.value, env_)
                if _simple(v_):
                    env_[nn.ast.targets[0].id] = v_
                else:
                    env_.pop(nn.ast.targets[0].id, None)
            elif nn.kind == "stmt" and isinstance(nn.ast, ast.Return):
                has_ret = True
                val = _rn(nn.ast.value, env_) if nn.ast.value is not None else None
        known = _facts(tests_)
        rets = [1] if has_ret else []
        if isinstance(val, ast.Subscript):
            if norm(val.value) != "self.project.modules" or norm(val.slice) != "self.module_index":
                bad.append((norm(val), "looks up something other than project.modules[module_index]"))
            elif not in_range <= known:
                bad.append((norm(val), f"look-up without establishing {sorted(in_range - known)}"))
            else:
                seen_lookup = True
        elif val is None or (isinstance(val, ast.Constant) and val.value is None):
            if not (out_range & known):
                bad.append(("return None", "None is returned although the module number is set and in range"))
        else:
            bad.append((norm(val), "unrecognised result"))
    if paths is None or (not seen_lookup and not bad):
        rep.inconclusive(f"{P}.R5", f"{rel}:Note.mod", norm(gm)[:120], "look-up shape not recognised", f"{rel}:{gm.lineno}")
    elif bad and all(w == "unrecognised result" for _, w in bad):
        rep.inconclusive(f"{P}.R5", f"{rel}:Note.mod", "; ".join(t for t, _ in bad), "result expression not recognised", f"{rel}:{gm.lineno}")
    elif bad:
        rep.violation(f"{P}.R5", f"{rel}:Note.mod", "; ".join(f"{t}: {w}" for t, w in bad),
                      "Note.mod must resolve to project.modules[module_index] (None when unset / out of range)", f"{rel}:{gm.lineno}")
    else:
        rep.ok(f"{P}.R5", f"{rel}:Note.mod", "self.project.modules[self.module_index]", "position look-up with None and bounds checks")
    if "ModuleOwnershipError" in norm(s) and f"{sp}.parent is None" in norm(s):
        rep.ok(f"{P}.R5", f"{rel}:Note.mod.setter", f"if {sp}.parent is None: raise ModuleOwnershipError", nontrivial=False)
    else:
        rep.info(f"{P}.R5", f"{rel}:Note.mod.setter", "", "unattached modules are no longer refused")
    mod = repo.cls("Module", module="rv.modules.module")
    mint = mod.methods.get("__int__")
    if mint is not None:
        r = [st.value for st in mint.body if isinstance(st, ast.Return)]
        try:
            good = bool(r) and alg.to_poly(r[0], leaf) == alg.Poly.sym("idx") + 1
        except alg.NotAlgebraic:
            good = False
        if good:
            rep.ok(f"{P}.R5", f"{mod.file.rel}:Module.__int__", "return self.index + 1", "agrees with Note.mod")
        else:
            rep.violation(f"{P}.R5", f"{mod.file.rel}:Module.__int__", norm(r[0]) if r else "?",
                          "int(module) must be the pattern module number index + 1", f"{mod.file.rel}:{mint.lineno}")


# ----------------------------------------------------------------------------------- entry points
def entry_points(repo: Repo, rep, P: str):
    proj = repo.cls("Project", module="rv.project")
    rel = proj.file.rel
    nm = _nm(repo, proj, "new_module")
    from ..packed import single_defs, resolve_names
    ctor = next((a.arg for a in nm.args.args if a.arg != "self"), None)
    defs = single_defs(nm)
    attached = [resolve_names(c.args[0], defs) for c in ast.walk(nm) if isinstance(c, ast.Call) and norm(c.func) == "self.attach_module" and c.args]
    if any(isinstance(a, ast.Call) and isinstance(a.func, ast.Name) and a.func.id == ctor for a in attached):
        rep.ok(f"{P}.R2", f"{rel}:Project.new_module", "self.attach_module(mod)", "goes through attach_module")
    else:
        rep.violation(f"{P}.R2", f"{rel}:Project.new_module", norm(nm)[:120], "new_module must attach through attach_module", f"{rel}:{nm.lineno}")
    ia = _nm(repo, proj, "__iadd__")
    src = norm(ia)
    need = ["self.attach_module(other)", "self.attach_pattern(other)", "return self"]
    missing = [n for n in need if n not in src]
    # a dispatch table of method names (class constant) looked up with getattr(self, name) also delegates
    named = set()
    for n in ast.walk(ia):
        if isinstance(n, ast.Attribute) and isinstance(n.value, ast.Name) and n.value.id in ("self", "cls"):
            d = inline.definition_of(repo, proj, proj.file, n)
            if d is not None:
                named |= {c.value for c in ast.walk(d) if isinstance(c, ast.Constant) and isinstance(c.value, str)}
    via_table = {"attach_module", "attach_pattern"} <= named and any(isinstance(c, ast.Call) and norm(c.func) == "getattr" and c.args and norm(c.args[0]) == "self"
                                                                    for c in ast.walk(ia))
    # structural form: self.attach_module(x) where x is known to be a Module, self.attach_pattern(y) where y is a pattern / clone,
    # and the project itself is returned (whatever the operand variable is called and however nested lists are walked)
    gi = CFG(ia)
    domi = gi.dominators()
    found = {"attach_module": None, "attach_pattern": None}
    for n in gi.nodes:
        if n.kind != "stmt" or n.ast is None:
            continue
        for c in ast.walk(n.ast):
            if isinstance(c, ast.Call) and norm(c.func) in ("self.attach_module", "self.attach_pattern") and len(c.args) >= 1:
                known = _facts(_dominating_conditions(gi, domi, n.id))
                arg = norm(c.args[0])
                what = norm(c.func).split(".")[-1]
                if what == "attach_module":
                    ok_ = f"isinstance({arg}, Module)" in known
                else:
                    ok_ = any(k in known for k in (f"isinstance({arg}, (Pattern, PatternClone))", f"isinstance({arg}, (PatternClone, Pattern))"))
                found[what] = ok_ if found[what] is None else (found[what] and ok_)
    returns_self = any(isinstance(r_, ast.Return) and r_.value is not None and norm(r_.value) == "self" for r_ in walk_no_nested(ia))
    structural = found["attach_module"] is True and found["attach_pattern"] is True and returns_self
    if not missing or structural:
        rep.ok(f"{P}.R2", f"{rel}:Project.__iadd__", "attach_module / attach_pattern / return self", "+= delegates to the attach operations")
    elif found["attach_module"] is not None and found["attach_pattern"] is not None and returns_self:
        rep.inconclusive(f"{P}.R2", f"{rel}:Project.__iadd__", src[:160], "the attach operations are called, but under type tests that are not recognised",
                         f"{rel}:{ia.lineno}")
    elif via_table:
        rep.inconclusive(f"{P}.R2", f"{rel}:Project.__iadd__", src[:160], "+= dispatches through a table of method names: which operand reaches which "
                         "attach operation is not decided", f"{rel}:{ia.lineno}")
    else:
        rep.violation(f"{P}.R2", f"{rel}:Project.__iadd__", f"missing: {missing}", "+= no longer delegates to the attach operations",
                      f"{rel}:{ia.lineno}")
