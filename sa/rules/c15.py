"""C15 — MetaModules keep embedded project and user controllers intact (narrow structural claim)."""

from __future__ import annotations

import ast
from typing import Dict, List, Optional, Tuple

from .. import alg, chnm, docs, parity
from ..classmodel import all_controllers, all_options, own_controllers
from ..model import AnchorMissing, IndexedElement, NotConst, Repo, attr_chain, norm, stmts_of, walk_no_nested

LEVEL = "other"
EXPLANATION = (
    "decides the positional coupling only; re-derivation of user-controller value types from the mappings and the "
    "stored values themselves are NOT decided. Checked: the three places that name the 96 user-defined controllers "
    "(per-instance UserDefined objects, class-level proxies, the reader's key list) produce the same names in the "
    "same order after the generated controllers, with numbers continuing the generated numbering; labels are "
    "written at 8 + i and read back at chnm − 8; chnk = 8 + MAX; the embedded project is written with "
    "Project.read() at chunk 0 and loaded through read_sunvox_file (recursion and the load guard of C18 are "
    "inherited); both writers filter controllers by attached(); the attach state is written only by "
    "attach/detach, driven by recompute_controller_attachment which attaches exactly the first n; the reader "
    "recomputes attachment before applying stored values. Module-row parity, raw-value inverse and option "
    "packing are shared from C01/C05/C10/C11."
)
DECLINED = ["re-derivation of user-controller value types from mappings and the stored user-controller values",
            "nesting depth (the recursion is structural; depth is not bounded by anything in the code)"]
ASSUMPTIONS = ["ModuleMeta numbers controllers in definition order: generated ones first, then the class's own (C13)"]

MM = "rv.modules.metamodule"


def sync_method(repo: Repo, aliases: bool = False):
    """`MetaModule.MappingArray.update_user_defined_controllers(metamodule)` as the rules read it.  When the static method only
    delegates to a method of the metamodule (`metamodule.update_user_defined_controllers()`), that method is read through with the
    parameter in place of `self`."""
    from .. import inline as _inl
    mm = repo.cls("MetaModule", module="rv.modules.metamodule")
    ma = mm.nested.get("MappingArray")
    upd = ma.methods.get("update_user_defined_controllers") if ma is not None else None
    if upd is None:
        return None
    raw = getattr(ma.methods, "raw", ma.methods).get("update_user_defined_controllers", upd)
    params = [a.arg for a in raw.args.args]
    if params and not any(isinstance(n, ast.Attribute) and isinstance(n.ctx, ast.Store) and n.attr == "value_type" for n in ast.walk(upd)):
        delegates = [c for c in ast.walk(raw) if isinstance(c, ast.Call) and isinstance(c.func, ast.Attribute) and isinstance(c.func.value, ast.Name)
                     and c.func.value.id == params[0] and c.func.attr in mm.methods]
        if delegates:
            try:
                return _inl.normalize(repo, ma, raw, aliases=aliases, receivers={params[0]: mm}, also=tuple({c.func.attr for c in delegates}))
            except Exception:
                pass
    return _inl.normalize(repo, ma, raw, aliases=aliases)


def mapping_alignment_rule(repo: Repo, rep, P: str, rule: str):
    """update_user_defined_controllers pairs mapping i with user-defined controller i: the two sequences are walked in step from
    the start, unfiltered.  Dropping unmapped slots BEFORE the pairing shifts every later mapping onto an earlier controller."""
    from .. import inline as _inl
    from ..packed import single_defs, resolve_names
    mm = repo.cls("MetaModule", module="rv.modules.metamodule")
    ma = mm.nested.get("MappingArray")
    upd = ma.methods.get("update_user_defined_controllers") if ma is not None else None
    if upd is None:
        return
    con = f"{mm.file.rel}:MetaModule.MappingArray.update_user_defined_controllers"
    fn = sync_method(repo, aliases=True)
    mp = fn.args.args[0].arg if fn.args.args else "metamodule"
    defs = single_defs(fn)
    stores = [n for n in ast.walk(fn) if isinstance(n, ast.Attribute) and isinstance(n.ctx, ast.Store) and n.attr == "value_type" and isinstance(n.value, ast.Name)]
    if not stores:
        return          # decided elsewhere (C17.R5 / user_value_type_rule)
    uvar = stores[0].value.id
    verdict, detail = "?", "pairing of mappings and user-defined controllers not recognised"
    for lp in [n for n in ast.walk(fn) if isinstance(n, ast.For)]:
        it = resolve_names(lp.iter, defs)
        tgt = lp.target
        if isinstance(it, ast.Call) and norm(it.func) == "enumerate" and it.args and isinstance(tgt, ast.Tuple) and len(tgt.elts) == 2:
            it, tgt = resolve_names(it.args[0], defs), tgt.elts[1]
        rows = None
        if isinstance(tgt, ast.Name) and any(isinstance(a, ast.Assign) and isinstance(a.targets[0], ast.Tuple) and isinstance(a.value, ast.Name)
                                             and a.value.id == tgt.id and any(norm(e) == uvar for e in a.targets[0].elts) for a in ast.walk(lp)):
            a = next(a for a in ast.walk(lp) if isinstance(a, ast.Assign) and isinstance(a.targets[0], ast.Tuple) and isinstance(a.value, ast.Name) and a.value.id == tgt.id)
            tgt = a.targets[0]
        if isinstance(it, ast.Call) and norm(it.func) == "zip" and isinstance(tgt, ast.Tuple) and len(it.args) == len(tgt.elts) \
                and any(norm(e) == uvar for e in tgt.elts):
            rows = list(zip(tgt.elts, it.args))
        if rows is None:
            continue
        verdict = "ok"
        for t, a in rows:
            a = resolve_names(a, defs)
            base = a
            while True:
                if isinstance(base, ast.Subscript) and isinstance(base.slice, ast.Slice) and base.slice.lower is None and base.slice.step is None:
                    base = base.value          # a prefix: positions unchanged
                elif isinstance(base, ast.Call) and norm(base.func) in ("islice", "itertools.islice") and len(base.args) == 2:
                    base = base.args[0]
                elif isinstance(base, ast.Call) and norm(base.func) in ("list", "tuple", "iter") and len(base.args) == 1:
                    base = base.args[0]
                else:
                    break
            filtered = (isinstance(base, (ast.ListComp, ast.GeneratorExp)) and any(g.ifs for g in base.generators)) or \
                (isinstance(base, ast.Call) and norm(base.func) in ("filter", "itertools.filterfalse", "filterfalse", "compress", "takewhile", "dropwhile"))
            if filtered:
                verdict, detail = "bad", f"`{norm(t)}` comes from a filtered sequence ({norm(base)[:80]})"
                break
            if not (isinstance(base, ast.Attribute) and norm(base) in (f"{mp}.mappings.values", f"{mp}.user_defined")):
                if verdict == "ok":
                    verdict, detail = "?", f"sequence paired with the controllers not recognised: {norm(base)[:80]}"
        break
    if verdict == "ok":
        rep.ok(f"{P}.{rule}", con, "zip(mappings.values, user_defined)", "mapping i is applied to user-defined controller i (unfiltered, from the start)")
    elif verdict == "bad":
        rep.violation(f"{P}.{rule}", con, detail,
                      "mappings are filtered before they are paired with the user-defined controllers: after an unmapped / dangling slot every later "
                      "mapping is applied to an earlier controller (wrong value types and values)", f"{mm.file.rel}:{upd.lineno}")
    else:
        rep.inconclusive(f"{P}.{rule}", con, "", detail, f"{mm.file.rel}:{upd.lineno}")


def run(repo: Repo, rep, tier: str):
    naming(repo, rep, "C15")
    user_defined_fresh(repo, rep, "C15", "R1")          # the UserDefined objects (value types, labels, attachment) are per MetaModule
    labels_and_project(repo, rep, "C15")
    attachment(repo, rep, "C15")
    shared(repo, rep, "C15")


def _max(repo: Repo) -> int:
    return repo.fold(repo.module_assign(MM, "MAX_USER_DEFINED_CONTROLLERS"))


def user_value_type_rule(repo: Repo, rep, P: str, rule: str):
    """A user-defined controller takes the mapped controller's per-instance value type (`instance_value_type(target module)`),
    not the class-level `value_type` — the latter is an unresolved DependentRange for unit-dependent controllers and the
    wrong type for a nested MetaModule's own user controllers.  Shared with C10."""
    mm = repo.cls("MetaModule", module=MM)
    rel = mm.file.rel
    upd = mm.nested["MappingArray"].methods.get("update_user_defined_controllers")
    con = f"{rel}:MetaModule.MappingArray.update_user_defined_controllers"
    if upd is None:
        raise AnchorMissing("MetaModule.MappingArray.update_user_defined_controllers")
    upd = sync_method(repo) or upd
    stores = [n for n in ast.walk(upd) if isinstance(n, ast.Assign) and any(isinstance(t, ast.Attribute) and t.attr == "value_type" for t in n.targets)]
    if not stores:
        rep.violation(f"{P}.{rule}", con, norm(upd)[:120], "user-defined controllers no longer receive the mapped controller's value type",
                      f"{rel}:{upd.lineno}")
        return
    for st in stores:
        v = st.value
        where = f"{rel}:{st.lineno}"
        if isinstance(v, ast.Call) and isinstance(v.func, ast.Attribute) and v.func.attr == "instance_value_type" and len(v.args) == 1:
            rep.ok(f"{P}.{rule}", con, norm(st), "target's per-instance value type")
        elif isinstance(v, ast.Attribute) and v.attr == "value_type":
            rep.violation(f"{P}.{rule}", con, norm(st),
                          "a user-defined controller must take the mapped controller's instance_value_type(mod): with the class-level value_type a "
                          "unit-dependent range or a nested MetaModule's user controller gets the wrong type and its stored value is mis-decoded",
                          where)
        else:
            rep.inconclusive(f"{P}.{rule}", con, norm(st), "origin of the value type not recognised", where)


def user_defined_fresh(repo: Repo, rep, P: str, rule: str):
    """MetaModule.__init__ builds MAX fresh UserDefined objects per instance, before the base constructor runs
    (which seeds values through the class-level proxies).  Shared with C09 and C17."""
    mm = repo.cls("MetaModule", module=MM)
    rel = mm.file.rel
    MAXN = _max(repo)
    minit = repo.own_method(mm, "__init__")
    con = f"{rel}:MetaModule.__init__"
    body = stmts_of(minit)
    i_ud = i_super = None
    val = None
    for i, st in enumerate(body):
        if isinstance(st, ast.Assign) and any(norm(t) == "self.user_defined" for t in st.targets) and i_ud is None:
            i_ud, val = i, st.value
        if i_super is None and any(isinstance(c, ast.Call) and isinstance(c.func, ast.Attribute) and c.func.attr == "__init__"
                                   and (norm(c.func.value).startswith("super(") or norm(c.func.value) in ("Module", "BaseMetaModule"))
                                   for c in ast.walk(st)):
            i_super = i
    if i_ud is None:
        rep.violation(f"{P}.{rule}", con, "; ".join(norm(x) for x in body)[:160],
                      "MetaModule.__init__ no longer builds the per-instance list of user-defined controllers", f"{rel}:{minit.lineno}")
        return
    where = f"{rel}:{body[i_ud].lineno}"
    v = val
    while isinstance(v, ast.Call) and norm(v.func) in ("list", "tuple") and len(v.args) == 1:
        v = v.args[0]
    fresh = None
    if isinstance(v, (ast.ListComp, ast.GeneratorExp)) and len(v.generators) == 1 and not v.generators[0].ifs:
        g = v.generators[0]
        elt = v.elt
        k = repo.class_of_expr(elt.func, mm, mm.file) if isinstance(elt, ast.Call) else None
        try:
            count = len(repo.fold(g.iter, ci=mm)) if isinstance(g.iter, ast.Call) and norm(g.iter.func) == "range" else None
        except (NotConst, TypeError):
            count = None
        if k is not None and k.name == "UserDefined" and isinstance(g.target, ast.Name) and len(elt.args) == 1 \
                and norm(elt.args[0]) == g.target.id:
            if count == MAXN:
                fresh = True
            else:
                rep.violation(f"{P}.{rule}", con, norm(val), f"{count} user-defined controllers are built, the format has {MAXN}", where)
                return
        elif isinstance(elt, ast.Call) and norm(elt.func) in ("deepcopy", "copy.deepcopy", "copy", "copy.copy"):
            fresh = True
    elif isinstance(v, ast.Call) and norm(v.func) in ("deepcopy", "copy.deepcopy"):
        fresh = True
    elif isinstance(v, ast.Call) and norm(v.func) == "map" and len(v.args) == 2:
        # map(UserDefined, range(MAX)): one fresh object per index
        k = repo.class_of_expr(v.args[0], mm, mm.file)
        try:
            count = len(repo.fold(v.args[1], ci=mm)) if isinstance(v.args[1], ast.Call) and norm(v.args[1].func) == "range" else None
        except (NotConst, TypeError):
            count = None
        if k is not None and k.name == "UserDefined":
            if count == MAXN:
                fresh = True
            else:
                rep.violation(f"{P}.{rule}", con, norm(val), f"{count} user-defined controllers are built, the format has {MAXN}", where)
                return
    elif isinstance(v, ast.Name) or (isinstance(v, ast.Subscript) and isinstance(v.value, ast.Name)) or isinstance(v, ast.Attribute):
        root = v
        while isinstance(root, (ast.Subscript, ast.Attribute)):
            root = root.value
        local = {n.id for n in ast.walk(minit) if isinstance(n, ast.Name) and isinstance(n.ctx, ast.Store)} | {a.arg for a in minit.args.args}
        if isinstance(root, ast.Name) and root.id not in local:
            fresh = False
    if fresh is False:
        rep.violation(f"{P}.{rule}", con, norm(body[i_ud]),
                      "the UserDefined controller objects come from module/class-level state: every MetaModule shares them, so value types, "
                      "labels and attachment set through one MetaModule (or by loading one) show up in all others", where)
        return
    if fresh is None:
        rep.inconclusive(f"{P}.{rule}", con, norm(body[i_ud]), "construction of the user-defined controller list not recognised", where)
        return
    if i_super is not None and i_ud > i_super:
        rep.violation(f"{P}.{rule}", con, f"{norm(body[i_super])[:60]} … {norm(body[i_ud])[:60]}",
                      "the per-instance UserDefined list is built after Module.__init__ runs, which already seeds values through the proxies",
                      where)
        return
    rep.ok(f"{P}.{rule}", con, norm(body[i_ud])[:120], f"{MAXN} fresh per-instance controllers, built before the base constructor")


# ------------------------------------------------------------------------------------ R1
def naming(repo: Repo, rep, P: str):
    mm = repo.cls("MetaModule", module=MM)
    rel = mm.file.rel
    MAXN = _max(repo)
    rep.count("max_user_defined_controllers", MAXN, 1)
    expected = [f"user_defined_{i + 1}" for i in range(MAXN)]
    # (a) class-level proxies
    own = own_controllers(repo, mm)
    names = [c.name for c in own]
    src_ok = True
    for c in own:
        if c.kind != "proxy" or c.ctor != "UserDefinedProxy":
            src_ok = False
    srcs = {id(mm.assigns[n].source): mm.assigns[n] for n in names if isinstance(mm.assigns.get(n), IndexedElement)}
    comp_txt = norm(next(iter(srcs.values())).source) if srcs else ""
    idx_ok = all(isinstance(mm.assigns[n], IndexedElement) and mm.assigns[n].index == i for i, n in enumerate(names))
    comp_ok = comp_txt.replace(" ", "") in ("[UserDefinedProxy(__i)for__iinrange(MAX_USER_DEFINED_CONTROLLERS)]",)
    if names == expected and src_ok and idx_ok and comp_ok:
        rep.ok(f"{P}.R1", f"{rel}:MetaModule", f"user_defined_1 … user_defined_{MAXN} = [UserDefinedProxy(i) for i in range(MAX)]",
               f"{MAXN} proxies, name k bound to proxy index k−1")
    else:
        first_bad = next((i for i, (a, b) in enumerate(zip(names, expected)) if a != b), None)
        rep.violation(f"{P}.R1", f"{rel}:MetaModule", f"{len(names)} proxy names; first mismatch at {first_bad}; source `{comp_txt[:80]}`",
                      "the class-level user-defined controller names/proxy indices are not user_defined_1…MAX in order: stored "
                      "values are assigned to the wrong user controllers", f"{rel}:{mm.node.lineno}")
    # (b) per-instance UserDefined objects
    ud = repo.cls("UserDefined", module=MM)
    init = repo.own_method(ud, "__init__")
    s = norm(init)
    gen = [c for c in all_controllers(repo, mm) if c.kind != "proxy"]
    n_gen = len(gen)
    rep.count("generated_metamodule_controllers", n_gen, 5)
    p = [a.arg for a in init.args.args if a.arg != "self"][0]
    from .. import alg as _alg

    def _leaf(e):
        if isinstance(e, ast.Name) and e.id == p:
            return _alg.Poly.sym("i")
        try:
            v_ = repo.fold(e, ci=ud, sf=ud.file)
            if isinstance(v_, int) and not isinstance(v_, bool):
                return _alg.Poly.const(v_)
        except Exception:
            pass
        return None
    name_v = num_v = "?"
    for n_ in walk_no_nested(init):
        if isinstance(n_, ast.Assign) and any(norm(t_) == "self.number" for t_ in n_.targets):
            try:
                num_v = _alg.to_poly(n_.value, _leaf) == _alg.Poly.sym("i") + (n_gen + 1)
            except _alg.NotAlgebraic:
                num_v = "?"
        if isinstance(n_, ast.Assign) and any(norm(t_) == "self.name" for t_ in n_.targets):
            v_ = n_.value
            idx_e = None
            if isinstance(v_, ast.JoinedStr) and len(v_.values) == 2 and isinstance(v_.values[0], ast.Constant) and v_.values[0].value == "user_defined_" \
                    and isinstance(v_.values[1], ast.FormattedValue) and v_.values[1].format_spec is None:
                idx_e = v_.values[1].value
            elif isinstance(v_, ast.BinOp) and isinstance(v_.op, ast.Add) and isinstance(v_.left, ast.Constant) and v_.left.value == "user_defined_" \
                    and isinstance(v_.right, ast.Call) and norm(v_.right.func) == "str" and len(v_.right.args) == 1:
                idx_e = v_.right.args[0]
            elif isinstance(v_, ast.BinOp) and isinstance(v_.op, ast.Mod) and isinstance(v_.left, ast.Constant) and v_.left.value in ("user_defined_%d", "user_defined_%s", "user_defined_%i"):
                idx_e = v_.right.elts[0] if isinstance(v_.right, ast.Tuple) and len(v_.right.elts) == 1 else v_.right
            elif isinstance(v_, ast.Call) and isinstance(v_.func, ast.Attribute) and v_.func.attr == "format" and isinstance(v_.func.value, ast.Constant) \
                    and v_.func.value.value in ("user_defined_{}", "user_defined_{0}", "user_defined_{:d}") and len(v_.args) == 1:
                idx_e = v_.args[0]
            if idx_e is not None:
                try:
                    name_v = _alg.to_poly(idx_e, _leaf) == _alg.Poly.sym("i") + 1
                except _alg.NotAlgebraic:
                    name_v = "?"
    if name_v is True and num_v is True:
        rep.ok(f"{P}.R1", f"{rel}:UserDefined.__init__", f"name = user_defined_{{{p}+1}}; number = {p} + {n_gen + 1}",
               f"numbers continue after the {n_gen} generated controllers")
    elif name_v == "?" or num_v == "?":
        rep.inconclusive(f"{P}.R1", f"{rel}:UserDefined.__init__", s[:200], "construction of the name / number not recognised", f"{rel}:{init.lineno}")
    else:
        rep.violation(f"{P}.R1", f"{rel}:UserDefined.__init__", s[:200],
                      f"user-defined controller i must be named user_defined_(i+1) and numbered i + {n_gen + 1}", f"{rel}:{init.lineno}")
    px = repo.cls("UserDefinedProxy", module=MM)
    ctl = norm(repo.own_method(px, "controller"))
    if "return instance.user_defined[self.index]" in ctl and "self.index = index" in norm(repo.own_method(px, "__init__")):
        rep.ok(f"{P}.R1", f"{rel}:UserDefinedProxy.controller", "instance.user_defined[self.index]")
    else:
        rep.violation(f"{P}.R1", f"{rel}:UserDefinedProxy.controller", ctl[:120], "proxy k must resolve to the instance's k-th UserDefined", rel)
    from ..packed import single_defs as _sd_px, resolve_names as _rn_px
    ctl_ok = "return instance.user_defined[self.index]" in ctl

    def per_instance(e: ast.expr, defs_) -> Optional[bool]:
        """True: e denotes the instance's own UserDefined (instance.user_defined[self.index], directly or through controller());
        False: it denotes something else that is recognisable (self, super(), a class-level table); None: not recognised."""
        e = _rn_px(e, defs_)
        if norm(e) == "instance.user_defined[self.index]":
            return True
        if isinstance(e, ast.Call) and norm(e.func) == "self.controller" and [norm(a) for a in e.args] == ["instance"]:
            return True if ctl_ok else None
        if norm(e) in ("self", "super()", "Controller", "type(self)") or norm(e).startswith(("super(", "instance.controllers[", "type(instance).")):
            return False
        return None
    for meth, attr, is_call in (("__get__", "__get__", True), ("__set__", "__set__", True), ("attached", "attached", True),
                                ("instance_value_type", "value_type", False)):
        mfn = repo.own_method(px, meth)
        src = norm(mfn)
        d_ = _sd_px(mfn)
        verdicts = []
        for n_ in ast.walk(mfn):
            if isinstance(n_, ast.Attribute) and n_.attr == attr and isinstance(n_.ctx, ast.Load) and norm(n_.value) not in ("self",) or \
                    (isinstance(n_, ast.Attribute) and n_.attr == attr and isinstance(n_.ctx, ast.Load) and meth != attr):
                if is_call and not any(isinstance(c_, ast.Call) and c_.func is n_ for c_ in ast.walk(mfn)):
                    continue
                verdicts.append(per_instance(n_.value, d_))
        if verdicts and all(v is True for v in verdicts):
            rep.ok(f"{P}.R1", f"{rel}:UserDefinedProxy.{meth}", f"<per-instance controller>.{attr}", nontrivial=False)
        elif any(v is False for v in verdicts):
            rep.violation(f"{P}.R1", f"{rel}:UserDefinedProxy.{meth}", src[:120], f"proxy.{meth} must delegate to the per-instance controller", rel)
        else:
            rep.inconclusive(f"{P}.R1", f"{rel}:UserDefinedProxy.{meth}", src[:120], f"what proxy.{meth} delegates to is not recognised", rel)
    # (c) reader key list
    mr = repo.cls("ModuleReader", module="rv.readers.module")
    from .. import order
    kl = order.reader_key_list(repo)
    scon = f"{mr.file.rel}:ModuleReader.process_STYP"
    if kl.extra is None or kl.attached_first is None or kl.problems:
        rep.inconclusive(f"{P}.R1", scon, kl.text[:200], f"construction of the CVAL key list not recognised: {kl.problems[:2]}", f"{mr.file.rel}:{kl.where}")
    elif kl.extra == expected and kl.attached_first and ("MetaModule" in kl.extra_cond):
        rep.ok(f"{P}.R1", scon, kl.text[:160], "same names, same order, same MAX, appended after the attached generated controllers")
    else:
        rep.violation(f"{P}.R1", scon, kl.text[:200],
                      "the reader must append user_defined_1…MAX (in order) to the controller keys of a MetaModule: stored values "
                      f"are applied by position (got {len(kl.extra)} names {kl.extra[:2]}… under `{kl.extra_cond}`)", f"{mr.file.rel}:{kl.where}")
    # generated controllers all attached (so they occupy the first n_gen positions on both sides)
    if all(c.attached for c in gen):
        rep.ok(f"{P}.R1", f"src/python/rv/modules/base/metamodule.py:BaseMetaModule", f"{n_gen} generated controllers, all attached", nontrivial=False)
    else:
        rep.violation(f"{P}.R1", f"src/python/rv/modules/base/metamodule.py:BaseMetaModule", "detached generated controller",
                      "a detached generated controller shifts the positions of the user-defined values", "src/python/rv/modules/base/metamodule.py")
    # __getattr__/__setattr__ route user_defined_N through the controllers table
    ga, sa_ = norm(repo.own_method(mm, "__getattr__")), norm(repo.own_method(mm, "__setattr__"))
    if "USER_DEFINED_RE.match(key)" in ga and "self.controllers[key]" in ga and "USER_DEFINED_RE.match(key)" in sa_ and "ctl.__set__(self, value)" in sa_:
        rep.ok(f"{P}.R1", f"{rel}:MetaModule.__getattr__/__setattr__", "user_defined_N → self.controllers[key]", nontrivial=False)
    else:
        rep.info(f"{P}.R1", f"{rel}:MetaModule.__getattr__/__setattr__", "", "attribute routing of user_defined_N changed")


# ------------------------------------------------------------------------------------ R2
def labels_and_project(repo: Repo, rep, P: str):
    mm = repo.cls("MetaModule", module=MM)
    rel = mm.file.rel
    MAXN = _max(repo)
    wf = repo.own_method(mm, "specialized_iff_chunks")
    ws = norm(wf)
    rep.func(f"{MM}.MetaModule.specialized_iff_chunks / load_chunk")
    # writer label numbering: the chunk numbers written from `label` (start … start + MAX − 1)
    from . import c02 as _c02
    from .. import codec
    nums, _problems = _c02.writer_numbers_for(repo, mm)
    lab = [x for x in nums if x.field == "label"]
    start = lab[0].lo if lab else None
    # label chunk numbers are positions in self.user_defined (label i ↔ controller i): the enumerate that numbers them must run over
    # the unfiltered list
    from ..packed import single_defs as _sd, resolve_names as _rn
    wdefs = _sd(wf)
    for lp in [n for n in ast.walk(wf) if isinstance(n, ast.For)]:
        it = _rn(lp.iter, wdefs)
        if isinstance(it, ast.Call) and norm(it.func) == "enumerate" and it.args and any(
                isinstance(y, ast.Yield) and isinstance(y.value, ast.Tuple) and norm(y.value.elts[0]) == "b'CHDT'" and "label" in norm(y.value.elts[1]) for y in ast.walk(lp)):
            seq = _rn(it.args[0], wdefs)
            while isinstance(seq, ast.Call) and norm(seq.func) in ("list", "tuple", "iter") and len(seq.args) == 1:
                seq = seq.args[0]
            filtered = (isinstance(seq, (ast.ListComp, ast.GeneratorExp)) and any(g_.ifs for g_ in seq.generators)) or \
                (isinstance(seq, ast.Call) and norm(seq.func) in ("filter", "filterfalse", "itertools.filterfalse", "compress", "itertools.compress"))
            if filtered:
                rep.violation(f"{P}.R2", f"{rel}:MetaModule.specialized_iff_chunks", norm(it)[:140],
                              "label chunks are numbered by the position in a FILTERED list of controllers: after an unlabelled or detached "
                              "controller every later label is written under an earlier chunk number and is loaded into the wrong controller",
                              f"{rel}:{lp.lineno}")
    ll = repo.own_method(mm, "load_label")
    ls = norm(ll)
    off = None
    ldefs = {x.targets[0].id: x.value for x in walk_no_nested(ll)
             if isinstance(x, ast.Assign) and len(x.targets) == 1 and isinstance(x.targets[0], ast.Name)}

    def lleaf(e):
        if norm(e) == "chunk.chnm":
            return alg.Poly.sym("n")
        if isinstance(e, ast.Name) and e.id in ldefs:
            return alg.to_poly(ldefs[e.id], lleaf)
        try:
            v = repo.fold(e, ci=mm, sf=mm.file)
            if isinstance(v, int) and not isinstance(v, bool):
                return alg.Poly.const(v)
        except NotConst:
            pass
        return None
    for n in walk_no_nested(ll):
        if isinstance(n, ast.Subscript) and norm(n.value) == "self.user_defined":
            try:
                p = alg.to_poly(n.slice, lleaf)
                if p.coeff_of("n") == alg.Poly.const(1):
                    off = -int(p.const_value())
            except alg.NotAlgebraic:
                off = None
    if start is not None and off is not None and start == off:
        rep.ok(f"{P}.R2", f"{rel}:MetaModule.load_label", f"written at {start} + i, read as user_defined[chnm − {off}]", "label of controller i returns to controller i")
    elif start is None or off is None:
        rep.inconclusive(f"{P}.R2", f"{rel}:MetaModule.load_label", f"writer enumerate(…, {start}) / reader offset {off}",
                         "label numbering not recognised on one side", f"{rel}:{ll.lineno}")
    else:
        rep.violation(f"{P}.R2", f"{rel}:MetaModule.load_label", f"writer enumerate(…, {start}) / reader chnm − {off}",
                      "user-controller labels are written at one chunk number and read back into a different controller", f"{rel}:{ll.lineno}")
    # dispatch threshold: chnm >= start goes to load_label
    tgt_lo, _ = chnm.reader_target(repo, mm, start if start is not None else 8)
    tgt_hi, _ = chnm.reader_target(repo, mm, (start or 8) + MAXN - 1)
    tgt_below, _ = chnm.reader_target(repo, mm, (start or 8) - 1)
    if tgt_lo == "label" and tgt_hi == "label" and tgt_below != "label":
        rep.ok(f"{P}.R2", f"{rel}:MetaModule.load_chunk", f"chunks {start}…{(start or 8) + MAXN - 1} → load_label", "whole label range dispatched, nothing below it")
    else:
        rep.violation(f"{P}.R2", f"{rel}:MetaModule.load_chunk", f"{start}→{tgt_lo}, {(start or 8) + MAXN - 1}→{tgt_hi}, {(start or 8) - 1}→{tgt_below}",
                      "label chunk numbers are not dispatched to load_label exactly", rel)
    # label text cstring on both sides
    wrows = [r for r in codec.writer_rows(repo, mm, wf) if r.kind == "chunk" and r.cid == "CHDT" and r.payload and "label" in r.payload.text]
    cd = codec.cstring_decode(ll, "chunk.chdt")
    if wrows and wrows[0].payload.shape == "cstring" and cd is not None and "label" in norm(cd[0].targets[0]):
        rep.ok(f"{P}.R2", f"{rel}:MetaModule.load_label", "label: encode + NUL ↔ cut at NUL, decode")
    elif not wrows or cd is None:
        rep.inconclusive(f"{P}.R2", f"{rel}:MetaModule.load_label", ls[:160], "label text codec not recognised on one side", f"{rel}:{ll.lineno}")
    else:
        rep.violation(f"{P}.R2", f"{rel}:MetaModule.load_label", ls[:160], "labels must be stored as NUL-terminated text and decoded the same way", rel)
    if "if controller.attached(self) and controller.label is not None:" in ws:
        rep.ok(f"{P}.R2", f"{rel}:MetaModule.specialized_iff_chunks", "labels of attached controllers only", nontrivial=False)
    # chnk = start + MAX
    cg = mm.getters.get("chnk")
    try:
        v = repo.fold(cg.body[-1].value, ci=mm, sf=mm.file) if cg is not None else None
    except NotConst:
        v = None
    if start is not None and v == start + MAXN:
        rep.ok(f"{P}.R2", f"{rel}:MetaModule.chnk", f"{v} = {start} + {MAXN}", "one more than the highest label chunk")
    elif start is None or v is None:
        rep.inconclusive(f"{P}.R2", f"{rel}:MetaModule.chnk", f"chnk = {v}, first label chunk {start}", "label chunk numbering not derived", rel)
    else:
        rep.violation(f"{P}.R2", f"{rel}:MetaModule.chnk", f"chnk = {v}", f"CHNK must be {start} + {MAXN} (labels go up to {start} + {MAXN - 1})", rel)
    # embedded project
    if any(x.field == "project" and x.lo == x.hi == 0 for x in nums):
        rep.ok(f"{P}.R2", f"{rel}:MetaModule.specialized_iff_chunks", "CHNM 0: self.project.read()", "embedded project written with the project writer (C01 applies recursively)")
    else:
        rep.violation(f"{P}.R2", f"{rel}:MetaModule.specialized_iff_chunks", ws[:200], "the embedded project must be written as chunk 0 via Project.read()", rel)
    from ..packed import subst_locals
    proj_loads = []
    other_project_stores: List[Tuple[str, str]] = []
    map_loads = []
    from .. import inline as _inl
    for mname, mfn0 in mm.methods.items():
        try:
            mfn = _inl.normalize(repo, mm, getattr(mm.methods, "raw", mm.methods)[mname] if hasattr(mm.methods, "raw") else mfn0, aliases=True)
        except Exception:
            mfn = mfn0
        from ..packed import single_defs as _sd_p, resolve_names as _rn_p
        _mdefs = _sd_p(mfn)
        for n in walk_no_nested(mfn):
            if isinstance(n, ast.Assign) and any(norm(t) == "self.project" for t in n.targets) and mname != "__init__":
                if isinstance(n.value, ast.Name) and isinstance(_mdefs.get(n.value.id), ast.Call):
                    # `loaded = read_sunvox_file(stream); self.project = loaded` (a helper that was read through)
                    n = ast.copy_location(ast.Assign(targets=n.targets, value=_mdefs[n.value.id]), n)
                if isinstance(n.value, ast.Call) and norm(n.value.func) == "read_sunvox_file":
                    proj_loads.append((mname, mfn, n))
                elif isinstance(n.value, ast.Call):
                    other_project_stores.append((mname, norm(n.value)))
            if isinstance(n, ast.Assign) and any(norm(t) == "self.mappings.bytes" for t in n.targets) and mname != "__init__":
                map_loads.append((mname, mfn, n))
    tgt0, _ = chnm.reader_target(repo, mm, 0)
    if proj_loads and tgt0 == "project":
        mname, mfn, n = proj_loads[0]
        arg = norm(subst_locals(mfn, n.value.args[0])) if n.value.args else ""
        cpar = next((a.arg for a in mfn.args.args if a.arg != "self"), "chunk")
        # with BytesIO(chunk.chdt) as stream: … read_sunvox_file(stream)
        for w_ in ast.walk(mfn):
            if isinstance(w_, ast.With):
                for it_ in w_.items:
                    if isinstance(it_.optional_vars, ast.Name) and it_.optional_vars.id == arg and any(n is x for x in ast.walk(w_)):
                        arg = norm(subst_locals(mfn, it_.context_expr))
        if arg.replace("io.", "") == f"BytesIO({cpar}.chdt)":
            rep.ok(f"{P}.R2", f"{rel}:MetaModule.{mname}", "self.project = read_sunvox_file(BytesIO(chunk.chdt))", "nested load through the guarded entry (any depth)")
        else:
            rep.inconclusive(f"{P}.R2", f"{rel}:MetaModule.{mname}", norm(n), "the source of the nested load is not BytesIO(chunk.chdt)", f"{rel}:{n.lineno}")
    elif tgt0 == "project" and other_project_stores and not any(f.startswith(("Project(", "rv.Project(", "self.")) for _, f in other_project_stores):
        rep.inconclusive(f"{P}.R2", f"{rel}:MetaModule.load_project", "; ".join(f for _, f in other_project_stores)[:160],
                         "the embedded project is produced by a call that is not read through to read_sunvox_file", rel)
    elif (tgt0 or "").startswith("?"):
        rep.inconclusive(f"{P}.R2", f"{rel}:MetaModule.load_chunk", f"chunk 0 → {tgt0}", "dispatch of chunk 0 not followed", rel)
    else:
        rep.violation(f"{P}.R2", f"{rel}:MetaModule.load_project", f"chunk 0 → `{tgt0 or 'nothing'}`; loads: {[m for m, _, _ in proj_loads]}",
                      "the embedded project must be loaded through read_sunvox_file", rel)
    tgt1, _ = chnm.reader_target(repo, mm, 1)
    if map_loads and tgt1 == "mappings":
        mname, mfn, n = map_loads[0]
        resets = [c for c in walk_no_nested(mfn) if isinstance(c, ast.Call) and norm(c.func) == "self.mappings.reset" and _inl.pos(c) <= _inl.pos(n)]
        cpar = next((a.arg for a in mfn.args.args if a.arg != "self"), "chunk")
        if norm(n.value) == f"{cpar}.chdt" and resets:
            rep.ok(f"{P}.R2", f"{rel}:MetaModule.{mname}", "mappings.reset(); mappings.bytes = chdt")
        else:
            rep.violation(f"{P}.R2", f"{rel}:MetaModule.{mname}", norm(mfn)[:200], "mappings must be reset and loaded from chunk 1", rel)
    else:
        rep.violation(f"{P}.R2", f"{rel}:MetaModule.load_chunk", f"chunk 1 → `{tgt1 or 'nothing'}`", "mappings must be reset and loaded from chunk 1", rel)
    ma = mm.nested.get("MappingArray")
    if ma is not None:
        try:
            t, es, ln = repo.fold(ma.assigns["type"], ci=ma), repo.fold(ma.assigns["element_size"], ci=ma), repo.fold(ma.assigns["length"], ci=ma, sf=mm.file)
            if (t, es, ln) == ("HH", 4, MAXN):
                rep.ok(f"{P}.R2", f"{rel}:MetaModule.MappingArray", "type 'HH', element_size 4, length MAX")
            else:
                rep.violation(f"{P}.R2", f"{rel}:MetaModule.MappingArray", f"type={t!r} element_size={es} length={ln}",
                              "mappings are MAX records of two little-endian uint16 (module, controller)", rel)
        except (KeyError, NotConst):
            rep.inconclusive(f"{P}.R2", f"{rel}:MetaModule.MappingArray", "", "constants not folded", rel)
        from . import c02 as _c02
        order_w, order_r = _c02.struct_field_orders(repo, ma)
        if order_w is None or order_r is None:
            rep.inconclusive(f"{P}.R2", f"{rel}:MetaModule.MappingArray.encoded_values", f"writer {order_w} / reader {order_r}",
                             "mapping record field order not recognised on one side", rel)
        elif order_r != ["module", "controller"]:
            rep.violation(f"{P}.R2", f"{rel}:MetaModule.Mapping", f"constructor takes {order_r}", "a mapping record is (module, controller)", rel)
        elif order_w == order_r:
            rep.ok(f"{P}.R2", f"{rel}:MetaModule.Mapping", "(module, controller) in the same order on both sides")
        else:
            rep.violation(f"{P}.R2", f"{rel}:MetaModule.MappingArray.encoded_values", f"written {order_w}, read {order_r}",
                          "mapping fields are written in a different order than they are read", rel)
    # user-controller value type is the target's per-instance type (unit-dependent ranges, nested user controllers)
    user_value_type_rule(repo, rep, P, "R2")
    mapping_alignment_rule(repo, rep, P, "R2")
    upd = sync_method(repo)
    us = norm(upd) if upd else ""
    if "user_defined_controller.default = controller.default" in us and "mod.controller_values[controller.name]" in us:
        rep.ok(f"{P}.R2", f"{rel}:MetaModule.MappingArray.update_user_defined_controllers", "default and current value copied from the target", nontrivial=False)
    # project back-reference
    mi = norm(repo.own_method(mm, "__init__"))
    if "self.project = project or Project()" in mi and "self.project.metamodule = self" in mi:
        rep.ok(f"{P}.R2", f"{rel}:MetaModule.__init__", "self.project = project or Project(); project.metamodule = self", nontrivial=False)


# ------------------------------------------------------------------------------------ R3
class _WrongRuns(Exception):
    pass


def _attach_predicate(repo: Repo, mm, rc: ast.FunctionDef):
    """('ok' | '?' | 'bad', detail): the controller at position k of self.user_defined is attached iff k < user_defined_controllers,
    and every position is decided.  Positions come from enumerate / a zipped range, or from a zipped sequence of booleans
    ([True]*a + [False]*b, chain(repeat(True, a), repeat(False)))."""
    from .. import alg, inline
    from ..packed import single_defs, resolve_names
    fn = inline.normalize(repo, mm, rc)
    defs = single_defs(fn)
    loops = [n for n in walk_no_nested(fn) if isinstance(n, ast.For)]
    if len(loops) == 2:
        # for c in L[:k]: c.attach(self)      for c in L[k:]: c.detach(self)      with k = max(0, n): the two complementary runs
        def run(lp_):
            it_ = resolve_names(lp_.iter, {k_: v_ for k_, v_ in defs.items() if not isinstance(v_, ast.Call) or norm(v_.func) != "max"})
            if not (isinstance(it_, ast.Subscript) and isinstance(it_.slice, ast.Slice) and it_.slice.step is None and norm(it_.value) == "self.user_defined"
                    and isinstance(lp_.target, ast.Name)):
                return None
            body_ = [st for st in lp_.body if not isinstance(st, ast.Pass)]
            if len(body_) != 1:
                return None
            what = {f"{lp_.target.id}.attach(self)": "attach", f"{lp_.target.id}.detach(self)": "detach"}.get(norm(body_[0]))
            return (what, it_.slice.lower, it_.slice.upper) if what else None
        r1, r2 = run(loops[0]), run(loops[1])
        if r1 and r2 and {r1[0], r2[0]} == {"attach", "detach"}:
            att, det = (r1, r2) if r1[0] == "attach" else (r2, r1)
            if att[1] is None and att[2] is not None and det[2] is None and det[1] is not None and norm(att[2]) == norm(det[1]):
                bound = resolve_names(att[2], defs)
                if isinstance(bound, ast.Call) and norm(bound.func) == "max" and len(bound.args) == 2 and not bound.keywords \
                        and sorted(norm(a) for a in bound.args) == sorted(["0", "self.user_defined_controllers"]):
                    return "ok", ""
                if norm(bound) == "self.user_defined_controllers":
                    return "?", "self.user_defined[:n] with an n that is not known to be non-negative (a negative n counts from the end)"
                return "?", f"run boundary {norm(bound)}"
            if att[2] is None and det[1] is None:
                return "bad", "the leading controllers are detached and the trailing ones attached"
            if att[1] is None and att[2] is not None and det[1] is not None and det[2] is not None and norm(att[2]) == norm(det[1]):
                # L[:a] attached, L[a:u] detached, a and u piecewise-affine in the count n (max / min / + / −): every position is decided
                # when a ≥ 0, a = n on 0..MAX, and u ≥ len(L) for every n.  The breakpoints lie at 0 and MAX (arguments of max/min are
                # n + c or c − n with |c| ≤ MAX), so integers −4·MAX … 5·MAX and the end slopes cover all n.
                try:
                    MAXI = int(repo.fold(ast.Name(id="MAX_USER_DEFINED_CONTROLLERS", ctx=ast.Load()), ci=mm))
                except Exception:
                    return "?", "MAX_USER_DEFINED_CONTROLLERS not constant"

                class _NE(Exception):
                    pass

                def evi(e, n, depth=0):
                    if depth > 8:
                        raise _NE()
                    if isinstance(e, ast.Constant) and isinstance(e.value, int) and not isinstance(e.value, bool):
                        return e.value
                    if norm(e) == "self.user_defined_controllers":
                        return n
                    if isinstance(e, ast.Call) and norm(e.func) == "len" and len(e.args) == 1 and norm(resolve_names(e.args[0], defs)) == "self.user_defined":
                        return MAXI
                    if isinstance(e, ast.Name) and e.id in defs:
                        return evi(defs[e.id], n, depth + 1)
                    if isinstance(e, (ast.Name, ast.Attribute)):
                        try:
                            c = repo.fold(e, ci=mm)
                        except Exception:
                            raise _NE()
                        if isinstance(c, int) and not isinstance(c, bool):
                            return c
                        raise _NE()
                    if isinstance(e, ast.BinOp) and isinstance(e.op, (ast.Add, ast.Sub)):
                        a_, b_ = evi(e.left, n, depth + 1), evi(e.right, n, depth + 1)
                        return a_ + b_ if isinstance(e.op, ast.Add) else a_ - b_
                    if isinstance(e, ast.Call) and norm(e.func) in ("max", "min") and len(e.args) == 2 and not e.keywords:
                        a_, b_ = evi(e.args[0], n, depth + 1), evi(e.args[1], n, depth + 1)
                        return max(a_, b_) if norm(e.func) == "max" else min(a_, b_)
                    raise _NE()
                try:
                    lo_n, hi_n = -4 * MAXI, 5 * MAXI
                    for n_ in range(lo_n, hi_n + 1):
                        a_ = evi(att[2], n_)
                        u_ = evi(det[2], n_)
                        if a_ < 0:
                            return "?", f"run boundary {norm(att[2])} is negative for count {n_} (counts from the end)"
                        if 0 <= n_ <= MAXI and a_ != n_:
                            return "bad", f"with count {n_} the first {a_} controllers are attached"
                        if n_ < 0 and a_ != 0 or n_ > MAXI and a_ < MAXI:
                            return "bad", f"with count {n_} the first {a_} controllers are attached"
                        if u_ < MAXI:
                            return "bad", f"with count {n_} only the first {u_} positions are decided: controllers beyond them keep a stale attachment"
                    # slopes beyond the sampled range keep the inequalities
                    if evi(att[2], hi_n) - evi(att[2], hi_n - 1) < 0 or evi(det[2], hi_n) - evi(det[2], hi_n - 1) < 0 \
                            or evi(att[2], lo_n) - evi(att[2], lo_n + 1) != 0 or evi(det[2], lo_n) - evi(det[2], lo_n + 1) < 0:
                        return "?", "run boundaries not monotone outside the sampled counts"
                    return "ok", ""
                except _NE:
                    return "?", f"run boundaries {norm(att[2])} / {norm(det[2])}"
        return "?", "2 loops"
    if len(loops) != 1:
        return "?", f"{len(loops)} loops"
    lp = loops[0]
    it = resolve_names(lp.iter, defs)
    Nn = alg.Poly.sym("n")
    try:
        MAXV = alg.Poly.const(int(repo.fold(ast.Name(id="MAX_USER_DEFINED_CONTROLLERS", ctx=ast.Load()), ci=mm)))
    except Exception:
        return "?", "MAX_USER_DEFINED_CONTROLLERS not constant"

    def leaf(e):
        if norm(e) == "self.user_defined_controllers":
            return Nn
        if isinstance(e, ast.Call) and norm(e.func) == "len" and len(e.args) == 1 and norm(e.args[0]) == "self.user_defined":
            return MAXV
        if isinstance(e, (ast.Name, ast.Attribute)):
            try:
                c = repo.fold(e, ci=mm)
                if isinstance(c, int) and not isinstance(c, bool):
                    return alg.Poly.const(c)
            except Exception:
                pass
        return None

    def poly(e):
        return alg.to_poly(resolve_names(e, defs), leaf)

    def const_bool(e):
        return e.value if isinstance(e, ast.Constant) and isinstance(e.value, bool) else None

    def bools(e):
        """(a, total or None) for a sequence that is True for the first a positions and False afterwards."""
        e = resolve_names(e, defs)
        if isinstance(e, ast.BinOp) and isinstance(e.op, ast.Add):
            terms = []

            def flat(x):
                if isinstance(x, ast.BinOp) and isinstance(x.op, ast.Add):
                    flat(x.left)
                    flat(x.right)
                else:
                    terms.append(x)
            flat(e)
            runs = []
            for x in terms:
                if isinstance(x, ast.List) and x.elts and all(const_bool(y) is not None for y in x.elts):
                    runs.extend((const_bool(y), alg.Poly.const(1)) for y in x.elts)
                elif isinstance(x, ast.BinOp) and isinstance(x.op, ast.Mult) and isinstance(x.left, ast.List) and len(x.left.elts) == 1 \
                        and const_bool(x.left.elts[0]) is not None:
                    runs.append((const_bool(x.left.elts[0]), poly(x.right)))
                elif isinstance(x, ast.BinOp) and isinstance(x.op, ast.Mult) and isinstance(x.right, ast.List) and len(x.right.elts) == 1 \
                        and const_bool(x.right.elts[0]) is not None:
                    runs.append((const_bool(x.right.elts[0]), poly(x.left)))
                else:
                    return None
            merged = []
            for v, c in runs:
                if merged and merged[-1][0] == v:
                    merged[-1] = (v, merged[-1][1] + c)
                else:
                    merged.append((v, c))
            if len(merged) == 2 and merged[0][0] is True and merged[1][0] is False:
                return merged[0][1], merged[0][1] + merged[1][1]
            raise _WrongRuns("; ".join(f"{'attached' if v else 'detached'} × {c}" for v, c in merged))
        if isinstance(e, ast.Call) and norm(e.func).split(".")[-1] == "chain" and len(e.args) == 2 \
                and all(isinstance(x, ast.Call) and norm(x.func).split(".")[-1] == "repeat" and x.args for x in e.args) \
                and const_bool(e.args[0].args[0]) is True and const_bool(e.args[1].args[0]) is False and len(e.args[0].args) == 2:
            a = poly(e.args[0].args[1])
            return a, (a + poly(e.args[1].args[1]) if len(e.args[1].args) == 2 else None)
        return None

    def index_len(e):
        """length (Poly or None = unbounded) of a sequence whose element at position k is k; 'no' otherwise."""
        e = resolve_names(e, defs)
        if isinstance(e, ast.Call) and norm(e.func) == "range" and len(e.args) == 1:
            return poly(e.args[0])
        if isinstance(e, ast.Call) and norm(e.func).split(".")[-1] == "count" and not e.args:
            return None
        return "no"
    cvar = kvar = bvar = None
    total = None
    first_true = None
    try:
        if isinstance(it, ast.Call) and norm(it.func) == "enumerate" and len(it.args) == 1 and norm(it.args[0]) == "self.user_defined" \
                and isinstance(lp.target, ast.Tuple) and len(lp.target.elts) == 2:
            kvar, cvar = norm(lp.target.elts[0]), norm(lp.target.elts[1])
        elif isinstance(it, ast.Call) and norm(it.func) == "zip" and len(it.args) == 2 and isinstance(lp.target, ast.Tuple) and len(lp.target.elts) == 2:
            pairs = list(zip(it.args, lp.target.elts))
            ud = [(a, t) for a, t in pairs if norm(a) == "self.user_defined"]
            other = [(a, t) for a, t in pairs if norm(a) != "self.user_defined"]
            if len(ud) != 1 or len(other) != 1:
                return "?", norm(it)
            cvar = norm(ud[0][1])
            bl = bools(other[0][0])
            if bl is not None:
                bvar = norm(other[0][1])
                first_true, total = bl
            else:
                il = index_len(other[0][0])
                if il == "no":
                    return "?", norm(other[0][0])
                kvar, total = norm(other[0][1]), il
        else:
            return "?", norm(it)
        # body: if T: c.attach(self) else: c.detach(self)
        body = [st for st in lp.body if not isinstance(st, ast.Pass)]
        if len(body) != 1 or not isinstance(body[0], ast.If) or len(body[0].body) != 1 or len(body[0].orelse) != 1:
            return "?", norm(lp)[:160]
        iff = body[0]
        t_call, f_call = norm(iff.body[0]), norm(iff.orelse[0])
        att, det = f"{cvar}.attach(self)", f"{cvar}.detach(self)"
        if (t_call, f_call) == (att, det):
            neg = False
        elif (t_call, f_call) == (det, att):
            neg = True
        else:
            return "?", f"{t_call} / {f_call}"
        test = iff.test
        while isinstance(test, ast.UnaryOp) and isinstance(test.op, ast.Not):
            test, neg = test.operand, not neg
        test = resolve_names(test, {k: v for k, v in defs.items() if k not in (kvar, bvar, cvar)})
        if bvar is not None and norm(test) == bvar:
            A = first_true
        elif kvar is not None and isinstance(test, ast.Compare) and len(test.ops) == 1:
            l, op, r = test.left, test.ops[0], test.comparators[0]
            if isinstance(op, ast.In) and norm(l) == kvar and isinstance(r, ast.Call) and norm(r.func) == "range" and len(r.args) == 1:
                A = poly(r.args[0])
            elif norm(l) == kvar and isinstance(op, (ast.Lt, ast.LtE, ast.GtE, ast.Gt)):
                E = poly(r)
                A, flip = {ast.Lt: (E, False), ast.LtE: (E + 1, False), ast.GtE: (E, True), ast.Gt: (E + 1, True)}[type(op)]
                neg = neg != flip
            elif norm(r) == kvar and isinstance(op, (ast.Lt, ast.LtE, ast.GtE, ast.Gt)):
                E = poly(l)
                A, flip = {ast.Gt: (E, False), ast.GtE: (E + 1, False), ast.LtE: (E, True), ast.Lt: (E + 1, True)}[type(op)]
                neg = neg != flip
            else:
                return "?", norm(test)
        else:
            return "?", norm(test)
    except alg.NotAlgebraic as e:
        return "?", str(e)
    except _WrongRuns as e:
        return "bad", f"positions are decided in the runs [{e}] instead of attached × n, detached × (MAX − n)"
    if neg:
        return "bad", f"controllers at positions k < {A} are detached and the others attached"
    if A != Nn:
        return "bad", f"controllers at positions k < {A} are attached (n = user_defined_controllers): not exactly the first n"
    if total is not None and total != MAXV:
        if (total - MAXV).is_const() and (total - MAXV).const_value() > 0:
            return "ok", ""
        return "bad", f"only the first {total} positions are decided: controllers beyond them keep a stale attachment"
    return "ok", ""


def attachment(repo: Repo, rep, P: str):
    mm = repo.cls("MetaModule", module=MM)
    rel = mm.file.rel
    rc = repo.own_method(mm, "recompute_controller_attachment")
    s = norm(rc)
    rep.func(f"{MM}.MetaModule.recompute_controller_attachment")
    verdict, detail = _attach_predicate(repo, mm, rc)
    if verdict == "ok":
        rep.ok(f"{P}.R3", f"{rel}:MetaModule.recompute_controller_attachment", "first n attached, the remaining MAX − n detached",
               "exactly the first n user controllers are exposed when the count is n")
    elif verdict == "?":
        rep.inconclusive(f"{P}.R3", f"{rel}:MetaModule.recompute_controller_attachment", detail, "attachment computation not recognised",
                         f"{rel}:{rc.lineno}")
    else:
        rep.violation(f"{P}.R3", f"{rel}:MetaModule.recompute_controller_attachment", detail,
                      "attachment must be: first `user_defined_controllers` controllers attached, all others detached", f"{rel}:{rc.lineno}")
    cb = norm(repo.own_method(mm, "on_user_defined_controllers_changed"))
    if "self.recompute_controller_attachment()" in cb:
        rep.ok(f"{P}.R3", f"{rel}:MetaModule.on_user_defined_controllers_changed", "recompute_controller_attachment()", "count changes re-derive attachment")
    else:
        rep.violation(f"{P}.R3", f"{rel}:MetaModule.on_user_defined_controllers_changed", cb[:120], "changing the count must re-derive attachment", rel)
    # writers of the attach flag
    n = 0
    for relf, sf in sorted(repo.files.items()):
        if not sf.modname.startswith("rv") or sf.modname.startswith("rv.tools"):
            continue
        for node in ast.walk(sf.tree):
            if isinstance(node, (ast.FunctionDef,)):
                for x in walk_no_nested(node):
                    if isinstance(x, ast.Assign) and any(isinstance(t, ast.Attribute) and t.attr == "_attached" for t in x.targets):
                        n += 1
                        via_helper = False
                        if relf.endswith("metamodule.py") and node.name.startswith("_") and not node.name.startswith("__"):
                            # a private helper whose every mention is inside attach / detach of the same file: their shared body
                            from .. import inline as _inl
                            users = {(r_, q_) for r_, q_ in _inl.mentions(repo).get(node.name, set()) if q_.rsplit(".", 1)[-1] != node.name}
                            via_helper = bool(users) and all(r_ == relf and q_.rsplit(".", 1)[-1] in ("attach", "detach") for r_, q_ in users)
                        if via_helper or (relf.endswith("metamodule.py") and node.name in ("attach", "detach")) or (relf.endswith("controller.py") and node.name == "__init__"):
                            rep.ok(f"{P}.R3", f"{relf}:{node.name}", norm(x), "attach flag written by attach/detach/constructor only", nontrivial=False)
                        else:
                            rep.violation(f"{P}.R3", f"{relf}:{node.name}", norm(x), "the attach flag of a controller is written outside attach/detach",
                                          f"{relf}:{x.lineno}")
    rep.count("attach_flag_store_sites", n, 2)
    # reader: recompute before applying stored values
    mr = repo.cls("ModuleReader", module="rv.readers.module")
    from .. import inline
    send = repo.own_method(mr, "process_SEND")
    flat = inline.flatten(repo, mr, send, exclude=("_load_last_chunk",))

    def first_call(attr: str):
        c = [n for n in ast.walk(flat) if isinstance(n, ast.Call) and isinstance(n.func, ast.Attribute) and n.func.attr == attr]
        return min((inline.pos(x) for x in c), default=None)
    p_ld, p_up, p_rc, p_set = first_call("_load_last_chunk"), first_call("update_user_defined_controllers"), \
        first_call("recompute_controller_attachment"), first_call("set_raw")
    body = [norm(x) for x in stmts_of(flat)]
    if None in (p_up, p_rc, p_set):
        ok = False
    else:
        ok = p_up < p_set and p_rc < p_set and (p_ld is None or p_ld < p_up)
    if ok:
        rep.ok(f"{P}.R3", f"{mr.file.rel}:ModuleReader.process_SEND", "load last chunk → update_user_defined_controllers → recompute attachment → apply CVALs",
               "user controllers are typed and attached before their stored values are applied")
    else:
        rep.violation(f"{P}.R3", f"{mr.file.rel}:ModuleReader.process_SEND", "; ".join(body)[:240],
                      "for a MetaModule the reader must finish the chunks, update user-controller types and recompute attachment "
                      "before applying stored values", f"{mr.file.rel}:{send.lineno}")
    # synth writer recomputes, project writer relies on the option callback (both filter by attached)
    synth = repo.cls("Synth", module="rv.synth")
    from . import c02 as _c02
    if "recompute_controller_attachment" in norm(_c02._writer_nf(repo, synth, "chunks")):
        rep.ok(f"{P}.R3", f"{synth.file.rel}:Synth.chunks", "recompute_controller_attachment before filtering", nontrivial=False)


# ------------------------------------------------------------------------------------ shared rules
def shared(repo: Repo, rep, P: str):
    from . import c02, c05, c10, c11
    spec = docs.load_spec(repo)
    sc = docs.spec_chunks(spec)
    secs = parity.sections(repo)
    only = {w.cid for w in secs["module"].writer if w.kind == "chunk"} - {"SLNK", "SLnK"}
    parity.check_section(repo, rep, P, secs["module"], sc, only=only, reverse=False)
    c05.raw_inverse_paths(repo, rep, P, "R4")
    c10.inverse_pairs(repo, rep, P, "R4")
    c11.pack_unpack(repo, rep, P, "R5")
    c02.sibling_writers(repo, rep, P)
    from . import c12
    c12.pack_pairs(repo, rep, P, "R6", which=("SMII",))
    # a nested load (embedded project) must hand the strictness flag back to the enclosing load as it found it:
    # otherwise the rest of the outer MetaModule (stored user-controller values beyond the known range) raises
    from . import c18
    c18.restore_rule(repo, rep, P)
