"""C03 — written files conform to the documented SunVox chunk format (writer ↔ documentation)."""

from __future__ import annotations

import ast
import copy
import re
import struct
from typing import Any, Dict, List, Optional, Tuple

from .. import codec, docs, lenint, parity
from ..model import AnchorMissing, NotConst, Repo, attr_chain, norm, stmts_of, walk_no_nested

LEVEL = "other"
EXPLANATION = (
    "the writer's chunk table is compared with two independent descriptions of the format that live in the "
    "repository — the RST format document (chunk tables, offset tables) and the YAML specification (chunk ids, "
    "types with bounds, section order): id, width, element count, representability of the documented domain, "
    "emission order, documented chunks all written; container framing of write_chunk; fixed sizes by byte-length "
    "interval analysis (SNAM = 32, note cell = 8, CMID entry = 8, PICO = 32); every module-specific chunk "
    "number below the declared CHNK count; sampler record sizes against the documented layout. An error made "
    "symmetrically in writer and reader is visible here because the oracle is the documentation, not the reader. "
    "Does not decide that decoded content equals object state for all values."
)
DECLINED = ["'decoded content equals the object's public state' for arbitrary values (needs an executing decoder)"]
ASSUMPTIONS = ["the RST tables and the YAML spec describe the intended format; where the two disagree the "
               "disagreement is listed and the writer must match at least one of them"]

RST_SECTION = {"project": "Project chunks", "pattern": "Patterns", "clone": "Pattern clones", "module": "Module chunks"}
YAML_SECTION = {"project": "project", "pattern": "pattern", "clone": "pattern_clone", "module": "module"}
CODE_RANGE = {"B": (0, 255), "b": (-128, 127), "H": (0, 65535), "h": (-32768, 32767), "I": (0, 2**32 - 1),
              "i": (-2**31, 2**31 - 1), "Q": (0, 2**64 - 1), "q": (-2**63, 2**63 - 1)}


def run(repo: Repo, rep, tier: str):
    tables = docs.load_tables(repo)
    spec = docs.load_spec(repo)
    sc = docs.spec_chunks(spec)
    secs = parity.sections(repo)
    container_rule(repo, rep, "C03")
    n = 0
    for name in ("project", "pattern", "clone", "module"):
        n += doc_parity(repo, rep, "C03", name, secs[name], tables, spec, sc)
        order_rule(repo, rep, "C03", name, secs[name], tables, spec, sc)
    rep.count("documented_rows_compared", n, 55)
    generic_chunk_rows(repo, rep, "C03", secs, tables)
    fixed_sizes(repo, rep, "C03", secs)
    from . import c01, c02
    c01.slot_terminators(repo, rep, "C03")
    c02.chnm_below_chnk(repo, rep, "C03", "R5")
    from . import c16
    c16.record_sizes(repo, rep, "C03", "R6", tables)
    c02.synth_header_context(repo, rep, "C03", "R7")     # .sunsynth files carry no in-project-only chunks
    from . import c11
    c11.pack_unpack(repo, rep, "C03", "R8")               # options record holds exactly the current option values


# ------------------------------------------------------------------------------- R1
def container_rule(repo: Repo, rep, P: str):
    from .. import inline, guards
    sf = repo.module("rv.lib.iff")
    fn = inline.fold_module_names(repo, sf, inline.nest_guard_clauses(inline.normalize(repo, None, repo.func("rv.lib.iff", "write_chunk"), sf=sf)))
    construct = f"{sf.rel}:write_chunk"
    rep.func("rv.lib.iff.write_chunk")
    params = [a.arg for a in fn.args.args]
    if len(params) != 3:
        rep.inconclusive(f"{P}.R1", construct, "", "unexpected signature", f"{sf.rel}:{fn.lineno}")
        return
    f, name, data = params
    env: Dict[str, ast.expr] = {}
    writes: List[ast.expr] = []
    todo = list(stmts_of(fn))
    unmodelled = False

    def _pad_tables(e: ast.expr) -> ast.expr:
        """`_PADDING[k]` with `_PADDING` a module-level table whose k-th entry is k spaces reads as `b" " * k`."""
        class PT(ast.NodeTransformer):
            def visit_Subscript(self, node):
                node = self.generic_visit(node)
                if isinstance(node.value, ast.Name) and not isinstance(node.slice, ast.Slice):
                    try:
                        d = inline.definition_of(repo, None, sf, node.value)
                    except Exception:
                        d = None
                    fill = None
                    if isinstance(d, (ast.Tuple, ast.List)) and d.elts and all(isinstance(x, ast.Constant) and isinstance(x.value, bytes) for x in d.elts):
                        fills = {x.value[:1] for x in d.elts if x.value}
                        if len(fills) == 1 and all(x.value == next(iter(fills)) * i for i, x in enumerate(d.elts)):
                            fill = next(iter(fills))
                    elif isinstance(d, ast.Call) and norm(d.func) in ("tuple", "list") and len(d.args) == 1 and isinstance(d.args[0], (ast.GeneratorExp, ast.ListComp)) \
                            and len(d.args[0].generators) == 1 and not d.args[0].generators[0].ifs:
                        g = d.args[0].generators[0]
                        el = d.args[0].elt
                        if isinstance(g.target, ast.Name) and isinstance(g.iter, ast.Call) and norm(g.iter.func) == "range" and len(g.iter.args) == 1 \
                                and isinstance(el, ast.BinOp) and isinstance(el.op, ast.Mult):
                            for c_, v_ in ((el.left, el.right), (el.right, el.left)):
                                if isinstance(c_, ast.Constant) and isinstance(c_.value, bytes) and len(c_.value) == 1 and isinstance(v_, ast.Name) and v_.id == g.target.id:
                                    fill = c_.value
                    if fill is not None:
                        return ast.copy_location(ast.BinOp(left=ast.Constant(value=fill), op=ast.Mult(), right=node.slice), node)
                return node
        out_ = PT().visit(copy.deepcopy(e))
        ast.fix_missing_locations(out_)
        return out_
    while todo:
        st = todo.pop(0)
        if isinstance(st, ast.Assign) and len(st.targets) == 1 and isinstance(st.targets[0], ast.Name):
            env[st.targets[0].id] = codec.subst(_pad_tables(st.value), env)
        elif isinstance(st, ast.AugAssign) and isinstance(st.target, ast.Name) and isinstance(st.op, ast.Add):
            cur_ = env.get(st.target.id, ast.Name(id=st.target.id, ctx=ast.Load()))
            env[st.target.id] = ast.BinOp(left=copy.deepcopy(cur_), op=ast.Add(), right=codec.subst(_pad_tables(st.value), env))
            ast.fix_missing_locations(env[st.target.id])
        elif isinstance(st, ast.Expr) and isinstance(st.value, ast.Call) and norm(st.value.func) == f"{f}.write":
            writes.append(codec.subst(_pad_tables(st.value.args[0]), env))
        elif isinstance(st, ast.If) and norm(st.test) == f"{name} is None" and all(isinstance(s, ast.Return) for s in st.body):
            continue
        elif isinstance(st, ast.If) and not st.orelse and guards.facts(st.test, True) == {f"{name} is not None"}:
            todo = list(st.body) + todo            # the whole chunk is written under `name is not None`
        elif isinstance(st, ast.Pass):
            continue
        else:
            rep.inconclusive(f"{P}.R1", construct, norm(st)[:80], "unmodelled statement in write_chunk", f"{sf.rel}:{st.lineno}")
            unmodelled = True
    where = f"{sf.rel}:{fn.lineno}"
    if unmodelled:
        return              # what is written is not known: no verdict on it
    if len(writes) != 3:
        rep.violation(f"{P}.R1", construct, "; ".join(norm(w) for w in writes),
                      f"a chunk must be written as exactly id, length, payload ({len(writes)} writes found)", where)
        return
    # id: name[:4] padded with spaces to 4
    from ..layout import LenEval, Unknown as LenUnknown
    le = LenEval(repo, None, {})
    try:
        iv = le.of(writes[0], None, {name: (0, 10 ** 9)})
    except (LenUnknown, Exception):
        iv = None
    pads = [c.value for c in ast.walk(writes[0]) if isinstance(c, ast.Constant) and isinstance(c.value, bytes) and c.value]
    if iv == (4, 4) and all(p == b" " for p in pads):
        rep.ok(f"{P}.R1", construct, norm(writes[0]), "id truncated/padded (with spaces) to exactly 4 bytes, for a name of any length")
    elif iv is None:
        rep.inconclusive(f"{P}.R1", construct, norm(writes[0]), "length of the written chunk id not derivable", where)
    else:
        rep.violation(f"{P}.R1", construct, norm(writes[0]), "the chunk id must be the name cut and space-padded to 4 bytes "
                      f"(length interval {iv}, padding {pads})", where)
    # length: struct.pack("<I", len(data))
    w1 = writes[1]
    ok = isinstance(w1, ast.Call) and norm(w1.func) in ("struct.pack", "pack") and len(w1.args) == 2
    if ok:
        try:
            fmt = repo.fold(w1.args[0])
        except NotConst:
            fmt = None
        ok = fmt == "<I" and norm(w1.args[1]) == f"len({data})"
    if ok:
        rep.ok(f"{P}.R1", construct, norm(w1), "little-endian uint32 length of the payload")
    else:
        rep.violation(f"{P}.R1", construct, norm(w1), "the length field must be pack('<I', len(data))", where)
    if norm(writes[2]) == data:
        rep.ok(f"{P}.R1", construct, f"{f}.write({data})", "payload written last, unmodified")
    else:
        rep.violation(f"{P}.R1", construct, norm(writes[2]), "the payload must be written unmodified after the header", where)


# ------------------------------------------------------------------------------- R2
def writer_desc(w: codec.WRow) -> Optional[Dict[str, Any]]:
    p = w.payload
    if p is None:
        return None
    if p.shape == "pack" and p.fmt is not None:
        sizes = []
        for c in p.fmt.codes:
            try:
                sizes.append(struct.calcsize("<" + c))
            except struct.error:
                return None
        return {"kind": "pack", "sizes": tuple(sizes), "variable": p.fmt.variable, "codes": p.fmt.codes, "order": p.fmt.order}
    if p.shape in ("cstring", "fixedstring", "raw", "empty", "join", "text"):
        return {"kind": p.shape, "length": p.length}
    return None


def rst_desc(fmt_text: str) -> Optional[Dict[str, Any]]:
    t = fmt_text.strip()
    m = docs.DOC_FORMATS.get(t)
    if m is None:
        return None
    code, size = m
    if code in ("cstring",):
        return {"kind": "cstring"}
    if code == "fixedstring":
        return {"kind": "fixedstring", "length": size}
    if code == "raw":
        return {"kind": "raw", "length": size}
    if code == "i*n":
        return {"kind": "pack", "sizes": (4,), "variable": True, "codes": "i", "signed": True}
    sizes = tuple(struct.calcsize("<" + c) for c in code)
    signed = None if t.startswith("bitmap") or t.startswith("bytes") else code[0].islower()
    return {"kind": "pack", "sizes": sizes, "variable": False, "codes": code, "signed": signed}


def yaml_desc(t: Dict[str, Any], spec) -> Optional[Dict[str, Any]]:
    k = t.get("kind")
    if k == "scalar":
        return {"kind": "pack", "sizes": (t["size"],), "variable": False, "codes": t["code"], "signed": t["signed"],
                "min": t.get("min"), "max": t.get("max")}
    if k == "cstring":
        return {"kind": "cstring"}
    if k == "fixedstring":
        return {"kind": "fixedstring", "length": t.get("length")}
    if k == "Array" and "length" in t and t.get("element_type") in docs.SCALARS:
        c, s, sg = docs.SCALARS[t["element_type"]]
        return {"kind": "pack", "sizes": (s,) * t["length"], "variable": False, "codes": c * t["length"], "signed": sg}
    if k == "Struct" and "storage_bytes" in t:
        return {"kind": "pack", "sizes": (t["storage_bytes"],), "variable": False, "codes": "?", "signed": None, "struct": True}
    if k == "Bitmap" and "width" in t:
        return {"kind": "pack", "sizes": (t["width"] // 8,), "variable": False, "codes": "?", "signed": False}
    if k == "Flags":
        return {"kind": "pack", "sizes": (4,), "variable": False, "codes": "I", "signed": False}
    if k == "List" and t.get("element_type") in docs.SCALARS:
        c, s, sg = docs.SCALARS[t["element_type"]]
        return {"kind": "pack", "sizes": (s,), "variable": True, "codes": c, "signed": sg}
    return None


def _shape_agrees(w: Dict[str, Any], d: Dict[str, Any]) -> Tuple[bool, str]:
    if w["kind"] == "pack" and d["kind"] == "pack":
        if w["variable"] != d["variable"]:
            return False, "fixed vs variable count"
        if d.get("struct"):
            return sum(w["sizes"]) == sum(d["sizes"]), f"total {sum(w['sizes'])} vs {sum(d['sizes'])} bytes"
        if w["sizes"] == d["sizes"]:
            return True, ""
        return False, f"element widths {w['sizes']} vs documented {d['sizes']}"
    if w["kind"] == "join" and d["kind"] in ("raw", "pack"):
        return True, ""
    if w["kind"] == d["kind"]:
        if w["kind"] == "fixedstring" and w.get("length") != d.get("length"):
            return False, f"length {w.get('length')} vs documented {d.get('length')}"
        return True, ""
    if w["kind"] == "raw" and d["kind"] in ("raw", "pack"):
        return True, ""
    return False, f"{w['kind']} vs documented {d['kind']}"


def doc_parity(repo, rep, P, name, sec, tables, spec, sc) -> int:
    rst_rows = {}
    for cid, fmt, purpose in docs.chunk_doc_rows(tables, RST_SECTION[name]):
        rst_rows.setdefault(cid, (fmt, purpose))
    n = 0
    written = {}
    for w in sec.writer:
        if w.kind != "chunk":
            continue
        if w.cid not in written:
            written[w.cid] = w
        else:
            # several emissions of one chunk id (e.g. the empty SLNK of a module without links): the documented layout is
            # compared with the emission that carries data, wherever it stands in the source
            cur = writer_desc(written[w.cid])
            if cur is not None and cur.get("kind") == "empty":
                nd = writer_desc(w)
                if nd is not None and nd.get("kind") != "empty":
                    written[w.cid] = w
    for cid, w in written.items():
        if cid in ("PEND", "SEND", "CHNM", "CHDT", "CHFF", "CHFR"):
            continue
        wcon = f"{w.rel}:{w.fn}[{cid}]"
        wd = writer_desc(w)
        if wd is None:
            rep.inconclusive(f"{P}.R2", wcon, w.payload.text if w.payload else "", "writer payload not describable", w.where)
            continue
        sources = []
        if cid in rst_rows:
            rd = rst_desc(rst_rows[cid][0])
            if rd is not None:
                sources.append(("RST", rst_rows[cid][0], rd))
            else:
                rep.info(f"{P}.R2", wcon, rst_rows[cid][0], "RST format text not in the checker's vocabulary")
        for ent in sc.get(cid, []):
            yd = yaml_desc(ent["type"], spec)
            if yd is not None:
                sources.append(("YAML", f"{ent['name']}: {ent['type_name']}", yd))
        if not sources:
            rep.info(f"{P}.R2", wcon, w.payload.text[:60], f"{cid} is written but neither document describes its layout")
            continue
        n += 1
        verdicts = [(src, txt, *_shape_agrees(wd, d)) for src, txt, d in sources]
        if not any(v[2] for v in verdicts):
            rep.violation(f"{P}.R2", wcon, w.payload.text,
                          f"{cid}: the writer's layout agrees with no documentation source: "
                          + "; ".join(f"{s} `{t}`: {why}" for s, t, ok, why in verdicts), w.where)
            continue
        disagree = [f"{s} `{t}`: {why}" for s, t, ok, why in verdicts if not ok]
        rep.ok(f"{P}.R2", wcon, w.payload.text[:80],
               f"layout = {', '.join(s for s, t, ok, why in verdicts if ok)}" + (f" (documents disagree among themselves: {disagree})" if disagree else ""))
        # byte order: multi-byte fields must be little-endian
        if wd["kind"] == "pack" and any(s > 1 for s in wd["sizes"]) and wd["order"] != "<":
            rep.violation(f"{P}.R2", wcon, w.payload.text, f"{cid}: multi-byte integers must be little-endian ('<'), format uses {wd['order']!r}", w.where)
        # representability of the documented domain
        if wd["kind"] == "pack" and len(wd["codes"]) >= 1 and not wd["variable"] or (wd["kind"] == "pack" and wd["variable"]):
            for src, txt, d in sources:
                if d.get("kind") != "pack":
                    continue
                lo, hi = d.get("min"), d.get("max")
                code = wd["codes"][0]
                if code not in CODE_RANGE:
                    continue
                wlo, whi = CODE_RANGE[code]
                if lo is not None and hi is None and d.get("signed"):
                    hi = 2**31 - 1
                if lo is not None and hi is not None:
                    if lo < wlo or hi > whi:
                        rep.violation(f"{P}.R2", wcon, w.payload.text,
                                      f"{cid}: documented domain [{lo}, {hi}] ({src} {txt}) cannot be represented by format "
                                      f"code {code!r}", w.where)
                    else:
                        rep.ok(f"{P}.R2", wcon, f"{cid}: [{lo},{hi}] ⊆ range of {code!r}", f"documented domain representable ({src})")
                elif d.get("signed") is not None and d["signed"] != code.islower() and code.lower() in "bhiq":
                    if d.get("variable") and d.get("signed") and not code.islower():
                        rep.violation(f"{P}.R2", wcon, w.payload.text,
                                      f"{cid}: list elements are documented signed (terminator/sentinel -1) but written unsigned", w.where)
                    else:
                        rep.info(f"{P}.R2", wcon, f"{cid}: {code!r} vs documented {'signed' if d['signed'] else 'unsigned'} ({src})",
                                 "bare signedness disagreement without bounds")
    # docs ⊆ writer
    optional_words = ("optional", "not present", "if applicable", "not in sunsynth")
    for cid, (fmt, purpose) in rst_rows.items():
        if cid in written:
            continue
        rep.violation(f"{P}.R2", f"{docs.DOC}:{RST_SECTION[name]}[{cid}]", f"``{cid}``  {fmt}  {purpose}",
                      f"the format document lists {cid} in the {name} section but the {name} writer never emits it",
                      docs.DOC)
    ysec = (spec.get("chunk_sections", {}).get(YAML_SECTION[name], {}) or {}).get("order", [])
    for nm in ysec:
        c = (spec.get("chunks") or {}).get(nm)
        if not c or not c.get("id"):
            continue
        cid = c["id"].strip()
        if cid not in written:
            # an id shared by two specs (erratum) counts once
            rep.violation(f"{P}.R2", f"{docs.SPEC}:chunks.{nm}", f"{nm}: id {cid}",
                          f"the YAML section order of `{YAML_SECTION[name]}` lists {nm} ({cid}) but the writer never emits it", docs.SPEC)
    return n


# ------------------------------------------------------------------------------- R3
def order_rule(repo, rep, P, name, sec, tables, spec, sc):
    worder = []
    for w in sec.writer:
        if w.kind == "chunk" and w.cid not in worder:
            worder.append(w.cid)
    wcon = f"{sec.writer[0].rel}:{sec.writer[0].fn}" if sec.writer else name
    errata = []
    rst = []
    for cid, _, _ in docs.chunk_doc_rows(tables, RST_SECTION[name]):
        if cid not in rst:
            rst.append(cid)
    ysec = (spec.get("chunk_sections", {}).get(YAML_SECTION[name], {}) or {}).get("order", [])
    yam = []
    for nm in ysec:
        c = (spec.get("chunks") or {}).get(nm)
        if c is None:
            errata.append(f"order entry `{nm}` names no chunk spec")
            continue
        if not c.get("id"):
            continue
        cid = c["id"].strip()
        if cid in yam:
            errata.append(f"chunk specs share id {cid} (`{nm}`)")
            continue
        yam.append(cid)
    for label, doc in (("RST", rst), ("YAML", yam)):
        if not doc:
            continue
        d = [c for c in doc if c in worder]
        wv = [c for c in worder if c in doc]
        if d == wv:
            rep.ok(f"{P}.R3", wcon, f"{label} order of `{name}`: {' '.join(d)}", "writer emits the documented chunks in the documented order")
        else:
            # first inversion
            pos = {c: i for i, c in enumerate(wv)}
            inv = next(((a, b) for a, b in zip(d, d[1:]) if pos[a] > pos[b]), None)
            rep.violation(f"{P}.R3", wcon, f"writer: {' '.join(wv)}",
                          f"emission order differs from the {label} order ({' '.join(d)})"
                          + (f": {inv[1]} is written before {inv[0]}" if inv else ""),
                          sec.writer[0].where if sec.writer else "")
    for e in errata:
        rep.info(f"{P}.R3", f"{docs.SPEC}:chunk_sections.{YAML_SECTION[name]}", e, "documentation erratum set aside")
    undocumented = [c for c in worder if c not in rst and c not in yam and c not in ("PEND", "SEND", "CHNM", "CHDT", "CHFF", "CHFR")]
    for c in undocumented:
        rep.info(f"{P}.R3", wcon, c, "emitted but not in either order list")


def generic_chunk_rows(repo, rep, P, secs, tables):
    """CHNM/CHDT ('General format') and CHFF/CHFR ('Waveform chunk') of module.Chunk.chunks."""
    rows = {}
    for sec_name in ("General format", "Waveform chunk"):
        for cid, fmt, _ in docs.chunk_doc_rows(tables, sec_name):
            rows[cid] = fmt
    for w in secs["module"].writer:
        if w.kind == "chunk" and w.cid in ("CHNM", "CHFF", "CHFR") and w.fn.endswith("Chunk.chunks"):
            wd = writer_desc(w)
            rd = rst_desc(rows.get(w.cid, ""))
            wcon = f"{w.rel}:{w.fn}[{w.cid}]"
            if wd and rd and _shape_agrees(wd, rd)[0] and wd["order"] == "<":
                rep.ok(f"{P}.R2", wcon, w.payload.text, f"= RST `{rows[w.cid]}`")
            else:
                rep.violation(f"{P}.R2", wcon, w.payload.text, f"{w.cid} must be little-endian `{rows.get(w.cid)}`", w.where)


# ------------------------------------------------------------------------------- R4
def fixed_sizes(repo: Repo, rep, P: str, secs):
    # SNAM payload length ∈ [32, 32]
    mod = repo.cls("Module", module="rv.modules.module")
    snam = [w for w in secs["module"].writer if w.cid == "SNAM"]
    if not snam:
        raise AnchorMissing("SNAM writer row")
    w = snam[0]
    wcon = f"{w.rel}:{w.fn}[SNAM]"
    try:
        k, (lo, hi) = lenint.length(repo, mod, w.payload_expr)
        if (lo, hi) == (32, 32):
            rep.ok(f"{P}.R4", wcon, w.payload.text, "byte length ∈ [32, 32]")
        else:
            rep.violation(f"{P}.R4", wcon, w.payload.text,
                          f"SNAM payload length is in [{lo}, {'∞' if hi >= lenint.INF else hi}], the format requires exactly 32 bytes", w.where)
    except (lenint.Unknown, NotConst) as e:
        rep.inconclusive(f"{P}.R4", wcon, w.payload.text, f"length not bounded: {e}", w.where)
    # note cell = 8 bytes (format literal)
    note = repo.cls("Note", module="rv.note")
    g = note.getters.get("raw_data")
    fm = None
    for n in walk_no_nested(g):
        if isinstance(n, ast.Call) and norm(n.func) in ("pack", "struct.pack"):
            try:
                fm = repo.fold(n.args[0], ci=note)
            except NotConst:
                fm = None
    if fm and struct.calcsize(fm) == 8 and fm.startswith("<"):
        rep.ok(f"{P}.R4", f"{note.file.rel}:Note.raw_data", f"calcsize({fm!r}) = 8")
    else:
        rep.violation(f"{P}.R4", f"{note.file.rel}:Note.raw_data", f"format {fm!r}",
                      "a note must be an 8-byte little-endian record (pattern data = lines × tracks × 8)", f"{note.file.rel}:{g.lineno}")
    # CMID entry
    cm = repo.cls("ControllerMidiMap", module="rv.cmidmap")
    gg, ss = cm.getters.get("cmid_data"), cm.setters.get("cmid_data")
    if gg is None or ss is None:
        raise AnchorMissing("ControllerMidiMap.cmid_data")
    gf = sf_ = None
    gargs = sargs = None
    for n in walk_no_nested(gg):
        if isinstance(n, ast.Call) and norm(n.func) in ("pack", "struct.pack"):
            gf = repo.fold(n.args[0], ci=cm)
            gargs = n.args[1:]
    for n in walk_no_nested(ss):
        if isinstance(n, ast.Call) and norm(n.func) in ("unpack", "struct.unpack"):
            sf_ = repo.fold(n.args[0], ci=cm)
        if isinstance(n, ast.Assign) and isinstance(n.value, ast.Call) and norm(n.value.func) in ("unpack", "struct.unpack"):
            sargs = n.targets[0].elts if isinstance(n.targets[0], ast.Tuple) else None
    con = f"{cm.file.rel}:ControllerMidiMap.cmid_data"
    if gf is not None and sf_ is not None and struct.calcsize(gf) == 8 and struct.calcsize(sf_) == 8:
        rep.ok(f"{P}.R4", con, f"calcsize({gf!r}) = calcsize({sf_!r}) = 8")
    else:
        rep.violation(f"{P}.R4", con, f"pack {gf!r} / unpack {sf_!r}", "a CMID entry must be an 8-byte record on both sides",
                      f"{cm.file.rel}:{gg.lineno}")
    from . import c02
    c02.cmid_record_pair(repo, rep, P, "R4")
    # field positions: message_type, channel, slope, 0, parameter, 0, set-marker  ↔ offsets table
    # byte offsets of the packed fields (pad bytes and explicit zeros both count) ↔ the documented offsets.  That the setter reads
    # each field back from the bytes it was written to is decided bit by bit by cmid_record_pair above.
    if gargs is not None and gf is not None:
        from ..packed import _fmt_items, single_defs, resolve_names
        try:
            _, items = _fmt_items(gf)
        except Exception:
            items = None
        gdefs = single_defs(gg)
        if items is not None and len([x for x in items if x[0] != "x"]) == len(gargs):
            off, ai = 0, 0
            at: Dict[str, int] = {}
            zero_ok = True
            covered = set()
            for ch, size in items:
                if ch != "x":
                    a = resolve_names(gargs[ai], gdefs)
                    ai += 1
                    t_ = norm(a)
                    # the attribute the packed value is taken from (`self.x`, `self.x.value`, `self.x & 0xFF`, `self.x >> 8`): its first byte
                    attrs_ = []
                    for x_ in ast.walk(a):
                        if isinstance(x_, ast.Attribute) and isinstance(x_.value, ast.Name) and x_.value.id == "self" and x_.attr not in attrs_:
                            attrs_.append(x_.attr)
                    if len(attrs_) == 1 and not isinstance(a, ast.IfExp):
                        at.setdefault(attrs_[0], off)
                    elif off in (3, 6) and t_ != "0":
                        zero_ok = False
                for b_ in range(off, off + size):
                    covered.add(b_)
                off += size
            want = {"message_type": 0, "channel": 1, "slope": 2, "message_parameter": 4}
            bad = [(nm, at.get(nm)) for nm, o_ in want.items() if at.get(nm) != o_]
            if bad and all(v is None for _, v in bad) and not at:
                rep.inconclusive(f"{P}.R4", con, norm(gg)[:120], "packed fields not recognised as attributes of the map", f"{cm.file.rel}:{gg.lineno}")
            elif bad:
                rep.violation(f"{P}.R4", con, f"fields at {at}",
                              f"CMID field order differs from the documented offsets: {bad} (documented {want})", f"{cm.file.rel}:{gg.lineno}")
            else:
                rep.ok(f"{P}.R4", con, f"fields at {at}", "type@0 channel@1 slope@2 parameter@4 as documented")
            if not zero_ok:
                rep.violation(f"{P}.R4", con, "reserved bytes", "bytes 3 and 6 are documented reserved zero", f"{cm.file.rel}:{gg.lineno}")
        else:
            rep.inconclusive(f"{P}.R4", con, f"pack {gf!r} with {len(gargs)} values", "field positions not derived", f"{cm.file.rel}:{gg.lineno}")
    # PICO: 32 bytes (validator) = documented bitmap (32 bytes)
    pat = repo.cls("Pattern", module="rv.pattern")
    icon = pat.assigns.get("icon")
    n_icon = None
    if isinstance(icon, ast.Call):
        for k in icon.keywords:
            if k.arg == "validator" and isinstance(k.value, ast.Call) and norm(k.value.func) == "is_length":
                try:
                    n_icon = repo.fold(k.value.args[0], ci=pat)
                except NotConst:
                    pass
        dflt = [k.value for k in icon.keywords if k.arg == "default"]
        try:
            dlen = len(repo.fold(dflt[0], ci=pat)) if dflt else None
        except NotConst:
            dlen = None
    if n_icon == 32 and dlen == 32:
        rep.ok(f"{P}.R4", f"{pat.file.rel}:Pattern.icon", "is_length(32), default 32 bytes", "PICO is always 32 bytes")
    else:
        rep.violation(f"{P}.R4", f"{pat.file.rel}:Pattern.icon", norm(icon) if icon is not None else "missing",
                      f"pattern icon must be validated to the documented 32 bytes (validator {n_icon}, default {dlen})",
                      f"{pat.file.rel}:{pat.node.lineno}")
