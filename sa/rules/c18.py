"""C18 — loading restores global strictness and releases files on every exit path."""

from __future__ import annotations

import ast
from typing import Dict, FrozenSet, List, Optional, Set, Tuple

from ..cfg import CFG, Node
from ..model import AnchorMissing, NotConst, Repo, attr_chain, norm, walk_no_nested

LEVEL = "proof"
EXPLANATION = (
    "typestate / symbolic-value dataflow over a statement CFG with exception edges: (1) the strictness "
    "global has exactly one writer; (2) in that context manager every exit (normal, exception thrown in at "
    "the yield, generator close) leaves the global equal to its value at entry; (3) in read_sunvox_file "
    "every path from the path-open to any exit closes the file, and the whole load runs inside the "
    "override; (4) every reader construction outside rv.readers goes through read_sunvox_file, including "
    "nested loads; (5) every other open() is a with-item. Exception edges over-approximate all crash points."
)
DECLINED = []
ASSUMPTIONS = [
    "contextlib.contextmanager runs the generator's finally on every exit of the with block",
    "a statement that is a constant/local-name move cannot raise; every other statement may",
    "a file object's close() releases the handle even if it raises",
]

FLAG = "RAISE_CONTROLLER_VALUE_ERRORS"
OVERRIDE = "override_raise_controller_value_errors"


def run(repo: Repo, rep, tier: str):
    rep.count("files_in_scope", repo.consult_all())
    single_writer(repo, rep, "C18")
    restore_rule(repo, rep, "C18")
    file_typestate(repo, rep, "C18")
    reader_entry_rule(repo, rep, "C18")
    open_rule(repo, rep, "C18")


# -------------------------------------------------------------------------------------- R1
def _functions(tree: ast.AST):
    """(qualified name, FunctionDef) for every function in a module, nested included."""
    def rec(node, prefix):
        for ch in ast.iter_child_nodes(node):
            if isinstance(ch, (ast.FunctionDef, ast.AsyncFunctionDef)):
                yield f"{prefix}{ch.name}", ch
                yield from rec(ch, f"{prefix}{ch.name}.")
            elif isinstance(ch, ast.ClassDef):
                yield from rec(ch, f"{prefix}{ch.name}.")
            else:
                yield from rec(ch, prefix)
    yield from rec(tree, "")


def flag_writers(repo: Repo) -> List[Tuple[str, str, ast.AST]]:
    """(file rel, qualified function or '<module>', node) of every store to the strictness flag."""
    out = []
    for rel, sf in sorted(repo.files.items()):
        # module-level stores
        for st in sf.tree.body:
            if isinstance(st, (ast.Assign, ast.AugAssign, ast.AnnAssign)):
                tg = st.targets if isinstance(st, ast.Assign) else [st.target]
                for t in tg:
                    for sub in ast.walk(t):
                        if isinstance(sub, ast.Name) and sub.id == FLAG:
                            out.append((rel, "<module>", st))
        for qn, fn in _functions(sf.tree):
            declared_global = any(isinstance(n, ast.Global) and FLAG in n.names for n in walk_no_nested(fn))
            for n in walk_no_nested(fn):
                tg = []
                if isinstance(n, ast.Assign):
                    tg = n.targets
                elif isinstance(n, (ast.AugAssign, ast.AnnAssign)):
                    tg = [n.target]
                elif isinstance(n, ast.Delete):
                    tg = n.targets
                for t in tg:
                    for sub in ast.walk(t):
                        if isinstance(sub, ast.Name) and sub.id == FLAG and declared_global:
                            out.append((rel, qn, n))
                        if isinstance(sub, ast.Attribute) and sub.attr == FLAG and isinstance(sub.ctx, (ast.Store, ast.Del)):
                            out.append((rel, qn, n))
                if isinstance(n, ast.Call) and norm(n.func) in ("setattr", "delattr") and n.args[1:2]:
                    a = n.args[1]
                    if isinstance(a, ast.Constant) and a.value == FLAG:
                        out.append((rel, qn, n))
                if isinstance(n, ast.Subscript) and isinstance(n.ctx, (ast.Store, ast.Del)):
                    # globals()["FLAG"] = ... / vars(errors)["FLAG"] = ... / module.__dict__[...]
                    if isinstance(n.slice, ast.Constant) and n.slice.value == FLAG:
                        out.append((rel, qn, n))
        # module-level attribute stores (e.g. rv.errors.FLAG = False at import time)
        for st in sf.tree.body:
            if isinstance(st, ast.Assign):
                for t in st.targets:
                    if isinstance(t, ast.Attribute) and t.attr == FLAG:
                        out.append((rel, "<module>", st))
    return out


def _only_called_from(repo: Repo, name: str, allowed: Tuple[str, str]) -> bool:
    """Every call (or other mention) of the module-level function `name` lies inside the allowed function."""
    n_calls = 0
    for rel, sf in repo.files.items():
        if not sf.modname.startswith("rv"):
            continue
        for fn_qn, fn in list(_functions(sf.tree)) + [("<module>", None)]:
            nodes = walk_no_nested(fn) if fn is not None else [n for st in sf.tree.body if not isinstance(st, (ast.FunctionDef, ast.ClassDef))
                                                               for n in ast.walk(st)]
            for n in nodes:
                hit = (isinstance(n, ast.Name) and n.id == name and isinstance(n.ctx, ast.Load)) or \
                      (isinstance(n, ast.Attribute) and n.attr == name) or \
                      (isinstance(n, ast.alias) and n.name == name)
                if hit:
                    n_calls += 1
                    if (rel, fn_qn) != allowed:
                        return False
    return n_calls > 0


def single_writer(repo: Repo, rep, P: str):
    writers = flag_writers(repo)
    allowed_fn = ("src/python/rv/errors.py", OVERRIDE)
    n_inside = 0
    for rel, qn, node in writers:
        if rel == "src/python/rv/errors.py" and qn == "<module>":
            rep.ok(f"{P}.R1", f"{rel}:<module>", norm(node), "initial definition", nontrivial=False)
            continue
        if (rel, qn) == allowed_fn:
            n_inside += 1
            continue
        if rel == allowed_fn[0] and qn.startswith("_") and not qn.startswith("__") and _only_called_from(repo, qn, allowed_fn):
            n_inside += 1
            rep.ok(f"{P}.R1", f"{rel}:{qn}", norm(node), f"private helper called from {OVERRIDE} only (analysed inlined there)")
            continue
        rep.violation(f"{P}.R1", f"{rel}:{qn}", norm(node),
                      f"the strictness flag is written outside {OVERRIDE}; nothing restores it on the exits "
                      "of this function", f"{rel}:{node.lineno}")
    if n_inside:
        rep.ok(f"{P}.R1", f"src/python/rv/errors.py:{OVERRIDE}", f"{n_inside} stores, all inside the context manager")
    rep.count("flag_store_sites", len(writers), 2)
    rep.count("files_scanned", len(repo.files), 100)
    # the flag is read where validation decides to raise
    fn = repo.func("rv.errors", "raise_or_warn_controller_value_validation")
    reads = [n for n in walk_no_nested(fn) if isinstance(n, ast.Name) and n.id == FLAG]
    if reads:
        rep.ok(f"{P}.R1", "src/python/rv/errors.py:raise_or_warn_controller_value_validation", f"reads {FLAG}", nontrivial=False)
    else:
        rep.violation(f"{P}.R1", "src/python/rv/errors.py:raise_or_warn_controller_value_validation", norm(fn)[:100],
                      "the strictness flag no longer decides between raise and warn",
                      f"src/python/rv/errors.py:{fn.lineno}")


# -------------------------------------------------------------------------------------- R2
Env = Tuple[Tuple[str, str], ...]


def _env_get(env: Env, k: str, default="?") -> str:
    for a, b in env:
        if a == k:
            return b
    return default


def _env_set(env: Env, k: str, v: str) -> Env:
    d = dict(env)
    d[k] = v
    return tuple(sorted(d.items()))


def restore_rule(repo: Repo, rep, P: str):
    from .. import inline
    sf = repo.module("rv.errors")
    from ..cfg import desugar_exitstack as _des
    # `with ExitStack() as s: …; s.callback(restore, old)` reads as try/finally; then the private swap helper is read through
    fn = inline.flatten(repo, None, _des(repo.func("rv.errors", OVERRIDE)), sf=sf)
    construct = f"{sf.rel}:{OVERRIDE}"
    rep.func(f"rv.errors.{OVERRIDE}")
    decos = [norm(d) for d in fn.decorator_list]
    if not any(d.split(".")[-1] == "contextmanager" for d in decos):
        rep.violation(f"{P}.R2", construct, f"decorators: {decos}",
                      "not a @contextmanager any more: `with override(...)` would not run the restore",
                      f"{sf.rel}:{fn.lineno}")
    else:
        rep.ok(f"{P}.R2", construct, "@contextmanager")
    params = [a.arg for a in fn.args.args]
    if not params:
        rep.inconclusive(f"{P}.R2", construct, "", "no parameter", f"{sf.rel}:{fn.lineno}")
        return
    # the flag may also be written by a helper that could not be read through (called inside an expression, passed to
    # functools.partial, …): its effect on the flag is then unknown to the dataflow below
    writers = {st.name for st in sf.tree.body if isinstance(st, ast.FunctionDef) and st.name != OVERRIDE
               and any(isinstance(x, ast.Global) and FLAG in x.names for x in ast.walk(st))}
    used = sorted({n.id for n in ast.walk(fn) if isinstance(n, ast.Name) and n.id in writers})
    if used:
        rep.inconclusive(f"{P}.R2", construct, ", ".join(used), "the strictness flag is written by a helper whose call is not read through", f"{sf.rel}:{fn.lineno}")
        return
    g = CFG(fn)
    init: FrozenSet[Env] = frozenset([tuple(sorted({FLAG: "g0", params[0]: "new"}.items()))])

    def value_of(e: ast.expr, env: Env) -> str:
        if isinstance(e, ast.Name):
            return _env_get(env, e.id, f"?{e.id}")
        if isinstance(e, ast.Constant):
            return f"const:{e.value!r}"
        return "?expr:" + norm(e)

    def transfer(node: Node, st: FrozenSet[Env], label: str):
        if node.kind != "stmt" or label == "exc":
            return st
        s = node.ast
        out = set()
        for env in st:
            e2 = env
            if isinstance(s, ast.Assign) and len(s.targets) == 1 and isinstance(s.targets[0], ast.Name):
                e2 = _env_set(env, s.targets[0].id, value_of(s.value, env))
            elif isinstance(s, ast.Assign) and len(s.targets) == 1 and isinstance(s.targets[0], ast.Tuple) and isinstance(s.value, ast.Tuple) \
                    and len(s.targets[0].elts) == len(s.value.elts) and all(isinstance(t, ast.Name) for t in s.targets[0].elts):
                vals = [value_of(v, env) for v in s.value.elts]          # right-hand side first, then the bindings
                for t, v in zip(s.targets[0].elts, vals):
                    e2 = _env_set(e2, t.id, v)
            elif isinstance(s, ast.AugAssign) and isinstance(s.target, ast.Name):
                e2 = _env_set(env, s.target.id, "?aug")
            out.add(e2)
        return frozenset(out)

    states = g.solve(init, transfer, lambda a, b: a | b)
    yields = [n for n in g.nodes if n.kind == "stmt" and any(isinstance(x, (ast.Yield, ast.YieldFrom)) for x in ast.walk(n.ast))]
    if len(yields) != 1:
        rep.inconclusive(f"{P}.R2", construct, "", f"{len(yields)} yield statements", f"{sf.rel}:{fn.lineno}")
    for y in yields:
        vals = {_env_get(e, FLAG) for e in states.get(y.id, frozenset())}
        if vals == {"new"}:
            rep.ok(f"{P}.R2", construct, "flag == new_value at the yield")
        else:
            rep.violation(f"{P}.R2", construct, y.text(),
                          f"at the yield the flag holds {sorted(vals)} instead of the requested value",
                          f"{sf.rel}:{y.lineno}")
    n_exits = 0
    for ex, kind in ((g.exit, "normal return"), (g.raise_exit, "exception / generator close")):
        if ex not in states:
            continue
        # only exits reachable after the flag was overwritten matter; all are checked
        vals = {_env_get(e, FLAG) for e in states[ex]}
        n_exits += 1
        if vals == {"g0"}:
            rep.ok(f"{P}.R2", construct, f"exit[{kind}]: flag == value at entry")
        else:
            # find an offending predecessor for the report
            preds = [g.nodes[p].text() for p, lab in g.pred[ex]
                     if any(_env_get(e, FLAG) != "g0" for e in transfer(g.nodes[p], states.get(p, frozenset()), lab) or [])]
            rep.violation(f"{P}.R2", construct, f"exit[{kind}] reached from: {preds[:3]}",
                          f"on the {kind} path the strictness flag is left as {sorted(vals - {'g0'})} "
                          "instead of being restored to its value before the call", f"{sf.rel}:{fn.lineno}")
    rep.count("override_exits", n_exits, 2)
    rep.sample({"function": construct, "cfg_nodes": len(g.nodes),
                "state_at_exits": {k: sorted({_env_get(e, FLAG) for e in states.get(ex, [])})
                                   for ex, k in ((g.exit, "normal"), (g.raise_exit, "exception"))}})


# -------------------------------------------------------------------------------------- R3
def _is_open_call(e: ast.AST, openers: Set[str] = frozenset()) -> bool:
    for n in ast.walk(e):
        if isinstance(n, ast.Call):
            f = norm(n.func)
            if f == "open" or f.endswith(".open") or f in ("io.open", "os.fdopen") or f in openers:
                return True
    return False


def _opener_helpers(sf) -> Dict[str, ast.FunctionDef]:
    """Module-level functions that open a file themselves (and hand it to their caller)."""
    out = {}
    for st in sf.tree.body:
        if isinstance(st, ast.FunctionDef) and st.name != "read_sunvox_file" \
                and any(_is_open_call(x) for x in walk_no_nested(st) if isinstance(x, ast.Call)):
            out[st.name] = st
    return out


def file_typestate(repo: Repo, rep, P: str):
    from ..cfg import desugar_exitstack
    from .. import inline
    sf = repo.module("rv.readers.reader")
    fn = desugar_exitstack(inline.flatten(repo, None, repo.func("rv.readers.reader", "read_sunvox_file"), sf=sf))
    construct = f"{sf.rel}:read_sunvox_file"
    rep.func("rv.readers.reader.read_sunvox_file")
    g = CFG(fn)
    helpers = _opener_helpers(sf)
    openers = set(helpers)
    for hname, h in helpers.items():
        hg = CFG(h)
        hcon = f"{sf.rel}:{hname}"
        rep.func(f"rv.readers.reader.{hname}")
        if hname.startswith("_") and not any(isinstance(c, ast.Call) and norm(c.func) == hname for c in ast.walk(fn)) \
                and _only_called_from(repo, hname, (sf.rel, "read_sunvox_file")):
            # a private helper of read_sunvox_file only, read through into it above: its open() is one of the acquisitions examined
            # there (with the caller's clean-up stack in view), not a hand-over to unknown callers
            rep.ok(f"{P}.R3", hcon, f"{hname}(…)", "opened inside read_sunvox_file's own helper: examined as part of read_sunvox_file", nontrivial=False)
            openers.discard(hname)
            continue
        hacq = [n for n in hg.nodes if n.kind == "stmt" and isinstance(n.ast, (ast.Assign, ast.Expr, ast.Return, ast.AugAssign))
                and _is_open_call(n.ast)]
        for a in hacq:
            if isinstance(a.ast, ast.Return):
                rep.ok(f"{P}.R3", hcon, a.text(), "opened file returned at once (ownership passes to the caller)")
            elif isinstance(a.ast, ast.Assign) and len(a.ast.targets) == 1 and isinstance(a.ast.targets[0], ast.Name):
                _typestate_one(rep, P, sf, hcon, hg, a, a.ast.targets[0].id, hands_over=True)
            else:
                rep.violation(f"{P}.R3", hcon, a.text(), "opened file is not bound to a local; it cannot be closed", f"{sf.rel}:{a.lineno}")
    # acquisitions outside with-items
    acq = [n for n in g.nodes if n.kind == "stmt" and isinstance(n.ast, (ast.Assign, ast.Expr, ast.Return, ast.AugAssign))
           and _is_open_call(n.ast, openers)]
    with_acq = [n for n in g.nodes if n.kind == "with_enter" and any(_is_open_call(i.context_expr, openers) for i in n.ast.items)]
    rep.count("path_open_sites", len(acq) + len({id(n.ast) for n in with_acq}), 1)
    for n in with_acq:
        rep.ok(f"{P}.R3", construct, n.text(), "file opened as a with-item: released on every exit")
    for a in acq:
        if not (isinstance(a.ast, ast.Assign) and len(a.ast.targets) == 1 and isinstance(a.ast.targets[0], ast.Name)):
            rep.violation(f"{P}.R3", construct, a.text(), "opened file is not bound to a local; it cannot be closed",
                          f"{sf.rel}:{a.lineno}")
            continue
        var = a.ast.targets[0].id
        _typestate_one(rep, P, sf, construct, g, a, var)
    # the whole load is inside the override
    overrides = [n for n in g.nodes if n.kind == "with_enter"
                 and any(norm(i.context_expr.func).split(".")[-1] == OVERRIDE for i in n.ast.items
                         if isinstance(i.context_expr, ast.Call))]
    dom = g.dominators()
    load_calls = [n for n in g.nodes if n.kind == "stmt" and n.ast is not None and
                  any(isinstance(c, ast.Call) and norm(c.func).endswith("Reader") for c in ast.walk(n.ast))]
    load_calls += [n for n in g.nodes if n.kind == "stmt" and isinstance(n.ast, ast.Return) and n.ast.value is not None
                   and ".object" in norm(n.ast.value) and n not in load_calls]
    rep.count("load_statements", len(load_calls), 1)
    for lc in load_calls:
        covering = [o for o in overrides if o.id in dom.get(lc.id, set())
                    and any(x.id in g.reachable(lc.id) for x in g.nodes if x.kind == "with_exit" and x.ast is o.ast)]
        inside = any(_inside(o.ast, lc.ast) for o in overrides)
        if covering and inside:
            rep.ok(f"{P}.R3", construct, lc.text(), "runs inside `with override_raise_controller_value_errors(...)`")
        else:
            rep.violation(f"{P}.R3", construct, lc.text(),
                          "reader runs outside the strictness override (the flag is neither set for the load "
                          "nor restored after it)", f"{sf.rel}:{lc.lineno}")


def _inside(outer: ast.AST, inner: ast.AST) -> bool:
    return any(n is inner for n in ast.walk(outer))


def _typestate_one(rep, P, sf, construct, g: CFG, acq: Node, var: str, hands_over: bool = False):
    """Resource bound to `var` at node `acq`; flags = boolean locals assigned constants."""
    State = Tuple[str, Tuple[Tuple[str, str], ...]]   # (res, flags)

    flag_names = set()
    for n in g.nodes:
        if n.kind == "stmt" and isinstance(n.ast, ast.Assign) and len(n.ast.targets) == 1 \
                and isinstance(n.ast.targets[0], ast.Name) and isinstance(n.ast.value, ast.Constant) \
                and isinstance(n.ast.value.value, bool):
            flag_names.add(n.ast.targets[0].id)

    def setflag(flags, k, v):
        d = dict(flags)
        d[k] = v
        return tuple(sorted(d.items()))

    def is_close(s: ast.AST) -> bool:
        for c in ast.walk(s):
            if isinstance(c, ast.Call) and isinstance(c.func, ast.Attribute) and c.func.attr == "close" \
                    and isinstance(c.func.value, ast.Name) and c.func.value.id == var:
                return True
        return False

    def transfer(node: Node, st, label: str):
        out = set()
        for res, flags in st:
            if node.kind == "stmt":
                s = node.ast
                if node.id == acq.id:
                    if label != "exc":
                        res = "open"
                elif isinstance(s, ast.Assign) and len(s.targets) == 1 and isinstance(s.targets[0], ast.Name):
                    t = s.targets[0].id
                    if t in flag_names and label != "exc":
                        if isinstance(s.value, ast.Constant) and isinstance(s.value.value, bool):
                            flags = setflag(flags, t, str(s.value.value))
                        else:
                            flags = setflag(flags, t, "?")
                    elif t == var and label != "exc" and res == "open":
                        res = "lost"     # rebound while open
                elif is_close(s):
                    if res == "open":
                        res = "closed"
                elif hands_over and isinstance(s, ast.Return) and isinstance(s.value, ast.Name) and s.value.id == var \
                        and label != "exc" and res == "open":
                    res = "handed-over"
                out.add((res, flags))
            elif node.kind == "test":
                e = node.ast
                neg = False
                while isinstance(e, ast.UnaryOp) and isinstance(e.op, ast.Not):
                    e = e.operand
                    neg = not neg
                if isinstance(e, ast.Name) and e.id in flag_names and label in ("true", "false"):
                    want = (label == "true") != neg
                    cur = dict(flags).get(e.id, "?")
                    if cur == "?" or cur == str(want):
                        out.add((res, setflag(flags, e.id, str(want)) if cur == "?" else flags))
                    # else: infeasible branch
                else:
                    out.add((res, flags))
            elif node.kind == "with_enter":
                out.add((res, flags))
            else:
                out.add((res, flags))
        return frozenset(out) if out else None

    init = frozenset([("none", tuple())])
    states = g.solve(init, transfer, lambda a, b: a | b)
    n_paths = 0
    for ex, kind in ((g.exit, "normal return"), (g.raise_exit, "exception")):
        sts = states.get(ex, frozenset())
        bad = [s for s in sts if s[0] in ("open", "lost")]
        n_paths += len(sts)
        if bad:
            # which predecessor carries the open state
            culprits = []
            for p, lab in g.pred[ex]:
                so = transfer(g.nodes[p], states.get(p, frozenset()), lab) or frozenset()
                if any(s[0] in ("open", "lost") for s in so):
                    culprits.append(f"{g.nodes[p].text()} --{lab}-->")
            rep.violation(f"{P}.R3", construct, f"{acq.text()}  ⇒ exit[{kind}] via {culprits[:3]}",
                          f"a file opened from a path can reach the {kind} exit without being closed "
                          f"(abstract states at exit: {sorted(bad)})", f"{sf.rel}:{acq.lineno}")
        else:
            rep.ok(f"{P}.R3", construct, f"{acq.text()} ⇒ exit[{kind}]",
                   f"states {sorted(sts)}: never open")
    # closing a file the caller passed in is also a defect (only close what was opened here)
    for n in g.nodes:
        if n.kind == "stmt" and is_close(n.ast):
            sts = states.get(n.id, frozenset())
            if any(s[0] == "none" for s in sts):
                rep.violation(f"{P}.R3", construct, n.text(),
                              "close() is reachable for a file object the caller supplied (not opened here)",
                              f"{sf.rel}:{n.lineno}")
            else:
                rep.ok(f"{P}.R3", construct, f"{n.text()} [{n.tag or 'body'}]", "only reached with the path-opened file")
    rep.sample({"function": construct, "resource": acq.text(), "cfg_nodes": len(g.nodes),
                "exit_states": {k: sorted(map(str, states.get(ex, []))) for ex, k in ((g.exit, "normal"), (g.raise_exit, "exception"))}})


# -------------------------------------------------------------------------------------- R4
def reader_classes(repo: Repo) -> Set[str]:
    out = set()
    for c in repo.all_classes():
        try:
            if c.name != "Reader" and repo.is_subclass(c, "Reader") and c.file.modname.startswith("rv."):
                out.add(c.name)
        except AnchorMissing:
            pass
    return out


def _reaches_only_from(repo: Repo, sf, name: str, entry: str, depth: int = 0) -> bool:
    """The private module-level function `name` is mentioned only inside `entry` or inside private helpers for which the same holds."""
    if depth > 4:
        return False
    mentions = []
    for rel2, sf2 in repo.files.items():
        if not sf2.modname.startswith("rv"):
            continue
        for fn_qn, fn in list(_functions(sf2.tree)) + [("<module>", None)]:
            nodes = walk_no_nested(fn) if fn is not None else [n for st in sf2.tree.body if not isinstance(st, (ast.FunctionDef, ast.ClassDef))
                                                               for n in ast.walk(st)]
            for n in nodes:
                if (isinstance(n, ast.Name) and n.id == name and isinstance(n.ctx, ast.Load)) or (isinstance(n, ast.Attribute) and n.attr == name) \
                        or (isinstance(n, ast.alias) and n.name == name):
                    mentions.append((sf2, fn_qn))
    if not mentions:
        return False
    for sf2, q in mentions:
        if sf2 is sf and q == entry:
            continue
        if sf2 is sf and q.startswith("_") and not q.startswith("__") and q != name and _reaches_only_from(repo, sf, q, entry, depth + 1):
            continue
        return False
    return True


def reader_entry_rule(repo: Repo, rep, P: str):
    readers = reader_classes(repo)
    rep.count("reader_classes", len(readers), 6)
    n_sites = 0
    for rel, sf in sorted(repo.files.items()):
        if not sf.modname.startswith("rv"):
            continue
        for qn, fn in list(_functions(sf.tree)) + [("<module>", sf.tree)]:
            nodes = walk_no_nested(fn) if qn != "<module>" else [n for st in sf.tree.body if not isinstance(st, (ast.FunctionDef, ast.ClassDef)) for n in ast.walk(st)]
            for n in nodes:
                if isinstance(n, ast.Call) and norm(n.func).split(".")[-1] in readers:
                    n_sites += 1
                    cname = norm(n.func).split(".")[-1]
                    in_readers_pkg = sf.modname.startswith("rv.readers")
                    if cname == "InitialReader":
                        if sf.modname == "rv.readers.reader" and (qn == "read_sunvox_file" or qn.startswith("read_sunvox_file.")):
                            rep.ok(f"{P}.R4", f"{rel}:{qn}", norm(n), "top-level reader built inside the guarded entry")
                        elif sf.modname == "rv.readers.reader" and qn.startswith("_") and not qn.startswith("__") \
                                and _reaches_only_from(repo, sf, qn, "read_sunvox_file"):
                            rep.ok(f"{P}.R4", f"{rel}:{qn}", norm(n), "private helper reached from read_sunvox_file only (analysed inlined there)")
                        else:
                            rep.violation(f"{P}.R4", f"{rel}:{qn}", norm(n),
                                          "InitialReader constructed outside read_sunvox_file: the load bypasses the "
                                          "strictness override and the close-on-exit wrapper", f"{rel}:{n.lineno}")
                    elif not in_readers_pkg:
                        rep.violation(f"{P}.R4", f"{rel}:{qn}", norm(n),
                                      f"{cname} constructed outside rv.readers: the load bypasses read_sunvox_file",
                                      f"{rel}:{n.lineno}")
                    else:
                        rep.ok(f"{P}.R4", f"{rel}:{qn}", norm(n), "section reader inside rv.readers", nontrivial=False)
    rep.count("reader_construction_sites", n_sites, 1)          # at least the top-level reader inside read_sunvox_file
    # nested loads re-enter read_sunvox_file
    nested = [("MetaModule", "rv.modules.metamodule", "load_project"),
              ("Sampler", "rv.modules.sampler", "load_chunk"),
              ("Container", "rv.container", "clone"),
              ("Module", "rv.modules.module", "clone")]
    for cname, mod, meth in nested:
        ci = repo.cls(cname, module=mod)
        fn = repo.own_method(ci, meth)
        from .. import inline
        helpers = {c.func.attr for c in walk_no_nested(fn) if isinstance(c, ast.Call) and isinstance(c.func, ast.Attribute)
                   and norm(c.func.value) == "self" and c.func.attr in ci.methods and c.func.attr.startswith(("load_", "_"))}
        fn = inline.flatten(repo, ci, fn, also=helpers)
        calls = [norm(c.func) for c in walk_no_nested(fn) if isinstance(c, ast.Call)]
        rep.func(f"{mod}.{cname}.{meth}")
        if "read_sunvox_file" in calls:
            imp = ci.file.imports.get("read_sunvox_file")
            if imp is None:
                # the call may sit in an inherited private helper that was read through: the name is resolved in that class's module
                try:
                    for k_ in repo.mro(ci)[1:]:
                        if k_.file.imports.get("read_sunvox_file"):
                            imp = k_.file.imports.get("read_sunvox_file")
                            break
                except Exception:
                    pass
            if imp and imp[0] == "rv.readers.reader":
                rep.ok(f"{P}.R4", f"{ci.file.rel}:{cname}.{meth}", "read_sunvox_file(...)", "nested load re-enters the guarded entry")
            elif imp is None:
                rep.inconclusive(f"{P}.R4", f"{ci.file.rel}:{cname}.{meth}", "read_sunvox_file(...)", "where the name read_sunvox_file is imported from was not found",
                                 f"{ci.file.rel}:{fn.lineno}")
            else:
                rep.violation(f"{P}.R4", f"{ci.file.rel}:{cname}.{meth}", f"read_sunvox_file imported from {imp}",
                              "nested load calls a different read_sunvox_file", f"{ci.file.rel}:{fn.lineno}")
        else:
            loads = [c for c in calls if c.split(".")[-1] in readers or "chunks" == c.split(".")[-1]]
            # Synth(self).clone(): the container's own clone (checked in this same list) does the nested load
            cont = repo.cls("Container", module="rv.container")
            delegated = []
            for c in walk_no_nested(fn):
                if isinstance(c, ast.Call) and isinstance(c.func, ast.Attribute) and c.func.attr == "clone" and isinstance(c.func.value, ast.Call) \
                        and isinstance(c.func.value.func, ast.Name):
                    try:
                        k = repo.cls(c.func.value.func.id)
                        r_ = repo.lookup(k, "clone")
                        if cont in repo.mro(k) and r_ is not None and r_[0] is cont:
                            delegated.append(norm(c))
                    except Exception:
                        pass
            if delegated and not loads:
                rep.ok(f"{P}.R4", f"{ci.file.rel}:{cname}.{meth}", delegated[0], "delegates to Container.clone, which re-enters the guarded entry")
            elif loads:
                rep.violation(f"{P}.R4", f"{ci.file.rel}:{cname}.{meth}", ", ".join(loads),
                              "nested load does not go through read_sunvox_file", f"{ci.file.rel}:{fn.lineno}")
            else:
                rep.inconclusive(f"{P}.R4", f"{ci.file.rel}:{cname}.{meth}", ", ".join(calls)[:120],
                                 "expected a nested load through read_sunvox_file here", f"{ci.file.rel}:{fn.lineno}")
    # api re-export is the same function
    api = repo.module("rv.api")
    imp = api.imports.get("read_sunvox_file")
    if imp and imp[0] == "rv.readers.reader":
        rep.ok(f"{P}.R4", f"{api.rel}:<module>", "from rv.readers.reader import read_sunvox_file", nontrivial=False)
    else:
        rep.violation(f"{P}.R4", f"{api.rel}:<module>", f"read_sunvox_file -> {imp}",
                      "the public read_sunvox_file is not the guarded function", f"{api.rel}:1")


# -------------------------------------------------------------------------------------- R5
def open_rule(repo: Repo, rep, P: str):
    n = 0
    for rel, sf in sorted(repo.files.items()):
        if not sf.modname.startswith("rv") or sf.modname.startswith("rv.tools") or sf.modname.startswith("rv._vendor"):
            continue
        if sf.modname == "rv.readers.reader":
            continue  # decided by the typestate rule
        with_items = set()
        for node in ast.walk(sf.tree):
            if isinstance(node, (ast.With, ast.AsyncWith)):
                for it in node.items:
                    for sub in ast.walk(it.context_expr):
                        with_items.add(id(sub))
        for node in ast.walk(sf.tree):
            if isinstance(node, ast.Call):
                f = norm(node.func)
                if f == "open" or (f.endswith(".open") and not f.startswith("webbrowser")):
                    n += 1
                    if id(node) in with_items:
                        rep.ok(f"{P}.R5", f"{rel}", norm(node), "with-item")
                    else:
                        rep.violation(f"{P}.R5", f"{rel}", norm(node),
                                      "file opened outside a with statement in library code", f"{rel}:{node.lineno}")
    rep.count("other_open_sites", n, 1)
