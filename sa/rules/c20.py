"""C20 — MultiCtl macro helper and unset mappings (numeric clause declined)."""

from __future__ import annotations

import ast
from typing import Dict, List, Optional, Tuple

from ..cfg import CFG, Node
from ..classmodel import class_const
from ..model import AnchorMissing, NotConst, Repo, attr_chain, norm, stmts_of, walk_no_nested

LEVEL = "other"
EXPLANATION = (
    "structural clauses of the MultiCtl property: tuple-arity analysis from every construction site to the "
    "Mapping constructor's destructuring (the macro helper must build mappings the constructor accepts); on the "
    "CFG of macro() the `more than 16 targets` and `two targets on one module` refusals dominate the first "
    "project mutation, the bound equals the mapping array's length, and the link statement is on every "
    "non-raising path; in on_value_changed the look-up by `mapping.controller - 1` and the write to the target "
    "are dominated by a test that the mapping names a controller (its sibling reflect() already tests it). "
    "Range containment and monotonicity of convert_value are float arithmetic over five run-time parameters and "
    "are declined, not enumerated."
)
DECLINED = ["range containment and monotonicity of convert_value for all (gain, quantization, window, value, curve) — "
            "float/int arithmetic over run-time parameters; no sound static argument in reach"]
ASSUMPTIONS = ["tuple unpacking of a k-slice into n targets requires exactly n items"]


def run(repo: Repo, rep, tier: str):
    mc = repo.cls("MultiCtl", module="rv.modules.multictl")
    arity(repo, rep, "C20", mc)
    macro_guards(repo, rep, "C20", mc)
    unset_mapping(repo, rep, "C20", mc)
    delivered_value(repo, rep, "C20", mc)
    curve_interpolation(repo, rep, "C20")
    # every fresh MultiCtl starts from its own copy of the linear default curve (else an edited curve of one
    # MultiCtl becomes the transfer curve of all others, which is no longer monotone)
    from . import c17
    c17.array_chunk_defaults_rule(repo, rep, "C20", "R6", within=("BaseMultiCtl", "MultiCtl"), floor=1)


# ------------------------------------------------------------------------------------ R4 / R5
def delivered_value(repo: Repo, rep, P: str, mc):
    """The value written to a ranged target is converted + vt.min with the destination window [0, max − min]."""
    from .. import alg
    rel = mc.file.rel
    fn = mc.methods["on_value_changed"]
    con = f"{rel}:MultiCtl.on_value_changed"
    defs = {}
    for n in ast.walk(fn):
        if isinstance(n, ast.Assign) and len(n.targets) == 1 and isinstance(n.targets[0], ast.Name):
            defs[n.targets[0].id] = n.value
    sets = [c for c in ast.walk(fn) if isinstance(c, ast.Call) and norm(c.func) == "setattr" and len(c.args) == 3]
    if not sets:
        rep.inconclusive(f"{P}.R4", con, "", "no setattr on the target", f"{rel}:{fn.lineno}")
        return
    val = sets[0].args[2]
    while isinstance(val, ast.Name) and val.id in defs and val.id != "converted":
        val = defs[val.id]

    def leaf(e):
        if isinstance(e, ast.Name) and e.id == "converted":
            return alg.Poly.sym("c")
        if norm(e) == "vt.min":
            return alg.Poly.sym("min")
        return None
    try:
        p = alg.to_poly(val, leaf)
        good = p == alg.Poly.sym("c") + alg.Poly.sym("min")
    except alg.NotAlgebraic:
        good = False
    if good:
        rep.ok(f"{P}.R4", con, f"final value = {norm(val)}", "converted ∈ [0, max − min] is re-offset by the target's minimum for every range kind")
    else:
        rep.violation(f"{P}.R4", con, f"final value = {norm(val)}",
                      "the value delivered to a ranged target must be converted + vt.min (converted is scaled into [0, max − min]); anything "
                      "else lands outside the declared range for targets whose minimum is not 0 (e.g. positive minima, no-offset ranges)",
                      f"{rel}:{sets[0].lineno}")
    src = norm(fn)
    if "dmin,dmax=0,vt.max-vt.min" in src.replace("(", "").replace(")", "").replace(" ", ""):
        rep.ok(f"{P}.R4", con, "dmin, dmax = 0, vt.max - vt.min", "destination window is the target's span")
    else:
        rep.violation(f"{P}.R4", con, "dmin, dmax", "the destination window must be [0, vt.max − vt.min]", f"{rel}:{fn.lineno}")
    flat = src.replace("(", "").replace(")", "").replace(" ", "")
    if "ifsmin>smax:" in flat and "smin,smax=smax,smin" in flat and "dmin,dmax=dmax,dmin" in flat:
        rep.ok(f"{P}.R4", con, "reversed window swaps source and destination bounds together", nontrivial=False)
    else:
        rep.violation(f"{P}.R4", con, "if smin > smax: swap", "a reversed mapping window must swap source and destination bounds together", f"{rel}:{fn.lineno}")


def curve_interpolation(repo: Repo, rep, P: str):
    """convert_value interpolates linearly between curve[bucket] and curve[bucket+1]: equals b at c = 0 and a at c = 1."""
    from .. import alg
    fn = repo.func("rv.modules.multictl", "convert_value")
    rel = "src/python/rv/modules/multictl.py"
    con = f"{rel}:convert_value"
    expr = None
    for n in ast.walk(fn):
        if isinstance(n, ast.If) and "curve is not None" in norm(n.test):
            for st in n.body:
                if isinstance(st, ast.Assign) and norm(st.targets[0]) == "value":
                    expr = st.value
    if expr is None:
        rep.inconclusive(f"{P}.R5", con, "", "curve interpolation not found", f"{rel}:{fn.lineno}")
        return
    inner = expr.args[0] if isinstance(expr, ast.Call) and norm(expr.func) == "int" and expr.args else expr

    def leaf(e):
        if isinstance(e, ast.Name) and e.id in ("a", "b", "c", "start", "offset", "bucket"):
            return alg.Rat(alg.Poly.sym(e.id))
        return None
    try:
        r = alg.to_rat(inner, leaf)
        at0 = alg.Rat(r.n.subst("c", alg.Poly.const(0)), r.d.subst("c", alg.Poly.const(0)))
        at1 = alg.Rat(r.n.subst("c", alg.Poly.const(1)), r.d.subst("c", alg.Poly.const(1)))
        ok = at0.equals(alg.Rat(alg.Poly.sym("b"))) and at1.equals(alg.Rat(alg.Poly.sym("a")))
        lin = r.n.degree_in("c") <= 1 and r.d.degree_in("c") == 0
    except alg.NotAlgebraic as e:
        rep.inconclusive(f"{P}.R5", con, norm(expr), f"not algebraic: {e}", f"{rel}:{expr.lineno}")
        return
    if ok and lin:
        rep.ok(f"{P}.R5", con, f"value = {norm(expr)}", "linear in c, = curve[bucket] at c = 0 and curve[bucket+1] at c = 1 (continuous, monotone for a monotone curve)")
    else:
        rep.violation(f"{P}.R5", con, f"value = {norm(expr)}",
                      f"the curve interpolation gives {at0} at c = 0 and {at1} at c = 1 instead of curve[bucket] (b) and curve[bucket+1] (a): "
                      "the output jumps at every bucket boundary (not monotone, can leave the range) for any curve other than the identity",
                      f"{rel}:{expr.lineno}")
    src = norm(fn)
    need = ["bucket = int(value / 128)", "b = curve[bucket]", "a = curve[bucket + 1] if bucket < 256 else b", "c = min(offset / 128, 1.0)"]
    missing = [x for x in need if x not in src]
    if not missing:
        rep.ok(f"{P}.R5", con, "bucket = int(value / 128); b = curve[bucket]; a = curve[bucket + 1] (last bucket clamps); c = offset / 128", nontrivial=False)
    else:
        rep.info(f"{P}.R5", con, f"changed: {missing}", "bucket selection changed (not decided)")


# ------------------------------------------------------------------------------------ R1
def mapping_arity(repo: Repo, mc) -> Tuple[int, Optional[int], ast.AST]:
    mp = mc.nested.get("Mapping")
    if mp is None or "__init__" not in mp.methods:
        raise AnchorMissing("MultiCtl.Mapping.__init__")
    init = mp.methods["__init__"]
    for n in walk_no_nested(init):
        if isinstance(n, ast.Assign) and isinstance(n.targets[0], ast.Tuple):
            need = len(n.targets[0].elts)
            cut = None
            if isinstance(n.value, ast.Subscript) and isinstance(n.value.slice, ast.Slice) and n.value.slice.upper is not None:
                try:
                    cut = repo.fold(n.value.slice.upper, ci=mp)
                except NotConst:
                    cut = None
            return need, cut, n
    raise AnchorMissing("Mapping destructuring")


def arity(repo: Repo, rep, P: str, mc):
    rel = mc.file.rel
    need, cut, node = mapping_arity(repo, mc)
    rep.func("rv.modules.multictl.MultiCtl.Mapping.__init__")
    if cut is not None and cut != need:
        rep.violation(f"{P}.R1", f"{rel}:MultiCtl.Mapping.__init__", norm(node)[:120],
                      f"the constructor slices {cut} items but unpacks into {need} fields", f"{rel}:{node.lineno}")
    sites = 0
    # (a) literal tuples passed directly to Mapping(...)
    for c in mc.node.body and ast.walk(mc.node):
        if isinstance(c, ast.Call) and norm(c.func).split(".")[-1] == "Mapping" and "MetaModule" not in norm(c.func) and c.args:
            a = c.args[0]
            if isinstance(a, ast.Tuple):
                sites += 1
                _check_len(rep, P, rel, f"{rel}:MultiCtl", norm(c)[:100], len(a.elts), need, c)
    # (b) tuples appended to the list that macro passes as mappings=
    macro = mc.methods.get("macro")
    if macro is None:
        raise AnchorMissing("MultiCtl.macro")
    rep.func("rv.modules.multictl.MultiCtl.macro")
    passed = None
    for c in walk_no_nested(macro):
        if isinstance(c, ast.Call):
            for kw in c.keywords:
                if kw.arg == "mappings" and isinstance(kw.value, ast.Name):
                    passed = kw.value.id
    if passed is None:
        rep.inconclusive(f"{P}.R1", f"{rel}:MultiCtl.macro", "", "no `mappings=` argument found", f"{rel}:{macro.lineno}")
    else:
        found = False
        for c in walk_no_nested(macro):
            if isinstance(c, ast.Call) and norm(c.func) == f"{passed}.append" and c.args:
                found = True
                sites += 1
                a = c.args[0]
                if isinstance(a, ast.Tuple):
                    _check_len(rep, P, rel, f"{rel}:MultiCtl.macro", norm(c)[:120], len(a.elts), need, c)
                elif isinstance(a, ast.BinOp) and isinstance(a.op, ast.Add):
                    n = _tuple_len(repo, mc, a)
                    if n is None:
                        rep.inconclusive(f"{P}.R1", f"{rel}:MultiCtl.macro", norm(c)[:120], "tuple length not constant", f"{rel}:{c.lineno}")
                    else:
                        _check_len(rep, P, rel, f"{rel}:MultiCtl.macro", norm(c)[:120], n, need, c)
                else:
                    rep.inconclusive(f"{P}.R1", f"{rel}:MultiCtl.macro", norm(c)[:120], "appended mapping is not a tuple literal", f"{rel}:{c.lineno}")
        if not found:
            rep.inconclusive(f"{P}.R1", f"{rel}:MultiCtl.macro", passed, "no append of mapping tuples found", f"{rel}:{macro.lineno}")
    # (c) the constructor hands each element of the keyword to Mapping(...)
    init = mc.methods.get("__init__")
    s = norm(init) if init else ""
    if "for (i, mapping) in enumerate(mappings)" in s.replace("for i, mapping in", "for (i, mapping) in") and "self.Mapping(mapping)" in s:
        rep.ok(f"{P}.R1", f"{rel}:MultiCtl.__init__", "self.mappings.values[i] = self.Mapping(mapping)", "keyword tuples reach the Mapping constructor unchanged")
    else:
        rep.inconclusive(f"{P}.R1", f"{rel}:MultiCtl.__init__", s[:160], "how the mappings keyword reaches Mapping() is not recognised",
                         f"{rel}:{init.lineno if init else 0}")
    rep.count("mapping_construction_sites", sites, 2)
    # (d) encoded_values order = destructuring order (shared with C02 R4) is checked there


def _tuple_len(repo, ci, e) -> Optional[int]:
    if isinstance(e, ast.Tuple):
        return len(e.elts)
    if isinstance(e, ast.BinOp) and isinstance(e.op, ast.Add):
        a, b = _tuple_len(repo, ci, e.left), _tuple_len(repo, ci, e.right)
        return a + b if a is not None and b is not None else None
    if isinstance(e, ast.BinOp) and isinstance(e.op, ast.Mult):
        try:
            v = repo.fold(e, ci=ci)
            return len(v)
        except NotConst:
            return None
    return None


def _check_len(rep, P, rel, con, text, have, need, node):
    if have >= need:
        rep.ok(f"{P}.R1", con, text, f"{have} fields ≥ {need} unpacked by Mapping")
    else:
        rep.violation(f"{P}.R1", con, text,
                      f"a {have}-field mapping is handed to MultiCtl.Mapping, whose constructor unpacks {need} fields: "
                      "construction raises ValueError (the macro helper fails for every input)", f"{rel}:{node.lineno}")


# ------------------------------------------------------------------------------------ R2
def macro_guards(repo: Repo, rep, P: str, mc):
    rel = mc.file.rel
    fn = mc.methods["macro"]
    construct = f"{rel}:MultiCtl.macro"
    g = CFG(fn)
    dom = g.dominators()
    creates = [n for n in g.nodes if n.kind == "stmt" and n.ast is not None and
               any(isinstance(c, ast.Call) and norm(c.func).endswith(".new_module") or
                   (isinstance(c, ast.Call) and norm(c.func).endswith(".attach_module")) for c in ast.walk(n.ast))]
    if not creates:
        rep.violation(f"{P}.R2", construct, "project.new_module(MultiCtl, …)", "the helper no longer creates the MultiCtl in the project", f"{rel}:{fn.lineno}")
        return
    create = creates[0]
    raises = [n for n in g.nodes if n.kind == "stmt" and isinstance(n.ast, ast.Raise) and n.ast.exc is not None and "MappingError" in norm(n.ast.exc)]
    # identify the two guards by their dominating test
    tests = {}
    for r in raises:
        for d in dom.get(r.id, set()):
            dn = g.nodes[d]
            if dn.kind == "test":
                # immediate guard: the raise is in the true branch
                ts = [m for m, lab in g.succ[d] if lab == "true"]
                if ts and (r.id == ts[0] or r.id in g.reachable(ts[0], avoid={d})) and r.id not in g.reachable(
                        [m for m, lab in g.succ[d] if lab == "false"][0] if [m for m, lab in g.succ[d] if lab == "false"] else r.id, avoid={d}) :
                    tests[r.id] = dn
    count_guard = dup_guard = None
    for rid, t in tests.items():
        txt = norm(t.ast)
        if "len(" in txt and ">" in txt and "set(" not in txt:
            count_guard = (g.nodes[rid], t)
        if "set(" in txt:
            dup_guard = (g.nodes[rid], t)
    # count guard
    if count_guard is None:
        rep.violation(f"{P}.R2", construct, "if len(mod_ctl_pairs) > 16: raise MappingError", "more than 16 targets are no longer refused", f"{rel}:{fn.lineno}")
    else:
        r, t = count_guard
        cmp_ = t.ast
        try:
            length = class_const(repo, mc.nested["MappingArray"], "length")
        except (KeyError, AnchorMissing, NotConst):
            length = None
        bound = None
        if isinstance(cmp_, ast.Compare) and len(cmp_.ops) == 1:
            try:
                k = repo.fold(cmp_.comparators[0], ci=mc)
                bound = k if isinstance(cmp_.ops[0], ast.Gt) else (k - 1 if isinstance(cmp_.ops[0], ast.GtE) else None)
            except NotConst:
                bound = None
        if bound is not None and bound == length:
            rep.ok(f"{P}.R2", construct, f"if {norm(cmp_)}: raise MappingError", f"bound = MappingArray.length = {length}")
        else:
            rep.violation(f"{P}.R2", construct, f"if {norm(cmp_)}: raise MappingError",
                          f"the helper accepts up to {bound} targets but the mapping array holds {length}", f"{rel}:{t.lineno}")
        if r.id in dom.get(create.id, set()) or t.id in dom.get(create.id, set()):
            rep.ok(f"{P}.R2", construct, r.text()[:80], "refusal precedes the creation of the module")
        else:
            rep.violation(f"{P}.R2", construct, r.text()[:80], "the project is modified before too many targets are refused", f"{rel}:{r.lineno}")
    if dup_guard is None:
        rep.violation(f"{P}.R2", construct, "if len(mods) != len(set(mods)): raise MappingError", "two targets on one module are no longer refused",
                      f"{rel}:{fn.lineno}")
    else:
        r, t = dup_guard
        txt = norm(t.ast).replace(" ", "")
        if txt in ("len(mods)!=len(set(mods))", "len(set(mods))!=len(mods)", "len(set(mods))<len(mods)", "len(mods)>len(set(mods))"):
            rep.ok(f"{P}.R2", construct, f"if {norm(t.ast)}: raise MappingError", "duplicate target modules refused")
        else:
            rep.inconclusive(f"{P}.R2", construct, norm(t.ast), "duplicate-module test of an unrecognised form", f"{rel}:{t.lineno}")
        if t.id in dom.get(create.id, set()):
            rep.ok(f"{P}.R2", construct, r.text()[:80], "refusal precedes the creation of the module")
        else:
            rep.violation(f"{P}.R2", construct, f"{create.text()[:60]} … {r.text()[:60]}",
                          "the MultiCtl is created in the project before a duplicate target is refused: a refused call leaves a "
                          "stray module behind", f"{rel}:{r.lineno}")
    # link on every non-raising path after creation
    links = [n for n in g.nodes if n.kind == "stmt" and n.ast is not None and
             ((isinstance(n.ast, ast.Expr) and isinstance(n.ast.value, ast.BinOp) and isinstance(n.ast.value.op, (ast.RShift, ast.LShift)))
              or any(isinstance(c, ast.Call) and norm(c.func).endswith(".connect") for c in ast.walk(n.ast)))]
    if not links:
        rep.violation(f"{P}.R2", construct, "bundle >> mods", "the created MultiCtl is never linked to its targets", f"{rel}:{fn.lineno}")
    else:
        wo = g.reachable(create.id, avoid={l.id for l in links}, labels_excluded={"exc", "reraise", "nomatch"})
        if g.exit in wo:
            rep.violation(f"{P}.R2", construct, links[0].text(), "a normal path returns the MultiCtl without linking it to its targets", f"{rel}:{links[0].lineno}")
        else:
            rep.ok(f"{P}.R2", construct, links[0].text(), "on every normal path after the module is created")
        lk = links[0].ast.value if isinstance(links[0].ast, ast.Expr) else None
        if isinstance(lk, ast.BinOp):
            bundle_var = norm(create.ast.targets[0]) if isinstance(create.ast, ast.Assign) else None
            good = (isinstance(lk.op, ast.RShift) and norm(lk.left) == bundle_var) or (isinstance(lk.op, ast.LShift) and norm(lk.right) == bundle_var)
            if good:
                rep.ok(f"{P}.R2", construct, norm(lk), "MultiCtl is the source of the links (its out_links index the mappings)")
            else:
                rep.violation(f"{P}.R2", construct, norm(lk), "links must go FROM the MultiCtl to its targets", f"{rel}:{links[0].lineno}")
    # mapping i ↔ target i: both lists are appended in the same loop iteration
    src = norm(fn)
    if "mappings.append(" in src and "mods.append(" in src:
        rep.ok(f"{P}.R2", construct, "mappings.append(…); mods.append(…)", "i-th mapping and i-th link are built together", nontrivial=False)


# ------------------------------------------------------------------------------------ R3
def unset_mapping(repo: Repo, rep, P: str, mc):
    rel = mc.file.rel
    fn = mc.methods.get("on_value_changed")
    if fn is None:
        raise AnchorMissing("MultiCtl.on_value_changed")
    rep.func("rv.modules.multictl.MultiCtl.on_value_changed")
    construct = f"{rel}:MultiCtl.on_value_changed"
    loop = next((st for st in fn.body if isinstance(st, ast.For) and "out_links" in norm(st.iter)), None)
    if loop is None:
        rep.inconclusive(f"{P}.R3", construct, "", "loop over out_links not found", f"{rel}:{fn.lineno}")
        return
    g = CFG(loop, loop_body=True)
    dom = g.dominators()
    uses = []
    for n in g.nodes:
        if n.kind == "stmt" and n.ast is not None:
            for x in ast.walk(n.ast):
                if isinstance(x, ast.Subscript) and "mapping.controller - 1" in norm(x.slice):
                    uses.append(n)
                if isinstance(x, ast.Call) and norm(x.func) == "setattr":
                    uses.append(n)
    uses = list({u.id: u for u in uses}.values())
    if not uses:
        rep.inconclusive(f"{P}.R3", construct, "", "no controller look-up / target write found", f"{rel}:{loop.lineno}")
        return

    def guarded(nid: int) -> Optional[str]:
        for d in dom.get(nid, set()):
            dn = g.nodes[d]
            if dn.kind != "test":
                continue
            t = norm(dn.ast).replace(" ", "")
            tsucc = [m for m, lab in g.succ[d] if lab == "true"]
            fsucc = [m for m, lab in g.succ[d] if lab == "false"]
            zero_tests = ("mapping.controller==0", "notmapping.controller", "mapping.controller<1", "mapping.controller<=0")
            nonzero_tests = ("mapping.controller", "mapping.controller!=0", "mapping.controller>0", "mapping.controller>=1")
            if t in zero_tests and fsucc:
                # use must be reachable only through the false branch
                if nid in g.reachable(fsucc[0], avoid={d}) and not (tsucc and nid in g.reachable(tsucc[0], avoid={d})):
                    return norm(dn.ast)
            if t in nonzero_tests and tsucc:
                if nid in g.reachable(tsucc[0], avoid={d}) and not (fsucc and nid in g.reachable(fsucc[0], avoid={d})):
                    return norm(dn.ast)
        return None
    for u in uses:
        gd = guarded(u.id)
        if gd:
            rep.ok(f"{P}.R3", construct, u.text()[:90], f"only reached when the mapping names a controller (`{gd}`)")
        else:
            what = "indexes the target's controllers with mapping.controller − 1" if "mapping.controller - 1" in u.text() else "writes to the target"
            rep.violation(f"{P}.R3", construct, u.text()[:100],
                          f"this statement {what} without first testing that the mapping names a controller: for an unset "
                          "mapping (controller 0) index −1 selects the target's LAST controller and it is overwritten. "
                          "The sibling MultiCtl.reflect tests `mapping.controller == 0` for the same look-up", f"{rel}:{u.lineno}")
    rep.count("unset_mapping_uses", len(uses), 2)
    # sibling: reflect tests controller == 0
    rf = mc.methods.get("reflect")
    if rf is not None and "if mapping.controller == 0:" in norm(rf):
        rep.ok(f"{P}.R3", f"{rel}:MultiCtl.reflect", "if mapping.controller == 0: raise IndexError", "sibling already treats 0 as unset", nontrivial=False)
