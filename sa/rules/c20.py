"""C20 — MultiCtl macro helper and unset mappings (numeric clause declined)."""

from __future__ import annotations

import ast
from typing import Dict, List, Optional, Tuple

from ..cfg import CFG, Node
from ..classmodel import class_const
from ..model import AnchorMissing, NotConst, Repo, attr_chain, norm, stmts_of, walk_no_nested

LEVEL = "other"
EXPLANATION = (
    "structural clauses of the MultiCtl property: tuple-arity analysis from every construction site to the "
    "Mapping constructor's destructuring (the macro helper must build mappings the constructor accepts); on the "
    "CFG of macro() the `more than 16 targets` and `two targets on one module` refusals dominate the first "
    "project mutation, the bound equals the mapping array's length, and the link statement is on every "
    "non-raising path; in on_value_changed the look-up by `mapping.controller - 1` and the write to the target "
    "are dominated by a test that the mapping names a controller (its sibling reflect() already tests it). "
    "Range containment and monotonicity of convert_value are float arithmetic over five run-time parameters and "
    "are declined, not enumerated."
)
DECLINED = ["range containment and monotonicity of convert_value for all (gain, quantization, window, value, curve) — "
            "float/int arithmetic over run-time parameters; no sound static argument in reach"]
ASSUMPTIONS = ["tuple unpacking of a k-slice into n targets requires exactly n items"]


def run(repo: Repo, rep, tier: str):
    mc = repo.cls("MultiCtl", module="rv.modules.multictl")
    arity(repo, rep, "C20", mc)
    macro_guards(repo, rep, "C20", mc)
    unset_mapping(repo, rep, "C20", mc)
    delivered_value(repo, rep, "C20", mc)
    curve_interpolation(repo, rep, "C20")
    # every fresh MultiCtl starts from its own copy of the linear default curve (else an edited curve of one
    # MultiCtl becomes the transfer curve of all others, which is no longer monotone)
    from . import c17
    c17.array_chunk_defaults_rule(repo, rep, "C20", "R6", within=("BaseMultiCtl", "MultiCtl"), floor=1)


# ------------------------------------------------------------------------------------ R4 / R5
def delivered_value(repo: Repo, rep, P: str, mc):
    """The value written to a ranged target is converted + vt.min with the destination window [0, max − min]; a reversed source
    window (min > max) swaps source and destination bounds together.  Every path of on_value_changed to the delivery is replayed
    with the locals as polynomials over mapping.min/max and the target type's min/max."""
    from .. import alg, inline
    rel = mc.file.rel
    fn0 = mc.methods["on_value_changed"]
    con = f"{rel}:MultiCtl.on_value_changed"
    fn = inline.split_ifexp_assigns(inline.normalize(repo, mc, fn0))
    g = CFG(fn)
    deliveries = [n for n in g.nodes if n.kind == "stmt" and n.ast is not None and
                  any(isinstance(c, ast.Call) and norm(c.func) == "setattr" and len(c.args) == 3 for c in ast.walk(n.ast))]
    if len(deliveries) != 1:
        rep.inconclusive(f"{P}.R4", con, "", f"{len(deliveries)} setattr deliveries on the target", f"{rel}:{fn0.lineno}")
        return
    dnode = deliveries[0]
    paths = g.paths(g.entry, [dnode.id], max_visits=1, limit=4000, labels_excluded=("exc",))
    if not paths:
        rep.inconclusive(f"{P}.R4", con, "", "no path to the delivery / too many paths", f"{rel}:{fn0.lineno}")
        return

    class Undecided(Exception):
        pass
    results = []          # (reversed?, smin, smax, dmin, dmax, delivered − CONV, type text)
    all_vmax: List[list] = []
    starred_calls: List[str] = []
    for path in paths:
        alias: Dict[str, ast.expr] = {}
        env: Dict[str, alg.Poly] = {}
        flags: Dict[str, Tuple[alg.Poly, str]] = {}
        conv_args: List[List[alg.Poly]] = []
        vmax_seen: List[list] = all_vmax
        reversed_fact: Optional[bool] = None
        infeasible = False

        def canon(e: ast.expr) -> str:
            class S(ast.NodeTransformer):
                def visit_Name(self, node):
                    if node.id in alias:
                        return self.visit(ast.parse(norm(alias[node.id]), mode="eval").body)
                    return node
            try:
                return norm(S().visit(ast.parse(norm(e), mode="eval").body))
            except SyntaxError:          # a starred argument: not an expression on its own
                return norm(e)

        def leaf(e):
            if isinstance(e, ast.Name) and e.id in env:
                return env[e.id]
            if isinstance(e, ast.Attribute) and e.attr in ("min", "max"):
                return alg.Poly.sym(f"{e.attr}<{canon(e.value)}>")
            if isinstance(e, ast.Call) and norm(e.func).split(".")[-1] == "convert_value":
                if any(isinstance(a, ast.Starred) for a in e.args) or any(k.arg is None for k in e.keywords):
                    starred_calls.append(norm(e)[:120])          # argument positions are not readable from the call
                got = []
                for a in e.args[:6]:
                    try:
                        got.append(alg.to_poly(a, leaf))
                    except alg.NotAlgebraic:
                        got.append(alg.Poly.sym(f"opaque<{canon(a)}>"))
                conv_args.append(got)
                # the scaling divisor: None (compact ranges) or the target's span, for every range kind
                vm = e.args[6] if len(e.args) > 6 else next((k.value for k in e.keywords if k.arg == "vmax"), None)
                if vm is not None:
                    vmax_seen.append(vmax_cases(vm))
                return alg.Poly.sym("CONV")
            return None

        def vmax_cases(x: ast.expr, depth: int = 0):
            """[('none' | 'poly' | '?', value, text)] for every case of the divisor expression."""
            while isinstance(x, ast.Name) and x.id in alias and depth < 6:
                x = alias[x.id]
                depth += 1
            if isinstance(x, ast.IfExp):
                return vmax_cases(x.body, depth + 1) + vmax_cases(x.orelse, depth + 1)
            if isinstance(x, ast.Constant) and x.value is None:
                return [("none", None, "None")]
            if isinstance(x, ast.Call) and isinstance(x.func, ast.Attribute) and len(x.args) == 1 and "value_type" in canon(x.func.value):
                rng = repo.cls("Range", module="rv.controller")
                m = rng.methods.get(x.func.attr)
                body = inline.as_expression(inline.normalize(repo, rng, m)) if m is not None else None
                mp = [a.arg for a in m.args.args if a.arg != "self"] if m is not None else []
                if body is not None and mp:
                    sub = inline._Rename({"self": x.func.value, mp[0]: x.args[0]}).visit(body)
                    out = []

                    def spread(y, cond):
                        if isinstance(y, ast.IfExp):
                            spread(y.body, cond + [norm(y.test)])
                            spread(y.orelse, cond + ["not (" + norm(y.test) + ")"])
                        else:
                            try:
                                out.append(("poly", alg.to_poly(y, leaf), f"{norm(x)} when {' and '.join(cond) or 'always'}"))
                            except alg.NotAlgebraic:
                                out.append(("?", None, norm(y)))
                    spread(sub, [])
                    return out
                return [("?", None, norm(x))]
            try:
                return [("poly", alg.to_poly(x, leaf), norm(x))]
            except alg.NotAlgebraic:
                return [("?", None, norm(x))]

        def compare(t: ast.expr):
            """(left − right, op name) for a two-sided ordering test, None otherwise."""
            if isinstance(t, ast.Compare) and len(t.ops) == 1 and isinstance(t.ops[0], (ast.Gt, ast.Lt, ast.GtE, ast.LtE)):
                try:
                    return alg.to_poly(t.left, leaf) - alg.to_poly(t.comparators[0], leaf), type(t.ops[0]).__name__
                except alg.NotAlgebraic:
                    return None
            return None

        def assign(t, v):
            if isinstance(t, ast.Name):
                env.pop(t.id, None)
                alias.pop(t.id, None)
                flags.pop(t.id, None)
                c = compare(v)
                if c is not None:
                    flags[t.id] = c
                    return
                try:
                    env[t.id] = alg.to_poly(v, leaf)
                except alg.NotAlgebraic:
                    alias[t.id] = ast.parse(canon(v), mode="eval").body
        delivered = None
        for nid, lab in path + [(dnode.id, "")]:
            n = g.nodes[nid]
            if n.kind == "test":
                t = n.ast
                neg = False
                while isinstance(t, ast.UnaryOp) and isinstance(t.op, ast.Not):
                    t, neg = t.operand, not neg
                c = flags.get(t.id) if isinstance(t, ast.Name) else compare(t)
                if c is not None:
                    d, op = c
                    mm = [x for x in d.symbols() if x.startswith(("min<", "max<"))]
                    # a test between the two bounds of the source window: min<M> − max<M> with op Gt  ⇔ reversed
                    if len(mm) == 2 and d.is_const() is False:
                        smin_sym = next((x for x in mm if x.startswith("min<")), None)
                        smax_sym = next((x for x in mm if x.startswith("max<")), None)
                        if smin_sym and smax_sym and smin_sym[4:] == smax_sym[4:] and "value_type" not in smin_sym:
                            if d == alg.Poly.sym(smin_sym) - alg.Poly.sym(smax_sym):
                                holds = {"Gt": True, "GtE": None, "Lt": False, "LtE": False}[op]
                            elif d == alg.Poly.sym(smax_sym) - alg.Poly.sym(smin_sym):
                                holds = {"Lt": True, "LtE": None, "Gt": False, "GtE": False}[op]
                            else:
                                holds = None
                            if holds is not None:
                                truth = (lab == "true") != neg
                                now = truth if holds else (not truth)
                                if reversed_fact is not None and reversed_fact != now:
                                    infeasible = True          # the same orientation test answered both ways
                                reversed_fact = now
                continue
            if n.kind != "stmt" or n.ast is None:
                continue
            st = n.ast
            if isinstance(st, ast.Assign) and len(st.targets) == 1:
                t, v = st.targets[0], st.value
                if isinstance(t, ast.Tuple) and isinstance(v, ast.Tuple) and len(t.elts) == len(v.elts):
                    snapshot = []
                    for x in v.elts:
                        try:
                            snapshot.append(alg.to_poly(x, leaf))
                        except alg.NotAlgebraic:
                            snapshot.append(None)
                    for tt, pv, x in zip(t.elts, snapshot, v.elts):
                        if isinstance(tt, ast.Name):
                            env.pop(tt.id, None)
                            alias.pop(tt.id, None)
                            if pv is not None:
                                env[tt.id] = pv
                            else:
                                alias[tt.id] = x
                else:
                    assign(t, v)
            if nid == dnode.id:
                call = next(c for c in ast.walk(st) if isinstance(c, ast.Call) and norm(c.func) == "setattr" and len(c.args) == 3)
                try:
                    delivered = alg.to_poly(call.args[2], leaf)
                except alg.NotAlgebraic:
                    delivered = None
                    # a method of the target's value type applied to the converted value: read through its definition in Range
                    dv = call.args[2]
                    while isinstance(dv, ast.Name) and dv.id in alias:
                        dv = alias[dv.id]
                    if isinstance(dv, ast.Call) and isinstance(dv.func, ast.Attribute) and len(dv.args) == 1 and "value_type" in canon(dv.func.value):
                        rng = repo.cls("Range", module="rv.controller")
                        m = rng.methods.get(dv.func.attr)
                        body = inline.as_expression(inline.normalize(repo, rng, m)) if m is not None else None
                        if body is not None:
                            mp = [a.arg for a in m.args.args if a.arg != "self"]
                            sub = inline._Rename({"self": dv.func.value, mp[0]: dv.args[0]}).visit(body) if mp else body
                            leaves = []

                            def spread(x):
                                if isinstance(x, ast.IfExp):
                                    spread(x.body)
                                    spread(x.orelse)
                                else:
                                    leaves.append(x)
                            spread(sub)
                            try:
                                vals = [alg.to_poly(x, leaf) for x in leaves]
                                delivered = ("cases", vals, norm(dv))
                            except alg.NotAlgebraic:
                                delivered = None
        if not infeasible:
            results.append((reversed_fact, conv_args[-1] if conv_args else None, delivered))
    where = f"{rel}:{dnode.lineno}"
    if starred_calls:
        rep.inconclusive(f"{P}.R4", con, starred_calls[0], "convert_value is called with star-unpacked arguments: window / divisor positions not derived", where)
        return
    # --- the scaling divisor handed to convert_value
    vm_bad, vm_unknown, vm_ok = None, None, False
    for cases in all_vmax:
        for kind, val, text in cases:
            if kind == "none":
                continue
            if kind == "?":
                vm_unknown = text
                continue
            syms = [x for x in val.symbols() if x.startswith("max<")]
            Ts = {x[4:-1] for x in syms}
            if len(Ts) == 1 and val == alg.Poly.sym(f"max<{next(iter(Ts))}>") - alg.Poly.sym(f"min<{next(iter(Ts))}>"):
                vm_ok = True
            else:
                vm_bad = (text, val)
    if vm_bad is not None:
        rep.violation(f"{P}.R4", con, f"vmax = {vm_bad[0]}"[:160],
                      f"the scaling divisor must be the target's span (vt.max − vt.min); here it is {vm_bad[1]}: for targets whose minimum is not "
                      "covered by that case (e.g. a positive minimum) the delivered value leaves the declared range", where)
    elif vm_unknown is not None:
        rep.inconclusive(f"{P}.R4", con, f"vmax = {vm_unknown}"[:160], "scaling divisor not recognised", where)
    elif vm_ok:
        rep.ok(f"{P}.R4", con, "vmax = vt.max - vt.min (None for compact ranges)", "scaling divisor is the target's span for every range kind")
    bad_final, bad_window, bad_swap, unknown = [], [], [], []
    seen_rev = {True: False, False: False}
    for rev, args, delivered in results:
        if delivered is None or not args or len(args) < 6:
            unknown.append("delivered value / convert_value arguments not polynomial")
            continue
        if isinstance(delivered, tuple):
            cases, text = delivered[1], delivered[2]
            offs = {repr(c - alg.Poly.sym("CONV")) for c in cases}
            if len(offs) != 1:
                bad_final.append(f"final value = {text}: depending on the range kind this is convert_value(…) + one of {sorted(offs)}")
                continue
            delivered = cases[0]
        off = delivered - alg.Poly.sym("CONV")
        syms = list(off.symbols())
        if not (len(syms) == 1 and syms[0].startswith("min<") and off == alg.Poly.sym(syms[0])):
            bad_final.append(f"final value = convert_value(…) + ({off})")
            continue
        T = syms[0][4:-1]
        span = alg.Poly.sym(f"max<{T}>") - alg.Poly.sym(f"min<{T}>")
        smin, smax, dmin, dmax = args[2], args[3], args[4], args[5]
        zero = alg.Poly.const(0)
        srcs = [x for x in (smin - smax).symbols()]
        if rev is None:
            unknown.append("no test of the source window's orientation on this path")
            continue
        seen_rev[rev] = True
        M = next((x[4:-1] for x in srcs if x.startswith("min<")), None)
        if M is None:
            unknown.append("source window not mapping.min / mapping.max")
            continue
        mn, mx = alg.Poly.sym(f"min<{M}>"), alg.Poly.sym(f"max<{M}>")
        if {repr(dmin), repr(dmax)} != {repr(zero), repr(span)}:
            bad_window.append(f"dmin, dmax = {dmin}, {dmax}")
            continue
        want = (mx, mn, span, zero) if rev else (mn, mx, zero, span)
        if (smin, smax, dmin, dmax) != want:
            bad_swap.append(f"{'reversed' if rev else 'forward'} window: smin, smax, dmin, dmax = {smin}, {smax}, {dmin}, {dmax}")
    if bad_final:
        rep.violation(f"{P}.R4", con, bad_final[0],
                      "the value delivered to a ranged target must be converted + vt.min (converted is scaled into [0, max − min]); anything "
                      "else lands outside the declared range for targets whose minimum is not 0 (e.g. positive minima, no-offset ranges)", where)
    elif not unknown:
        rep.ok(f"{P}.R4", con, "final value = converted + vt.min", "converted ∈ [0, max − min] is re-offset by the target's minimum for every range kind")
    if bad_window:
        rep.violation(f"{P}.R4", con, bad_window[0], "the destination window must be [0, vt.max − vt.min]", where)
    elif not unknown and not bad_final:
        rep.ok(f"{P}.R4", con, "dmin, dmax = 0, vt.max - vt.min", "destination window is the target's span")
    if bad_swap:
        rep.violation(f"{P}.R4", con, bad_swap[0], "a reversed mapping window must swap source and destination bounds together", where)
    elif not unknown and not bad_final and not bad_window:
        if seen_rev[True] and seen_rev[False]:
            rep.ok(f"{P}.R4", con, "reversed window swaps source and destination bounds together", nontrivial=False)
        else:
            rep.violation(f"{P}.R4", con, "if smin > smax: swap", "a reversed mapping window must swap source and destination bounds together "
                          "(no path distinguishes the reversed window)", where)
    if unknown and not (bad_final or bad_window or bad_swap):
        if all(u.startswith("no test") for u in unknown) and not any(r[0] is not None for r in results):
            rep.violation(f"{P}.R4", con, "if smin > smax: swap", "a reversed mapping window must swap source and destination bounds together "
                          "(the orientation of the source window is never tested)", where)
        else:
            rep.inconclusive(f"{P}.R4", con, "; ".join(sorted(set(unknown)))[:200], "delivery computation not recognised", where)


def curve_interpolation(repo: Repo, rep, P: str):
    """convert_value interpolates linearly between curve[bucket] and curve[bucket+1]: equals b at c = 0 and a at c = 1."""
    from .. import alg
    from .. import inline
    from ..packed import single_defs, resolve_names
    fn0 = repo.func("rv.modules.multictl", "convert_value")
    rel = "src/python/rv/modules/multictl.py"
    con = f"{rel}:convert_value"
    # helpers that hold a stage of the conversion are read as part of convert_value; one-use locals are written out
    fn = inline.normalize(repo, None, fn0, sf=repo.module("rv.modules.multictl"))
    cparam = fn.args.args[-1].arg if fn.args.args else "curve"
    for a_ in fn.args.args:
        if a_.arg == "curve":
            cparam = "curve"
    defs = single_defs(fn)

    def has_curve(e) -> bool:
        return any(isinstance(x, ast.Subscript) and norm(x.value) == cparam for x in ast.walk(e))
    cands = []
    for n in ast.walk(fn):
        if isinstance(n, (ast.Assign, ast.Return)) and n.value is not None:
            v = resolve_names(n.value, defs)
            for c in ast.walk(v):
                if isinstance(c, ast.Call) and norm(c.func) == "int" and len(c.args) == 1 and has_curve(c.args[0]) \
                        and isinstance(c.args[0], ast.BinOp):
                    cands.append((c.args[0], n))
            if isinstance(v, ast.BinOp) and has_curve(v):
                cands.append((v, n))
    if not cands:
        rep.inconclusive(f"{P}.R5", con, "", "curve interpolation not found", f"{rel}:{fn0.lineno}")
        return
    inner, host = cands[0]
    weights: set = set()
    knots: Dict[str, ast.expr] = {}

    def leaf(e):
        if isinstance(e, ast.IfExp) and isinstance(e.body, ast.Subscript) and norm(e.body.value) == cparam and has_curve(e.orelse):
            return leaf(e.body)              # `curve[k + 1] if k < last else curve[k]`: the last bucket repeats its left knot
        if isinstance(e, ast.Subscript) and norm(e.value) == cparam:
            key = "K" + str(len(knots)) if norm(e.slice) not in [norm(v) for v in knots.values()] else \
                next(k for k, v in knots.items() if norm(v) == norm(e.slice))
            knots[key] = e.slice
            return alg.Rat(alg.Poly.sym(key))
        if isinstance(e, ast.Call) and norm(e.func) == "min" and len(e.args) == 2 and any(isinstance(x, ast.Constant) and x.value in (1, 1.0) for x in e.args):
            weights.add(norm(e))
            return alg.Rat(alg.Poly.sym("c"))
        if isinstance(e, ast.Call) and norm(e.func) in ("int", "float", "round"):
            opaque.setdefault(norm(e), f"u{len(opaque)}")
            return alg.Rat(alg.Poly.sym(opaque[norm(e)]))
        if isinstance(e, ast.Name) and e.id not in defs:
            return alg.Rat(alg.Poly.sym("v_" + e.id))
        return None
    opaque: Dict[str, str] = {}
    try:
        r = alg.to_rat(inner, leaf)
    except alg.NotAlgebraic as e:
        rep.inconclusive(f"{P}.R5", con, norm(inner)[:160], f"not algebraic: {e}", f"{rel}:{fn0.lineno}")
        return
    if len(weights) != 1 or len(knots) != 2:
        rep.inconclusive(f"{P}.R5", con, norm(inner)[:160], f"interpolation weight / knots not recognised ({len(weights)} weights, {len(knots)} knots)",
                         f"{rel}:{fn0.lineno}")
        return
    # which knot is the left one: index difference must be exactly 1
    (k1, s1), (k2, s2) = list(knots.items())
    atoms: Dict[str, str] = {}

    def unclamp(e):
        """min(k + 1, LAST): the right neighbour, clamped to the last table entry (the last bucket repeats its own knot)."""
        if isinstance(e, ast.Call) and norm(e.func) == "min" and len(e.args) == 2:
            for a_, b_ in ((e.args[0], e.args[1]), (e.args[1], e.args[0])):
                try:
                    kk = repo.fold(b_, sf=repo.module("rv.modules.multictl"))
                except Exception:
                    kk = None
                if isinstance(kk, int) and kk >= 255:
                    return a_
        return e
    s1, s2 = unclamp(s1), unclamp(s2)

    def ileaf(e):
        if isinstance(e, ast.Call):
            atoms.setdefault(norm(e), f"t{len(atoms)}")
            return alg.Poly.sym(atoms[norm(e)])
        if isinstance(e, ast.Name):
            return alg.Poly.sym("v_" + e.id)
        return None
    try:
        d = alg.to_poly(s2, ileaf) - alg.to_poly(s1, ileaf)
    except alg.NotAlgebraic as e:
        rep.inconclusive(f"{P}.R5", con, f"{norm(s1)} / {norm(s2)}", f"knot indices not comparable: {e}", f"{rel}:{fn0.lineno}")
        return
    if d == alg.Poly.const(1):
        left, right = k1, k2
    elif d == alg.Poly.const(-1):
        left, right = k2, k1
    else:
        rep.violation(f"{P}.R5", con, f"{cparam}[{norm(s1)}] / {cparam}[{norm(s2)}]",
                      "the curve is interpolated between two points that are not neighbours (index difference ≠ 1)", f"{rel}:{fn0.lineno}")
        return
    at0 = alg.Rat(r.n.subst("c", alg.Poly.const(0)), r.d.subst("c", alg.Poly.const(0)))
    at1 = alg.Rat(r.n.subst("c", alg.Poly.const(1)), r.d.subst("c", alg.Poly.const(1)))
    ok = at0.equals(alg.Rat(alg.Poly.sym(left))) and at1.equals(alg.Rat(alg.Poly.sym(right)))
    lin = r.n.degree_in("c") <= 1 and r.d.degree_in("c") == 0
    shown = f"c·{cparam}[k+1] + (1 − c)·{cparam}[k]" if ok and lin else norm(inner)[:200]
    if ok and lin:
        rep.ok(f"{P}.R5", con, f"value = {shown}", "linear in c, = curve[bucket] at c = 0 and curve[bucket+1] at c = 1 (continuous, monotone for a monotone curve)")
    else:
        names = {left: "b", right: "a"}
        rep.violation(f"{P}.R5", con, f"value = {shown}",
                      f"the curve interpolation gives {at0} at c = 0 and {at1} at c = 1 ({left} = curve[bucket] (b), {right} = curve[bucket+1] (a)) instead of "
                      "curve[bucket] (b) and curve[bucket+1] (a): "
                      "the output jumps at every bucket boundary (not monotone, can leave the range) for any curve other than the identity",
                      f"{rel}:{fn0.lineno}")


# ------------------------------------------------------------------------------------ R1
def mapping_arity(repo: Repo, mc) -> Tuple[int, Optional[int], ast.AST]:
    mp = mc.nested.get("Mapping")
    if mp is None or "__init__" not in mp.methods:
        raise AnchorMissing("MultiCtl.Mapping.__init__")
    init = mp.methods["__init__"]
    # for field, item in zip(FIELDS, value[:8], strict=True): setattr(self, field, item)
    for lp in [x for x in walk_no_nested(init) if isinstance(x, ast.For)]:
        if isinstance(lp.iter, ast.Call) and norm(lp.iter.func) == "zip" and len(lp.iter.args) == 2 and isinstance(lp.target, ast.Tuple) and len(lp.target.elts) == 2 \
                and any(isinstance(c_, ast.Call) and norm(c_.func) == "setattr" and len(c_.args) == 3 and norm(c_.args[0]) == "self" for c_ in ast.walk(lp)):
            try:
                names_ = repo.fold(lp.iter.args[0], ci=mp, sf=mp.file)
            except Exception:
                names_ = None
            if isinstance(names_, (tuple, list)) and all(isinstance(x, str) for x in names_):
                cut = None
                v_ = lp.iter.args[1]
                if isinstance(v_, ast.Subscript) and isinstance(v_.slice, ast.Slice) and v_.slice.upper is not None:
                    try:
                        cut = repo.fold(v_.slice.upper, ci=mp)
                    except NotConst:
                        cut = None
                return len(names_), cut, lp
    for n in walk_no_nested(init):
        if isinstance(n, ast.Assign) and isinstance(n.targets[0], ast.Tuple):
            need = len(n.targets[0].elts)
            cut = None
            if isinstance(n.value, ast.Subscript) and isinstance(n.value.slice, ast.Slice) and n.value.slice.upper is not None:
                try:
                    cut = repo.fold(n.value.slice.upper, ci=mp)
                except NotConst:
                    cut = None
            return need, cut, n
    raise AnchorMissing("Mapping destructuring")


def arity(repo: Repo, rep, P: str, mc):
    rel = mc.file.rel
    need, cut, node = mapping_arity(repo, mc)
    rep.func("rv.modules.multictl.MultiCtl.Mapping.__init__")
    if cut is not None and cut != need:
        rep.violation(f"{P}.R1", f"{rel}:MultiCtl.Mapping.__init__", norm(node)[:120],
                      f"the constructor slices {cut} items but unpacks into {need} fields", f"{rel}:{node.lineno}")
    sites = 0
    # (a) literal tuples passed directly to Mapping(...)
    for c in mc.node.body and ast.walk(mc.node):
        if isinstance(c, ast.Call) and norm(c.func).split(".")[-1] == "Mapping" and "MetaModule" not in norm(c.func) and c.args:
            a = c.args[0]
            if isinstance(a, ast.Tuple):
                sites += 1
                _check_len(rep, P, rel, f"{rel}:MultiCtl", norm(c)[:100], len(a.elts), need, c)
            elif isinstance(a, ast.BinOp) and mc.methods.get("macro") is not None:
                sh_ = _Shapes(repo, mc, mc.methods["macro"]).expr(a)          # (0, FULL) + (0,) * 6
                if sh_[0] == "tup":
                    sites += 1
                    _check_len(rep, P, rel, f"{rel}:MultiCtl", norm(c)[:100], len(sh_[1]), need, c)
            elif isinstance(a, (ast.Name, ast.Attribute)):
                # Mapping(self._UNMAPPED): a named tuple constant of the class / its nested classes / the module
                val_ = None
                for scope in [mc] + list(mc.nested.values()):
                    try:
                        val_ = repo.fold(a, ci=scope, sf=mc.file)
                        break
                    except Exception:
                        val_ = None
                if isinstance(val_, tuple):
                    sites += 1
                    _check_len(rep, P, rel, f"{rel}:MultiCtl", norm(c)[:100], len(val_), need, c)
    # (b) tuples appended to the list that macro passes as mappings=
    macro = mc.methods.get("macro")
    if macro is None:
        raise AnchorMissing("MultiCtl.macro")
    rep.func("rv.modules.multictl.MultiCtl.macro")
    passed = None
    passed_e = None
    for c in walk_no_nested(macro):
        if isinstance(c, ast.Call):
            for kw in c.keywords:
                if kw.arg == "mappings":
                    passed_e = kw.value
                    passed = norm(kw.value)[:60]
    if passed_e is None:
        rep.inconclusive(f"{P}.R1", f"{rel}:MultiCtl.macro", "", "no `mappings=` argument found", f"{rel}:{macro.lineno}")
    else:
        shape = _Shapes(repo, mc, macro).expr(passed_e)
        tuples = _element_tuples(shape)
        if tuples is None or not tuples:
            rep.inconclusive(f"{P}.R1", f"{rel}:MultiCtl.macro", passed, f"no append of mapping tuples found (shape {_show_shape(shape)})",
                             f"{rel}:{macro.lineno}")
        else:
            for n_fields, node in tuples:
                sites += 1
                _check_len(rep, P, rel, f"{rel}:MultiCtl.macro", norm(node)[:120], n_fields, need, node)
    # (c) the constructor hands each element of the keyword to Mapping(...)
    init = mc.methods.get("__init__")
    s = norm(init) if init else ""
    if "for (i, mapping) in enumerate(mappings)" in s.replace("for i, mapping in", "for (i, mapping) in") and "self.Mapping(mapping)" in s:
        rep.ok(f"{P}.R1", f"{rel}:MultiCtl.__init__", "self.mappings.values[i] = self.Mapping(mapping)", "keyword tuples reach the Mapping constructor unchanged")
    else:
        rep.inconclusive(f"{P}.R1", f"{rel}:MultiCtl.__init__", s[:160], "how the mappings keyword reaches Mapping() is not recognised",
                         f"{rel}:{init.lineno if init else 0}")
    rep.count("mapping_construction_sites", sites, 2)
    # (d) encoded_values order = destructuring order (shared with C02 R4) is checked there


# shapes: ("tup", [shapes], node) | ("list", [element shapes]) | ("scalar",) | ("?", why)
def _shape_of_name(repo: Repo, mc, fn: ast.FunctionDef, name: str, depth: int = 0):
    return _Shapes(repo, mc, fn, depth).name(name)


class _Shapes:
    """What a local of MultiCtl.macro holds, as far as tuple arity goes: tuple displays, lists built by append / comprehension,
    values returned by the class's private helpers, and tuple-target unpacking of all of these."""

    def __init__(self, repo: Repo, mc, fn: ast.FunctionDef, depth: int = 0):
        self.repo, self.mc, self.fn, self.depth = repo, mc, fn, depth
        self.env: Dict[str, tuple] = {}
        self.busy: set = set()

    def name(self, nm: str):
        if nm in self.env:
            return self.env[nm]
        if nm in self.busy:
            return ("?", f"recursive {nm}")
        self.busy.add(nm)
        shapes = []
        for n in walk_no_nested(self.fn):
            if isinstance(n, ast.Assign):
                for t in n.targets:
                    if isinstance(t, ast.Name) and t.id == nm:
                        shapes.append(self.expr(n.value))
                    elif isinstance(t, (ast.Tuple, ast.List)):
                        for i, e in enumerate(t.elts):
                            if isinstance(e, ast.Name) and e.id == nm:
                                v = self.expr(n.value)
                                shapes.append(v[1][i] if v[0] == "tup" and i < len(v[1]) else ("?", f"unpacking {norm(n.value)[:40]}"))
            if isinstance(n, ast.Call) and isinstance(n.func, ast.Attribute) and norm(n.func.value) == nm and n.func.attr == "append" and len(n.args) == 1:
                shapes.append(("list", [self.expr(n.args[0])]))
            if isinstance(n, ast.For):          # comprehension variables are local to their comprehension (bound in expr())
                self._bind(n.target, n.iter, nm, shapes)
        for a in self.fn.args.args + self.fn.args.kwonlyargs:
            if a.arg == nm:
                shapes.append(("scalar",))
        self.busy.discard(nm)
        out = self._join(shapes) if shapes else ("?", f"{nm} unbound")
        self.env[nm] = out
        return out

    def _bind(self, target, it, nm, shapes):
        def elem(sh):
            if sh[0] == "list":
                return self._join(sh[1]) if sh[1] else ("?", "empty list")
            return ("scalar",) if sh[0] == "scalar" else ("?", "iteration over " + sh[0])

        def walk(t, sh):
            if isinstance(t, ast.Name):
                if t.id == nm:
                    shapes.append(sh)
            elif isinstance(t, (ast.Tuple, ast.List)):
                for i, e in enumerate(t.elts):
                    walk(e, sh[1][i] if sh[0] == "tup" and i < len(sh[1]) else (("scalar",) if sh[0] == "scalar" else ("?", "unpacking")))
        if any(isinstance(x, ast.Name) and x.id == nm for x in ast.walk(target)):
            walk(target, elem(self.expr(it)))

    def _join(self, shapes):
        lists = [s for s in shapes if s[0] == "list"]
        if lists and len(lists) == len(shapes):
            return ("list", [e for s in lists for e in s[1]])
        if len(shapes) == 1:
            return shapes[0]
        tups = [s for s in shapes if s[0] == "tup"]
        if tups and len(tups) == len(shapes):
            return ("alts", tups)
        if all(s[0] == "scalar" for s in shapes):
            return ("scalar",)
        bad = [s for s in shapes if s[0] == "?"]
        return bad[0] if bad else ("?", "mixed shapes")

    def expr(self, e: ast.expr):
        if isinstance(e, ast.Tuple):
            return ("tup", [self.expr(x) for x in e.elts], e)
        # (a, b, c) + (0,) * 5: tuple concatenation / repetition by a constant
        if isinstance(e, ast.BinOp) and isinstance(e.op, ast.Add):
            a, b = self.expr(e.left), self.expr(e.right)
            if a[0] == "tup" and b[0] == "tup":
                return ("tup", list(a[1]) + list(b[1]), e)
        if isinstance(e, ast.BinOp) and isinstance(e.op, ast.Mult):
            for seq, cnt in ((e.left, e.right), (e.right, e.left)):
                sh = self.expr(seq) if isinstance(seq, ast.Tuple) else None
                if sh is not None and sh[0] == "tup":
                    try:
                        k = self.repo.fold(cnt, ci=self.mc)
                    except Exception:
                        k = None
                    if isinstance(k, int) and 0 <= k <= 64:
                        return ("tup", list(sh[1]) * k, e)
        if isinstance(e, ast.List):
            return ("list", [self.expr(x) for x in e.elts])
        if isinstance(e, ast.Name):
            return self.name(e.id)
        if isinstance(e, (ast.ListComp, ast.GeneratorExp)) and len(e.generators) == 1:
            sub = _Shapes(self.repo, self.mc, self.fn, self.depth)
            sub.env = dict(self.env)
            # the comprehension target shadows: evaluate the element with the target bound
            tmp: list = []
            g = e.generators[0]
            for x in ast.walk(g.target):
                if isinstance(x, ast.Name):
                    got: list = []
                    self._bind(g.target, g.iter, x.id, got)
                    sub.env[x.id] = got[0] if got else ("?", "unbound target")
            return ("list", [sub.expr(e.elt)])
        if isinstance(e, ast.Call) and norm(e.func) in ("list", "tuple", "sorted", "reversed") and len(e.args) == 1:
            return self.expr(e.args[0])
        if isinstance(e, ast.BinOp) and isinstance(e.op, ast.Add):
            l, r = self.expr(e.left), self.expr(e.right)
            if l[0] == r[0] == "tup":
                return ("tup", l[1] + r[1], e)
            if l[0] == r[0] == "list":
                return ("list", l[1] + r[1])
        if isinstance(e, ast.BinOp) and isinstance(e.op, ast.Mult):
            try:
                v = self.repo.fold(e, ci=self.mc)
                if isinstance(v, tuple):
                    return ("tup", [("scalar",)] * len(v), e)
            except NotConst:
                pass
        if isinstance(e, ast.Call) and isinstance(e.func, ast.Attribute) and norm(e.func.value) in ("self", "cls", self.mc.name) \
                and e.func.attr in self.mc.methods and e.func.attr.startswith("_") and self.depth < 3:
            h = self.mc.methods[e.func.attr]
            rets = [r.value for r in walk_no_nested(h) if isinstance(r, ast.Return) and r.value is not None]
            sub = _Shapes(self.repo, self.mc, h, self.depth + 1)
            return self._join([sub.expr(r) for r in rets]) if rets else ("?", "helper returns nothing")
        if isinstance(e, (ast.Constant, ast.Attribute, ast.BinOp, ast.Call, ast.Subscript, ast.Compare, ast.BoolOp, ast.UnaryOp, ast.IfExp)):
            return ("scalar",)
        return ("?", norm(e)[:40])


def _element_tuples(shape):
    """[(number of fields, node)] for the tuple displays that are elements of a list shape; None when the shape is not a list of tuples."""
    if shape[0] != "list":
        return None
    out = []
    for el in shape[1]:
        alts = el[1] if el[0] == "alts" else [el]
        for a in alts:
            if a[0] != "tup":
                return None
            out.append((len(a[1]), a[2]))
    return out


def _show_shape(shape) -> str:
    if shape[0] == "tup":
        return f"tuple[{len(shape[1])}]"
    if shape[0] == "list":
        return "list[" + ", ".join(sorted({_show_shape(x) for x in shape[1]})) + "]"
    if shape[0] == "alts":
        return " | ".join(_show_shape(x) for x in shape[1])
    return shape[0] if shape[0] != "?" else f"?({shape[1]})"


def _tuple_len(repo, ci, e) -> Optional[int]:
    if isinstance(e, ast.Tuple):
        return len(e.elts)
    if isinstance(e, ast.BinOp) and isinstance(e.op, ast.Add):
        a, b = _tuple_len(repo, ci, e.left), _tuple_len(repo, ci, e.right)
        return a + b if a is not None and b is not None else None
    if isinstance(e, ast.BinOp) and isinstance(e.op, ast.Mult):
        try:
            v = repo.fold(e, ci=ci)
            return len(v)
        except NotConst:
            return None
    return None


def _check_len(rep, P, rel, con, text, have, need, node):
    if have >= need:
        rep.ok(f"{P}.R1", con, text, f"{have} fields ≥ {need} unpacked by Mapping")
    else:
        rep.violation(f"{P}.R1", con, text,
                      f"a {have}-field mapping is handed to MultiCtl.Mapping, whose constructor unpacks {need} fields: "
                      "construction raises ValueError (the macro helper fails for every input)", f"{rel}:{node.lineno}")


# ------------------------------------------------------------------------------------ R2
def macro_guards(repo: Repo, rep, P: str, mc):
    rel = mc.file.rel
    fn = mc.methods["macro"]
    construct = f"{rel}:MultiCtl.macro"
    g = CFG(fn)
    dom = g.dominators()
    creates = [n for n in g.nodes if n.kind == "stmt" and n.ast is not None and
               any(isinstance(c, ast.Call) and norm(c.func).endswith(".new_module") or
                   (isinstance(c, ast.Call) and norm(c.func).endswith(".attach_module")) for c in ast.walk(n.ast))]
    if not creates:
        rep.violation(f"{P}.R2", construct, "project.new_module(MultiCtl, …)", "the helper no longer creates the MultiCtl in the project", f"{rel}:{fn.lineno}")
        return
    create = creates[0]
    raises = [n for n in g.nodes if n.kind == "stmt" and isinstance(n.ast, ast.Raise) and n.ast.exc is not None and "MappingError" in norm(n.ast.exc)]
    # identify the two guards by their dominating test
    tests = {}
    for r in raises:
        for d in dom.get(r.id, set()):
            dn = g.nodes[d]
            if dn.kind == "test":
                # immediate guard: the raise is in the true branch
                ts = [m for m, lab in g.succ[d] if lab == "true"]
                if ts and (r.id == ts[0] or r.id in g.reachable(ts[0], avoid={d})) and r.id not in g.reachable(
                        [m for m, lab in g.succ[d] if lab == "false"][0] if [m for m, lab in g.succ[d] if lab == "false"] else r.id, avoid={d}) :
                    tests[r.id] = dn
    count_guard = dup_guard = None
    seen_form = False
    for rid, t in tests.items():
        txt = norm(t.ast)
        if "len(" in txt and ">" in txt and "set(" not in txt:
            count_guard = (g.nodes[rid], t)
        if "set(" in txt:
            dup_guard = (g.nodes[rid], t)
        # seen-set form:  if mod in seen: raise …;  seen.add(mod)
        if isinstance(t.ast, ast.Compare) and len(t.ast.ops) == 1 and isinstance(t.ast.ops[0], ast.In) and isinstance(t.ast.comparators[0], ast.Name):
            sname, elem = t.ast.comparators[0].id, norm(t.ast.left)
            if any(isinstance(c, ast.Call) and norm(c.func) == f"{sname}.add" and len(c.args) == 1 and norm(c.args[0]) == elem for c in ast.walk(fn)):
                dup_guard = (g.nodes[rid], t)
                seen_form = True
    other_raises = [rid for rid in tests if (count_guard is None or rid != count_guard[0].id) and (dup_guard is None or rid != dup_guard[0].id)]
    # count guard
    if count_guard is None:
        rep.violation(f"{P}.R2", construct, "if len(mod_ctl_pairs) > 16: raise MappingError", "more than 16 targets are no longer refused", f"{rel}:{fn.lineno}")
    else:
        r, t = count_guard
        cmp_ = t.ast
        try:
            length = class_const(repo, mc.nested["MappingArray"], "length")
        except (KeyError, AnchorMissing, NotConst):
            length = None
        bound = None
        if isinstance(cmp_, ast.Compare) and len(cmp_.ops) == 1:
            try:
                k = repo.fold(cmp_.comparators[0], ci=mc)
                bound = k if isinstance(cmp_.ops[0], ast.Gt) else (k - 1 if isinstance(cmp_.ops[0], ast.GtE) else None)
            except NotConst:
                bound = None
        if bound is not None and bound == length:
            rep.ok(f"{P}.R2", construct, f"if {norm(cmp_)}: raise MappingError", f"bound = MappingArray.length = {length}")
        else:
            rep.violation(f"{P}.R2", construct, f"if {norm(cmp_)}: raise MappingError",
                          f"the helper accepts up to {bound} targets but the mapping array holds {length}", f"{rel}:{t.lineno}")
        if r.id in dom.get(create.id, set()) or t.id in dom.get(create.id, set()):
            rep.ok(f"{P}.R2", construct, r.text()[:80], "refusal precedes the creation of the module")
        else:
            rep.violation(f"{P}.R2", construct, r.text()[:80], "the project is modified before too many targets are refused", f"{rel}:{r.lineno}")
    if dup_guard is None and (other_raises or len(raises) > len(tests)):
        rep.inconclusive(f"{P}.R2", construct, "; ".join(norm(tests[x].ast) for x in other_raises)[:160] or "raise MappingError",
                         "a MappingError is raised under a test that is not recognised as the duplicate-target refusal", f"{rel}:{fn.lineno}")
    elif dup_guard is None:
        rep.violation(f"{P}.R2", construct, "if len(mods) != len(set(mods)): raise MappingError", "two targets on one module are no longer refused",
                      f"{rel}:{fn.lineno}")
    else:
        r, t = dup_guard
        txt = norm(t.ast).replace(" ", "")
        if seen_form:
            rep.ok(f"{P}.R2", construct, f"if {norm(t.ast)}: raise MappingError", "duplicate target modules refused (seen-set)")
        elif txt in ("len(mods)!=len(set(mods))", "len(set(mods))!=len(mods)", "len(set(mods))<len(mods)", "len(mods)>len(set(mods))"):
            rep.ok(f"{P}.R2", construct, f"if {norm(t.ast)}: raise MappingError", "duplicate target modules refused")
        else:
            rep.inconclusive(f"{P}.R2", construct, norm(t.ast), "duplicate-module test of an unrecognised form", f"{rel}:{t.lineno}")
        if t.id in dom.get(create.id, set()) or r.id not in g.reachable(create.id):
            rep.ok(f"{P}.R2", construct, r.text()[:80], "refusal precedes the creation of the module")
        else:
            rep.violation(f"{P}.R2", construct, f"{create.text()[:60]} … {r.text()[:60]}",
                          "the MultiCtl is created in the project before a duplicate target is refused: a refused call leaves a "
                          "stray module behind", f"{rel}:{r.lineno}")
    # link on every non-raising path after creation
    links = [n for n in g.nodes if n.kind == "stmt" and n.ast is not None and
             ((isinstance(n.ast, ast.Expr) and isinstance(n.ast.value, ast.BinOp) and isinstance(n.ast.value.op, (ast.RShift, ast.LShift)))
              or any(isinstance(c, ast.Call) and norm(c.func).endswith(".connect") for c in ast.walk(n.ast)))]
    if not links:
        rep.violation(f"{P}.R2", construct, "bundle >> mods", "the created MultiCtl is never linked to its targets", f"{rel}:{fn.lineno}")
    else:
        wo = g.reachable(create.id, avoid={l.id for l in links}, labels_excluded={"exc", "reraise", "nomatch"})
        if g.exit in wo:
            rep.violation(f"{P}.R2", construct, links[0].text(), "a normal path returns the MultiCtl without linking it to its targets", f"{rel}:{links[0].lineno}")
        else:
            rep.ok(f"{P}.R2", construct, links[0].text(), "on every normal path after the module is created")
        lk = links[0].ast.value if isinstance(links[0].ast, ast.Expr) else None
        if isinstance(lk, ast.BinOp):
            bundle_var = norm(create.ast.targets[0]) if isinstance(create.ast, ast.Assign) else None
            good = (isinstance(lk.op, ast.RShift) and norm(lk.left) == bundle_var) or (isinstance(lk.op, ast.LShift) and norm(lk.right) == bundle_var)
            if good:
                rep.ok(f"{P}.R2", construct, norm(lk), "MultiCtl is the source of the links (its out_links index the mappings)")
            else:
                rep.violation(f"{P}.R2", construct, norm(lk), "links must go FROM the MultiCtl to its targets", f"{rel}:{links[0].lineno}")
    # mapping i ↔ target i: both lists are appended in the same loop iteration
    src = norm(fn)
    if "mappings.append(" in src and "mods.append(" in src:
        rep.ok(f"{P}.R2", construct, "mappings.append(…); mods.append(…)", "i-th mapping and i-th link are built together", nontrivial=False)


# ------------------------------------------------------------------------------------ R3
def unset_mapping(repo: Repo, rep, P: str, mc):
    rel = mc.file.rel
    fn = mc.methods.get("on_value_changed")
    if fn is None:
        raise AnchorMissing("MultiCtl.on_value_changed")
    rep.func("rv.modules.multictl.MultiCtl.on_value_changed")
    construct = f"{rel}:MultiCtl.on_value_changed"
    from ..packed import single_defs, resolve_names
    fdefs = single_defs(fn)
    loop = next((st for st in fn.body if isinstance(st, ast.For) and "out_links" in norm(resolve_names(st.iter, fdefs))), None)
    if loop is None:
        rep.inconclusive(f"{P}.R3", construct, "", "loop over out_links not found", f"{rel}:{fn.lineno}")
        return
    # link slot i ↔ mapping i: the index that selects the mapping is the position in out_links itself (−1 placeholders of
    # disconnected links keep their slot); enumerating a filtered copy shifts every later link onto an earlier mapping
    it = resolve_names(loop.iter, fdefs)
    if isinstance(it, ast.Call) and norm(it.func) == "enumerate" and it.args:
        seq = it.args[0]
        while isinstance(seq, ast.Call) and norm(seq.func) in ("list", "tuple", "iter") and len(seq.args) == 1:
            seq = seq.args[0]
        filtered = (isinstance(seq, (ast.ListComp, ast.GeneratorExp)) and any(g_.ifs for g_ in seq.generators)) or \
            (isinstance(seq, ast.Call) and norm(seq.func) in ("filter", "filterfalse", "itertools.filterfalse", "compress"))
        uses_index = isinstance(loop.target, ast.Tuple) and loop.target.elts and any(
            isinstance(x, ast.Subscript) and "mappings" in norm(x.value) and norm(x.slice) == norm(loop.target.elts[0]) for x in ast.walk(loop))
        if filtered and uses_index:
            rep.violation(f"{P}.R3", construct, norm(it)[:120],
                          "the mapping is selected by the position in a FILTERED copy of out_links: once an earlier link is disconnected (a −1 "
                          "placeholder) every later link is paired with the mapping of an earlier slot", f"{rel}:{loop.lineno}")
        elif norm(seq) == "self.out_links" and uses_index:
            rep.ok(f"{P}.R3", construct, norm(it), "mapping i is selected by the link's own slot number")
    g = CFG(loop, loop_body=True)
    dom = g.dominators()
    uses = []
    subjects: set = set()          # E in `…[E.controller - 1]`: the mapping whose controller number indexes the target's controllers
    for n in g.nodes:
        if n.kind == "stmt" and n.ast is not None:
            for x in ast.walk(n.ast):
                if isinstance(x, ast.Subscript) and isinstance(x.slice, ast.BinOp) and isinstance(x.slice.op, ast.Sub) and norm(x.slice.right) == "1" \
                        and isinstance(x.slice.left, ast.Attribute) and x.slice.left.attr == "controller":
                    subjects.add(norm(x.slice.left.value))
                    uses.append(n)
                if isinstance(x, ast.Call) and norm(x.func) == "setattr":
                    uses.append(n)
    if len(subjects) != 1:
        rep.inconclusive(f"{P}.R3", construct, f"subjects {sorted(subjects)}", "the controller look-up `…[<mapping>.controller - 1]` was not found in one form",
                         f"{rel}:{loop.lineno}")
        return
    subj = next(iter(subjects)).replace(" ", "")
    uses = list({u.id: u for u in uses}.values())
    if not uses:
        rep.inconclusive(f"{P}.R3", construct, "", "no controller look-up / target write found", f"{rel}:{loop.lineno}")
        return

    def guarded(nid: int) -> Optional[str]:
        for d in dom.get(nid, set()):
            dn = g.nodes[d]
            if dn.kind != "test":
                continue
            t = norm(dn.ast).replace(" ", "")
            tsucc = [m for m, lab in g.succ[d] if lab == "true"]
            fsucc = [m for m, lab in g.succ[d] if lab == "false"]
            zero_tests = (f"{subj}.controller==0", f"not{subj}.controller", f"{subj}.controller<1", f"{subj}.controller<=0", f"0=={subj}.controller")
            nonzero_tests = (f"{subj}.controller", f"{subj}.controller!=0", f"{subj}.controller>0", f"{subj}.controller>=1", f"0!={subj}.controller",
                             f"0<{subj}.controller")
            if t in zero_tests and fsucc:
                # use must be reachable only through the false branch
                if nid in g.reachable(fsucc[0], avoid={d}) and not (tsucc and nid in g.reachable(tsucc[0], avoid={d})):
                    return norm(dn.ast)
            if t in nonzero_tests and tsucc:
                if nid in g.reachable(tsucc[0], avoid={d}) and not (fsucc and nid in g.reachable(fsucc[0], avoid={d})):
                    return norm(dn.ast)
        return None
    for u in uses:
        gd = guarded(u.id)
        if gd:
            rep.ok(f"{P}.R3", construct, u.text()[:90], f"only reached when the mapping names a controller (`{gd}`)")
        else:
            what = "indexes the target's controllers with mapping.controller − 1" if ".controller - 1" in u.text() else "writes to the target"
            rep.violation(f"{P}.R3", construct, u.text()[:100],
                          f"this statement {what} without first testing that the mapping names a controller: for an unset "
                          "mapping (controller 0) index −1 selects the target's LAST controller and it is overwritten. "
                          "The sibling MultiCtl.reflect tests `mapping.controller == 0` for the same look-up", f"{rel}:{u.lineno}")
    rep.count("unset_mapping_uses", len(uses), 2)
    # sibling: reflect tests controller == 0
    rf = mc.methods.get("reflect")
    if rf is not None and "if mapping.controller == 0:" in norm(rf):
        rep.ok(f"{P}.R3", f"{rel}:MultiCtl.reflect", "if mapping.controller == 0: raise IndexError", "sibling already treats 0 as unset", nontrivial=False)
