"""C04 — loading decodes foreign files per the format and skips unknown chunks."""

from __future__ import annotations

import ast
import copy
import re
import struct
from typing import Any, Dict, List, Optional, Tuple  # noqa: F401

from .. import codec, docs, inline, parity
from ..cfg import CFG
from ..model import AnchorMissing, NotConst, Repo, attr_chain, norm, stmts_of, walk_no_nested
from . import c03

LEVEL = "other"
EXPLANATION = (
    "reader-side structure: on the CFG of Reader.process_chunks the branch for an id without a handler has the "
    "loop head as its only successor (unknown chunks are skipped, nothing else happens) and every override "
    "delegates to it; handler names are derived from the stripped 4-byte id; every reader handler's format is "
    "compared with the RST document and the YAML spec (width, count, byte order); section readers terminate on "
    "PEND/SEND on every path and rewind by exactly the header size the writer emits; every module position found "
    "in a file is appended (loading=True at every call site, append-only under loading, empty slot appends None, "
    "only trailing empties are stripped); a short CVAL list touches only the controllers it names; legacy "
    "fix-ups present. Decoding of arbitrary foreign byte streams as a whole is not decided."
)
DECLINED = ["decoding of arbitrary foreign byte streams / robustness to dangling link indices (run-time data)"]
ASSUMPTIONS = ["rv._vendor.chunk.Chunk yields (4-byte name, payload) per IFF chunk (vendored stdlib module)"]


def run(repo: Repo, rep, tier: str):
    unknown_ids(repo, rep, "C04")
    doc_parity(repo, rep, "C04")
    termination(repo, rep, "C04")
    positions(repo, rep, "C04")
    short_cval(repo, rep, "C04")
    fixups(repo, rep, "C04")
    defaults_vs_spec(repo, rep, "C04")
    chunk_block_freshness(repo, rep, "C04", "R7")
    from . import c02
    c02.cmid_reader_rule(repo, rep, "C04", "R8")          # CMID: 8-byte entries, entry i → i-th controller, every complete entry decoded


BLOCK_HANDLERS = ("process_CHNM", "process_CHDT", "process_CHFF", "process_CHFR")


def _block_stores(fn: ast.FunctionDef) -> List[Tuple[str, str, ast.AST]]:
    """(container attribute X, field, node) for stores `self.X.f = …` / `self.X["f"] = …` (also as unpack targets)."""
    out = []
    for n in ast.walk(fn):
        tg = []
        if isinstance(n, ast.Assign):
            tg = n.targets
        elif isinstance(n, (ast.AugAssign, ast.AnnAssign)):
            tg = [n.target]
        for t in tg:
            for tt in (t.elts if isinstance(t, (ast.Tuple, ast.List)) else [t]):
                if isinstance(tt, ast.Attribute) and isinstance(tt.value, ast.Attribute) and norm(tt.value.value) == "self":
                    out.append((tt.value.attr, tt.attr, n))
                elif isinstance(tt, ast.Subscript) and isinstance(tt.value, ast.Attribute) and norm(tt.value.value) == "self" \
                        and isinstance(tt.slice, ast.Constant) and isinstance(tt.slice.value, str):
                    out.append((tt.value.attr, tt.slice.value, n))
    return out


def chunk_block_freshness(repo: Repo, rep, P: str, rule: str):
    """Each CHNM starts a new module-specific block: whatever the CHDT/CHFF/CHFR handlers accumulate is reset completely
    when the next CHNM arrives, so a block without CHFF/CHFR gets the documented defaults instead of its predecessor's values."""
    mr = repo.cls("ModuleReader", module="rv.readers.module")
    rel = mr.file.rel
    con = f"{rel}:ModuleReader.process_CHNM"
    fields: Dict[str, Dict[str, ast.AST]] = {}
    for h in BLOCK_HANDLERS:
        fn = mr.methods.get(h)
        if fn is None:
            raise AnchorMissing(f"ModuleReader.{h}")
        for x, f, node in _block_stores(fn):
            fields.setdefault(x, {})[f] = node
    rep.instances["block_accumulators"] = {x: sorted(fs) for x, fs in fields.items()}
    if not fields:
        rep.inconclusive(f"{P}.{rule}", con, "", "no accumulator for CHNM/CHDT/CHFF/CHFR found", f"{rel}:{mr.node.lineno}")
        return
    chnm = repo.own_method(mr, "process_CHNM")          # normal form: helpers read through, a fresh local published to self.X read as self.X
    scope = [chnm]
    for c in ast.walk(chnm):
        if isinstance(c, ast.Call) and isinstance(c.func, ast.Attribute) and norm(c.func.value) == "self" and c.func.attr in mr.methods:
            scope.append(mr.methods[c.func.attr])
    for x, fs in sorted(fields.items()):
        reset_all = False
        reset_some = set()
        for fn in scope:
            for n in ast.walk(fn):
                if isinstance(n, ast.Assign) and any(norm(t) == f"self.{x}" for t in n.targets):
                    v = n.value
                    if isinstance(v, (ast.Call, ast.Dict, ast.List)) and not (isinstance(v, ast.Call) and norm(v.func) in ("getattr",)):
                        reset_all = True
                if isinstance(n, ast.Call) and isinstance(n.func, ast.Attribute) and norm(n.func.value) == f"self.{x}":
                    if n.func.attr == "clear":
                        reset_all = True
                    if n.func.attr == "pop" and n.args and isinstance(n.args[0], ast.Constant):
                        reset_some.add(n.args[0].value)
                if isinstance(n, ast.Delete):
                    for t in n.targets:
                        if isinstance(t, ast.Subscript) and isinstance(t.slice, ast.Constant):
                            base = t.value
                            if norm(base) == f"self.{x}" or (isinstance(base, ast.Name) and any(
                                    isinstance(a, ast.Assign) and norm(a.targets[0]) == base.id and norm(a.value) == f"self.{x}" for a in ast.walk(fn))):
                                reset_some.add(t.slice.value)
                # local alias `fields = self.X` … fields.pop("k") / fields.clear()
                if isinstance(n, ast.Call) and isinstance(n.func, ast.Attribute) and isinstance(n.func.value, ast.Name) and any(
                        isinstance(a, ast.Assign) and norm(a.targets[0]) == n.func.value.id and norm(a.value) == f"self.{x}" for a in ast.walk(fn)):
                    if n.func.attr == "clear":
                        reset_all = True
                    if n.func.attr == "pop" and n.args and isinstance(n.args[0], ast.Constant):
                        reset_some.add(n.args[0].value)
        stale = sorted(set(fs) - reset_some) if not reset_all else []
        stale = [f for f in stale if f != "chnm"]          # overwritten by every CHNM itself
        if reset_all or not stale:
            rep.ok(f"{P}.{rule}", con, f"self.{x}: fields {sorted(fs)}", "a new block starts from a fresh record")
        else:
            node = fs[stale[0]]
            rep.violation(f"{P}.{rule}", con, f"self.{x}: {sorted(fs)}; reset at CHNM: {sorted(reset_some) or 'nothing'}",
                          f"{stale} collected for one CHNM block are still set when the next block starts: a block without its own "
                          f"{'/'.join(s_.upper() for s_ in stale)} inherits the previous block's value instead of the documented default",
                          f"{rel}:{node.lineno}")


# ------------------------------------------------------------------------------------ R1
def unknown_ids(repo: Repo, rep, P: str):
    rd = repo.cls("Reader", module="rv.readers.reader")
    fn = inline.normalize(repo, rd, repo.own_method(rd, "process_chunks"))
    rel = rd.file.rel
    construct = f"{rel}:Reader.process_chunks"
    rep.func("rv.readers.reader.Reader.process_chunks")
    g = CFG(fn)
    loops = [n for n in g.nodes if n.kind == "for" and "chunks(self.f)" in norm(n.ast.iter)]
    if not loops:
        rep.violation(f"{P}.R1", construct, "for name, data in chunks(self.f)", "the reader no longer iterates over the chunks of the file", f"{rel}:{fn.lineno}")
        return
    loop = loops[0]
    tests = [n for n in g.nodes if n.kind == "test" and "callable(" in norm(n.ast)]
    none_test = None
    if not tests:
        # the look-up result itself is tested: `h = getattr(self, name, None)` (possibly filtered by callable) … `if h is None:` / `if h:`
        from ..packed import single_defs as _sd4
        d4 = _sd4(fn)

        def from_lookup(nm: str, depth: int = 0) -> bool:
            v = d4.get(nm)
            if v is None or depth > 3:
                return False
            txt = norm(v)
            if "getattr(self" in txt and ("None" in txt or "callable(" in txt):
                return True
            return any(isinstance(x, ast.Name) and x.id != nm and from_lookup(x.id, depth + 1) for x in ast.walk(v))
        for n in g.nodes:
            if n.kind != "test":
                continue
            a = n.ast
            neg_ = False
            while isinstance(a, ast.UnaryOp) and isinstance(a.op, ast.Not):
                a, neg_ = a.operand, not neg_
            if isinstance(a, ast.Compare) and len(a.ops) == 1 and isinstance(a.ops[0], (ast.Is, ast.IsNot)) and norm(a.comparators[0]) == "None" \
                    and isinstance(a.left, ast.Name) and from_lookup(a.left.id):
                none_test = (n, a.left.id, (isinstance(a.ops[0], ast.Is)) != neg_)      # (node, handler variable, test true ⇒ no handler)
            elif isinstance(a, ast.Name) and from_lookup(a.id):
                none_test = (n, a.id, neg_)
            if none_test:
                break
    if not tests and none_test is None:
        bare = [c for c in ast.walk(fn) if isinstance(c, ast.Call) and norm(c.func) == "getattr" and len(c.args) == 2 and norm(c.args[0]) == "self"]
        if bare and not any(isinstance(x, ast.Try) for x in ast.walk(loop.ast)):
            rep.violation(f"{P}.R1", construct, norm(bare[0]), "handler presence is no longer tested: an id without a handler fails (getattr without a default)",
                          f"{rel}:{fn.lineno}")
        else:
            rep.inconclusive(f"{P}.R1", construct, "if callable(method): … else: …", "how the reader tests that an id has a handler is not recognised",
                             f"{rel}:{fn.lineno}")
        return
    if tests:
        t = tests[0]
        neg = norm(t.ast).startswith("not ")
    else:
        t = none_test[0]
        neg = none_test[2]
    miss_label = "true" if neg else "false"
    miss = [m for m, lab in g.succ[t.id] if lab == miss_label]
    # walk the no-handler branch until the loop head: only non-raising, non-exiting statements allowed
    bad = None
    seen = set()
    todo = list(miss)
    n_stmts = 0
    while todo:
        nid = todo.pop()
        if nid in seen or nid == loop.id:
            continue
        seen.add(nid)
        node = g.nodes[nid]
        if node.kind == "stmt":
            n_stmts += 1
            if isinstance(node.ast, (ast.Raise, ast.Return, ast.Break)):
                bad = node
                break
            if not (isinstance(node.ast, ast.Expr) and isinstance(node.ast.value, ast.Call) and norm(node.ast.value.func).startswith("log.")) \
                    and not isinstance(node.ast, (ast.Pass, ast.Continue)):
                # any other statement: must not touch self.object / self._object
                if "self.object" in norm(node.ast) or "self._object" in norm(node.ast):
                    bad = node
                    break
        if node.kind in ("exit", "raise"):
            bad = node
            break
        for m, lab in g.succ[nid]:
            if lab != "exc":
                todo.append(m)
    if bad is not None:
        rep.violation(f"{P}.R1", construct, bad.text(),
                      "a chunk id without a handler does not simply continue with the next chunk: unknown chunks abort or alter the load",
                      f"{rel}:{bad.lineno}")
    else:
        rep.ok(f"{P}.R1", construct, f"no-handler branch ({n_stmts} statement(s), log only) → next chunk", "unknown ids are skipped without side effects")
    # dispatch coverage: every chunk reaches the handler test, and every chunk with a handler reaches the handler call
    body_entry = [m for m, lab in g.succ[loop.id] if lab in ("body", "true", "iter", "next")] or \
                 [m for m, lab in g.succ[loop.id] if lab not in ("exc", "exit", "false", "done", "orelse")]
    body_nodes = {id(x) for st in loop.ast.body for x in ast.walk(st)}
    body_entry = [m for m in body_entry if g.nodes[m].ast is not None and id(g.nodes[m].ast) in body_nodes] or body_entry
    hv = None if tests else none_test[1]
    for c in ast.walk(t.ast):
        if isinstance(c, ast.Call) and norm(c.func) == "callable" and c.args and isinstance(c.args[0], ast.Name):
            hv = c.args[0].id
    calls = {n.id for n in g.nodes if n.kind == "stmt" and n.ast is not None and hv is not None
             and any(isinstance(c, ast.Call) and isinstance(c.func, ast.Name) and c.func.id == hv for c in ast.walk(n.ast))}
    if body_entry:
        skip = set()
        for be in body_entry:
            if be != t.id:
                skip |= g.reachable(be, avoid={t.id}, labels_excluded={"exc", "reraise", "nomatch"})
        if loop.id in skip or g.exit in skip:
            culprit = next((g.nodes[i] for i in sorted(skip) if g.nodes[i].kind == "stmt" and isinstance(g.nodes[i].ast, (ast.Continue, ast.Break, ast.Return))), None)
            rep.violation(f"{P}.R1", construct, culprit.text() if culprit else "path around the handler test",
                          "a chunk can be passed over before the reader has looked for its handler: whether a chunk is decoded then depends "
                          "on something other than its id having a handler in this reader (e.g. on what earlier loads saw)",
                          f"{rel}:{culprit.lineno if culprit else loop.lineno}")
        else:
            rep.ok(f"{P}.R1", construct, norm(t.ast), "every chunk of the stream reaches the handler test")
    hit = [m for m, lab in g.succ[t.id] if lab == ("false" if neg else "true")]
    if hit and calls:
        around = g.reachable(hit[0], avoid=calls, labels_excluded={"exc", "reraise", "nomatch"}) if hit[0] not in calls else set()
        if loop.id in around:
            rep.violation(f"{P}.R1", construct, f"{hv}(data)", "a chunk whose id has a handler can skip the handler call", f"{rel}:{t.lineno}")
        else:
            rep.ok(f"{P}.R1", construct, f"{hv}(data)", "every chunk with a handler is handed to it")
    # handler name derivation
    src = norm(fn)
    verdict = _handler_lookup(inline.fold_module_names(repo, rd.file, fn, ci=rd))
    if verdict is None:
        rep.ok(f"{P}.R1", construct, "getattr(self, 'process_' + id.decode().strip(), None)", "4-byte ids with trailing blanks (e.g. 'BPM ') find their handler")
    elif verdict.startswith("!"):
        rep.violation(f"{P}.R1", construct, verdict[1:], "handlers must be looked up as process_<stripped id> with a None default", f"{rel}:{fn.lineno}")
    else:
        rep.inconclusive(f"{P}.R1", construct, verdict, "handler look-up not recognised", f"{rel}:{fn.lineno}")
    dvar = norm(loop.ast.target.elts[1]) if isinstance(loop.ast.target, ast.Tuple) and len(loop.ast.target.elts) == 2 else None
    hcalls = [c for n in g.nodes if n.kind == "stmt" and n.ast is not None for c in ast.walk(n.ast)
              if isinstance(c, ast.Call) and isinstance(c.func, ast.Name) and c.func.id == hv]
    if hv is not None and dvar is not None and hcalls and all(len(c.args) == 1 and not c.keywords and norm(c.args[0]) == dvar for c in hcalls):
        rep.ok(f"{P}.R1", construct, f"{hv}({dvar})", nontrivial=False)
    else:
        rep.violation(f"{P}.R1", construct, "; ".join(norm(c) for c in hcalls) or "handler(data)", "the handler is not called with the chunk payload",
                      f"{rel}:{fn.lineno}")
    # ReaderFinished ends the section silently; end of stream calls process_end_of_file
    handlers = [n for n in ast.walk(fn) if isinstance(n, ast.ExceptHandler)]
    if any(h.type is not None and norm(h.type) == "ReaderFinished" and all(isinstance(s, ast.Pass) or (isinstance(s, ast.Return) and s.value is None)
                                                                          for s in h.body) for h in handlers) \
            and "self.process_end_of_file()" in src:
        rep.ok(f"{P}.R1", construct, "except ReaderFinished: pass; process_end_of_file() after the loop")
    else:
        rep.violation(f"{P}.R1", construct, "except ReaderFinished / process_end_of_file", "section termination protocol changed", f"{rel}:{fn.lineno}")
    # broad handlers that would swallow errors / skip chunks
    for h in handlers:
        if h.type is None or norm(h.type) in ("Exception", "BaseException"):
            rep.violation(f"{P}.R1", construct, f"except {norm(h.type) if h.type else ''}", "a broad exception handler hides decoding errors", f"{rel}:{h.lineno}")
    # overrides delegate
    n_over = 0
    for c in repo.all_classes():
        try:
            if c.name != "Reader" and repo.is_subclass(c, "Reader") and "process_chunks" in c.methods:
                n_over += 1
                s = norm(c.methods["process_chunks"])
                if "super().process_chunks()" in s or "super(" in s and ".process_chunks()" in s:
                    rep.ok(f"{P}.R1", f"{c.file.rel}:{c.qualname}.process_chunks", "delegates to Reader.process_chunks")
                else:
                    rep.violation(f"{P}.R1", f"{c.file.rel}:{c.qualname}.process_chunks", s[:120],
                                  "an override of process_chunks no longer delegates to the generic dispatcher", c.file.rel)
        except AnchorMissing:
            pass
    rep.count("process_chunks_overrides", n_over, 3)
    # iff.chunks: reads every chunk, stops only at EOF
    cf = repo.func("rv.lib.iff", "chunks")
    s = norm(cf)
    verdict = _chunk_iterator(repo, cf)
    if verdict == "ok":
        rep.ok(f"{P}.R1", "src/python/rv/lib/iff.py:chunks", "Chunk(f, align=False, bigendian=False); yield name, read()", "unaligned little-endian chunks until EOF")
    elif verdict.startswith("?"):
        rep.inconclusive(f"{P}.R1", "src/python/rv/lib/iff.py:chunks", s[:200], f"chunk iterator not recognised: {verdict[1:]}", "src/python/rv/lib/iff.py")
    else:
        rep.violation(f"{P}.R1", "src/python/rv/lib/iff.py:chunks", verdict, "the chunk iterator must read unaligned little-endian chunks until EOF",
                      "src/python/rv/lib/iff.py")


def _chunk_iterator(repo: Repo, cf: ast.FunctionDef) -> str:
    """'ok' / '?why' / what is wrong.  The iterator opens one unaligned little-endian Chunk per round of an endless loop, yields
    (name, payload), skips to the next chunk, and leaves the loop only through EOFError."""
    try:
        cf = inline.normalize(repo, None, cf, sf=repo.module("rv.lib.iff"))          # `with suppress(EOFError):` read as try/except
    except Exception:
        pass
    fparam = cf.args.args[0].arg if cf.args.args else "f"
    loops = [n for n in walk_no_nested(cf) if isinstance(n, (ast.While, ast.For))]
    if len(loops) != 1 or not isinstance(loops[0], ast.While):
        return "?one `while` loop expected"
    lp = loops[0]
    try:
        endless = bool(repo.fold(lp.test)) is True
    except NotConst:
        endless = False
    if not endless:
        return f"the loop runs while {norm(lp.test)}: chunks after that point are not delivered"
    opens = [n for n in ast.walk(lp) if isinstance(n, ast.Assign) and isinstance(n.value, ast.Call) and norm(n.value.func).split(".")[-1] == "Chunk"
             and len(n.targets) == 1 and isinstance(n.targets[0], ast.Name)]
    if len(opens) != 1:
        return "?Chunk(...) construction"
    call = opens[0].value
    c = opens[0].targets[0].id
    opts = {"align": True, "bigendian": True}
    names = ["file", "align", "bigendian", "inclheader"]
    try:
        for i, a in enumerate(call.args):
            if names[i] in opts:
                opts[names[i]] = repo.fold(a)
        for k in call.keywords:
            if k.arg in opts:
                opts[k.arg] = repo.fold(k.value)
            elif k.arg is None:
                # Chunk(f, **LAYOUT) with LAYOUT a constant dict of the module
                d = inline.definition_of(repo, None, repo.module("rv.lib.iff"), k.value) if isinstance(k.value, (ast.Name, ast.Attribute)) else k.value
                if isinstance(d, ast.Call) and norm(d.func) == "dict" and not d.args:
                    d = ast.Dict(keys=[ast.Constant(value=kk.arg) for kk in d.keywords], values=[kk.value for kk in d.keywords])
                if not isinstance(d, ast.Dict):
                    return "?Chunk options not constant"
                for kk, vv in zip(d.keys, d.values):
                    key = repo.fold(kk)
                    if key in opts:
                        opts[key] = repo.fold(vv)
    except (NotConst, IndexError):
        return "?Chunk options not constant"
    if not call.args or norm(call.args[0]) != fparam:
        return f"?Chunk is opened on {norm(call.args[0]) if call.args else 'nothing'}"
    if opts["align"] or opts["bigendian"]:
        return f"{norm(call)}: SunVox chunks are unaligned and little-endian"
    ys = [n for n in ast.walk(lp) if isinstance(n, ast.Yield)]
    if len(ys) != 1 or not isinstance(ys[0].value, ast.Tuple) or len(ys[0].value.elts) != 2:
        return "?yield shape"
    from ..packed import single_defs as _sd_ci, resolve_names as _rn_ci
    _ldefs = {k_: v_ for k_, v_ in _sd_ci(ast.Module(body=lp.body, type_ignores=[])).items() if k_ != c}
    yielded = [norm(_rn_ci(e, _ldefs)) for e in ys[0].value.elts]          # `name = c.getname(); data = c.read(); yield name, data`
    if yielded != [f"{c}.getname()", f"{c}.read()"]:
        if any(isinstance(e, ast.Name) and e.id not in _ldefs for e in ys[0].value.elts):
            return f"?{norm(ys[0])}: what is yielded is not followed"
        return f"{norm(ys[0])} is yielded instead of ({c}.getname(), {c}.read())"
    skips = [n for n in ast.walk(lp) if isinstance(n, ast.Call) and norm(n.func) == f"{c}.skip"]
    if not skips or inline.pos(skips[0]) < inline.pos(ys[0]):
        return f"?{c}.skip() after the yield"
    # exits: only through an EOFError handler
    handlers = [h for h in ast.walk(cf) if isinstance(h, ast.ExceptHandler)]
    eof = [h for h in handlers if h.type is not None and norm(h.type) == "EOFError"]
    if not eof or len(handlers) != len(eof):
        return "?exception handlers " + ", ".join(norm(h.type) if h.type else "bare" for h in handlers)
    in_handlers = {id(x) for h in eof for x in ast.walk(h)}
    for n in ast.walk(cf):
        if isinstance(n, (ast.Break, ast.Return)) and id(n) not in in_handlers:
            return f"`{norm(n)}` leaves the loop before the end of the stream"
        if isinstance(n, ast.Continue):
            return "?continue"
    # the try must enclose the chunk construction (EOFError comes from Chunk(...))
    tries = [t for t in ast.walk(cf) if isinstance(t, ast.Try) and any(x is opens[0] for x in ast.walk(t) if not isinstance(x, ast.ExceptHandler))]
    if not tries:
        return "?the EOFError handler does not cover Chunk(...)"
    return "ok"


def _handler_lookup(fn: ast.FunctionDef) -> Optional[str]:
    """None = sound; '!msg' = definitely wrong; other text = unrecognised."""
    from ..codec import subst
    defs: Dict[str, ast.expr] = {}
    order = [n for n in walk_no_nested(fn) if isinstance(n, ast.Assign) and len(n.targets) == 1 and isinstance(n.targets[0], ast.Name)]
    order.sort(key=lambda n: inline.pos(n))
    look = None
    for n in walk_no_nested(fn):
        if isinstance(n, ast.Call) and norm(n.func) == "getattr" and len(n.args) >= 2 and norm(n.args[0]) == "self":
            look = n
    if look is None:
        return "no getattr(self, …) look-up"
    if len(look.args) < 3 or norm(look.args[2]) != "None":
        return "!" + norm(look) + "  (no None default: an id without a handler raises AttributeError)"
    # resolve the name expression through local definitions (last definition before the look-up wins)
    env: Dict[str, ast.expr] = {}
    for a in order:
        if inline.pos(a) < inline.pos(look):
            t = a.targets[0].id
            env[t] = subst(a.value, {k: v for k, v in env.items() if k != t} | ({t: env[t]} if t in env else {}))
    e = subst(look.args[1], env)
    txt = norm(e)
    const_parts = []
    var_parts = []
    if isinstance(e, ast.JoinedStr):
        for v in e.values:
            (const_parts if isinstance(v, ast.Constant) else var_parts).append(v.value if isinstance(v, ast.Constant) else v.value)
    elif isinstance(e, ast.Call) and isinstance(e.func, ast.Attribute) and e.func.attr == "format" and isinstance(e.func.value, ast.Constant):
        const_parts = [e.func.value.value.replace("{}", "").replace("{0}", "")]
        var_parts = list(e.args)
    elif isinstance(e, ast.BinOp) and isinstance(e.op, ast.Add) and isinstance(e.left, ast.Constant):
        const_parts, var_parts = [e.left.value], [e.right]
    elif isinstance(e, ast.BinOp) and isinstance(e.op, ast.Mod) and isinstance(e.left, ast.Constant):
        const_parts, var_parts = [e.left.value.replace("%s", "")], [e.right]
    else:
        return f"name expression {txt[:80]}"
    if "".join(str(c) for c in const_parts) != "process_" or len(var_parts) != 1:
        return "!" + txt[:100] + "  (handler names are process_<ID>)"
    vtxt = norm(var_parts[0])
    if ".decode(" not in vtxt:
        return f"id expression {vtxt[:80]}"
    if ".strip()" not in vtxt and ".rstrip()" not in vtxt:
        return "!" + vtxt[:100] + "  (the 4-byte id is not stripped: 'BPM ' would look for process_BPM␠)"
    return None


# ------------------------------------------------------------------------------------ R2
def doc_parity(repo: Repo, rep, P: str):
    tables = docs.load_tables(repo)
    spec = docs.load_spec(repo)
    sc = docs.spec_chunks(spec)
    secs = parity.sections(repo)
    n = 0
    for name in ("project", "pattern", "clone", "module"):
        sec = secs[name]
        rst_rows = {}
        for cid, fmt, purpose in docs.chunk_doc_rows(tables, c03.RST_SECTION[name]):
            rst_rows.setdefault(cid, fmt)
        if name == "module":
            for extra in ("General format", "Waveform chunk"):
                for cid, fmt, _ in docs.chunk_doc_rows(tables, extra):
                    rst_rows.setdefault(cid, fmt)
        for cid, r in sorted(sec.reader.items()):
            if r.shape not in ("unpack", "packed") and not (r.shape == "custom" and r.fmt is not None):
                if r.shape == "cstring":
                    srcs = []
                    if cid in rst_rows:
                        srcs.append(rst_rows[cid])
                    srcs += [e["type"].get("kind") for e in sc.get(cid, [])]
                    if srcs and not any(("string" in str(x)) for x in srcs):
                        rep.violation(f"{P}.R2", f"{r.rel}:{r.cls}.process_{cid}", f"cstring vs documented {srcs}",
                                      f"{cid} is decoded as text but documented otherwise", r.where)
                    elif srcs:
                        n += 1
                        rep.ok(f"{P}.R2", f"{r.rel}:{r.cls}.process_{cid}", f"{cid}: text", f"documented {srcs[0]}")
                elif r.shape == "custom" and not r.cstring_head and any(".decode(" in x for x in r.stmts):
                    srcs = []
                    if cid in rst_rows:
                        srcs.append(rst_rows[cid])
                    srcs += [e["type"].get("kind") for e in sc.get(cid, [])]
                    joined = "; ".join(r.stmts)
                    uncut = re.search(r"(?<![\w.\])])data\.decode\(|\bdata\.(?:r?strip|replace)\([^)]*\)\.decode\(|"
                                                                                   r"\bdata\[[^\]]*\]\.decode\(", joined)
                    if srcs and any(("string" in str(x)) for x in srcs) and not uncut:
                        # the payload reaches decode() through something this rule does not read (a helper, another spelling of the cut)
                        rep.inconclusive(f"{P}.R2", f"{r.rel}:{r.cls}.process_{cid}", joined[:140],
                                         f"{cid} is documented as NUL-terminated text; how the handler cuts the payload before decoding is not recognised", r.where)
                    elif srcs and any(("string" in str(x)) for x in srcs):
                        n += 1
                        rep.violation(f"{P}.R2", f"{r.rel}:{r.cls}.process_{cid}", "; ".join(r.stmts)[:140],
                                      f"{cid} is documented as NUL-terminated text, but the handler decodes the payload without cutting it at the first "
                                      "NUL (e.g. rstrip keeps whatever follows an embedded terminator): files from other writers load with garbage in the text",
                                      r.where)
                continue
            if r.fmt is None:
                continue
            rcon = f"{r.rel}:{r.cls}.process_{cid}"
            sizes = []
            okf = True
            for c in r.fmt.codes:
                try:
                    sizes.append(struct.calcsize("<" + c))
                except struct.error:
                    okf = False
            if not okf:
                rep.inconclusive(f"{P}.R2", rcon, r.fmt.show(), "format not understood", r.where)
                continue
            rd = {"kind": "pack", "sizes": tuple(sizes), "variable": r.fmt.variable, "codes": r.fmt.codes, "order": r.fmt.order}
            sources = []
            if cid in rst_rows:
                d = c03.rst_desc(rst_rows[cid])
                if d:
                    sources.append(("RST", rst_rows[cid], d))
            for ent in sc.get(cid, []):
                d = c03.yaml_desc(ent["type"], spec)
                if d:
                    sources.append(("YAML", f"{ent['name']}: {ent['type_name']}", d))
            if not sources:
                rep.info(f"{P}.R2", rcon, r.fmt.show(), f"{cid} has a handler but no documented layout")
                continue
            n += 1
            verdicts = [(s, t, *c03._shape_agrees(rd, d)) for s, t, d in sources]
            if not any(v[2] for v in verdicts):
                rep.violation(f"{P}.R2", rcon, f"{cid}: unpack {r.fmt.show()!r}",
                              f"{cid}: the reader's layout agrees with no documentation source: "
                              + "; ".join(f"{s} `{t}`: {why}" for s, t, ok, why in verdicts), r.where)
                continue
            if any(s > 1 for s in sizes) and r.fmt.order != "<":
                rep.violation(f"{P}.R2", rcon, f"{cid}: unpack {r.fmt.show()!r}", "multi-byte fields must be read little-endian", r.where)
                continue
            rep.ok(f"{P}.R2", rcon, f"{cid}: unpack {r.fmt.show()!r}", f"layout = {', '.join(s for s, t, ok, why in verdicts if ok)}")
            # signed parent with explicit negative bound needs a signed reader code
            for s, t, d in sources:
                if d.get("min") is not None and d["min"] < 0 and r.fmt.codes[0].isupper():
                    rep.violation(f"{P}.R2", rcon, f"{cid}: unpack {r.fmt.show()!r}",
                                  f"{cid}: documented minimum {d['min']} ({s} {t}) cannot be decoded with an unsigned format", r.where)
                if d.get("variable") and d.get("signed") and r.fmt.codes[0].isupper():
                    rep.violation(f"{P}.R2", rcon, f"{cid}: unpack {r.fmt.show()!r}",
                                  f"{cid}: list elements are documented signed (-1 marks a freed slot) but read unsigned", r.where)
    rep.count("reader_rows_compared_with_docs", n, 55)
    # every documented chunk has a handler in its section reader
    for name in ("project", "pattern", "clone", "module"):
        sec = secs[name]
        for cid, fmt, purpose in docs.chunk_doc_rows(tables, c03.RST_SECTION[name]):
            if cid not in sec.reader:
                rep.violation(f"{P}.R2", f"{sec.reader_cls.file.rel}:{sec.reader_cls.qualname}", f"process_{cid}",
                              f"the format document lists {cid} in the {name} section but {sec.reader_cls.qualname} has no handler: "
                              "the field is silently dropped when loading", sec.reader_cls.file.rel)


# ------------------------------------------------------------------------------------ R3
def termination(repo: Repo, rep, P: str):
    for cname, mod, meth in (("PatternReader", "rv.readers.pattern", "process_PEND"),
                             ("PatternCloneReader", "rv.readers.pattern", "process_PEND"),
                             ("ModuleReader", "rv.readers.module", "process_SEND"),
                             ("SunVoxReader", "rv.readers.sunvox", "process_end_of_file"),
                             ("SunSynthReader", "rv.readers.sunsynth", "process_end_of_file"),
                             ("InitialReader", "rv.readers.initial", "process_end_of_file")):
        ci = repo.cls(cname, module=mod)
        fn = repo.own_method(ci, meth)
        g = CFG(fn)
        con = f"{ci.file.rel}:{cname}.{meth}"
        rep.func(f"{mod}.{cname}.{meth}")
        # normal exit must be unreachable: every non-exceptional path ends in raise ReaderFinished()
        reach = g.reachable(labels_excluded={"exc", "reraise", "nomatch"})
        raises = [n for n in g.nodes if n.kind == "stmt" and isinstance(n.ast, ast.Raise) and n.ast.exc is not None and "ReaderFinished" in norm(n.ast.exc)]
        if g.exit in reach or not raises:
            rep.violation(f"{P}.R3", con, "raise ReaderFinished()",
                          f"{cname}.{meth} can return normally: the section reader keeps consuming the chunks of the following "
                          "pattern/module (or the end of file raises RuntimeError)", f"{ci.file.rel}:{fn.lineno}")
        else:
            rep.ok(f"{P}.R3", con, "raise ReaderFinished()", "on every normal path")
    rd = repo.cls("Reader", module="rv.readers.reader")
    rw = repo.own_method(rd, "rewind")
    s = norm(rw)
    wc = inline.normalize(repo, None, repo.func("rv.lib.iff", "write_chunk"), sf=repo.module("rv.lib.iff"))
    hdr = None
    for n in walk_no_nested(wc):
        if isinstance(n, ast.Call) and norm(n.func) in ("struct.pack", "pack") and n.args:
            try:
                hdr = 4 + struct.calcsize(repo.fold(n.args[0], sf=repo.module("rv.lib.iff")))
            except (NotConst, struct.error):
                pass
    if hdr is None:
        rep.inconclusive(f"{P}.R3", f"{rd.file.rel}:Reader.rewind", norm(wc)[:160], "the size of the chunk header write_chunk emits was not derived",
                         f"{rd.file.rel}:{rw.lineno}")
        return
    from .. import alg
    from ..packed import single_defs, resolve_names
    rwn = inline.normalize(repo, rd, rw)
    dparam = [a.arg for a in rwn.args.args if a.arg != "self"][0]
    seeks = [c for c in ast.walk(rwn) if isinstance(c, ast.Call) and norm(c.func) == "self.f.seek" and c.args]
    rdefs = single_defs(rwn)

    def rleaf(e):
        if norm(e) == "self.f.tell()":
            return alg.Poly.sym("T")
        if norm(e) == f"len({dparam})":
            return alg.Poly.sym("L")
        if isinstance(e, (ast.Name, ast.Attribute)):
            try:
                c = repo.fold(e, ci=rd)
            except (NotConst, AnchorMissing):
                return None
            if isinstance(c, int) and not isinstance(c, bool):
                return alg.Poly.const(c)
        return None
    verdict = None
    if len(seeks) == 1 and len(seeks[0].args) == 1:
        try:
            target = alg.to_poly(resolve_names(seeks[0].args[0], rdefs), rleaf)
            verdict = target == alg.Poly.sym("T") - alg.Poly.sym("L") - hdr
        except alg.NotAlgebraic:
            verdict = None
    if verdict:
        rep.ok(f"{P}.R3", f"{rd.file.rel}:Reader.rewind", f"tell() − len(data) − {hdr}", f"= payload + the {hdr}-byte header write_chunk emits")
    elif verdict is None:
        rep.inconclusive(f"{P}.R3", f"{rd.file.rel}:Reader.rewind", s[:160], "seek target not recognised", f"{rd.file.rel}:{rw.lineno}")
    else:
        rep.violation(f"{P}.R3", f"{rd.file.rel}:Reader.rewind", s[:160],
                      f"rewind must move back by len(data) + {hdr} (id + length field) so the section reader re-reads the opening chunk",
                      f"{rd.file.rel}:{rw.lineno}")
    base_eof = repo.own_method(rd, "process_end_of_file")
    if "raise RuntimeError" in norm(base_eof):
        rep.ok(f"{P}.R3", f"{rd.file.rel}:Reader.process_end_of_file", "raise RuntimeError", "a section that ends without its terminator is an error", nontrivial=False)


# ------------------------------------------------------------------------------------ R4
def positions(repo: Repo, rep, P: str):
    n_sites = 0
    for rel, sf in sorted(repo.files.items()):
        if not sf.modname.startswith("rv.readers"):
            continue
        for c in ast.walk(sf.tree):
            if isinstance(c, ast.Call) and isinstance(c.func, ast.Attribute) and c.func.attr == "attach_module":
                n_sites += 1
                kw = {k.arg: k.value for k in c.keywords}
                loading = kw.get("loading") or (c.args[1] if len(c.args) > 1 else None)
                if loading is not None and isinstance(loading, ast.Constant) and loading.value is True:
                    rep.ok(f"{P}.R4", f"{rel}", norm(c), "loading=True")
                else:
                    rep.violation(f"{P}.R4", f"{rel}", norm(c),
                                  "a module read from a file is attached without loading=True: it is moved into the lowest empty "
                                  "position instead of the position it has in the file", f"{rel}:{c.lineno}")
            if isinstance(c, ast.Call) and isinstance(c.func, ast.Attribute) and c.func.attr == "new_module":
                rep.violation(f"{P}.R4", f"{rel}", norm(c), "readers must not create modules through new_module (gap filling)", f"{rel}:{c.lineno}")
    rep.count("reader_attach_sites", n_sites, 2)
    # under loading, attach_module only appends
    proj = repo.cls("Project", module="rv.project")
    from . import c14 as _c14
    fn0 = _c14._nm(repo, proj, "attach_module")
    prel = proj.file.rel
    params = [a.arg for a in fn0.args.args if a.arg != "self"]
    lp = params[1] if len(params) > 1 else "loading"
    # the function as it runs with loading=True: tests decided by that (directly or through locals computed from it) are resolved,
    # code that cannot run is dropped (sa/inline.py: specialize)
    fn = inline.specialize(fn0, {lp: True})
    value_tests = set(_c14._value_tests(fn, set()))
    bad: List[Tuple[ast.stmt, List[str]]] = []

    def scan(stmts, tests: List[str]):
        for st in stmts:
            if isinstance(st, ast.If):
                scan(st.body, tests + [norm(st.test)])
                scan(st.orelse, tests + [norm(st.test)])
                continue
            if isinstance(st, (ast.For, ast.While, ast.With, ast.Try)):
                for fld in ("body", "orelse", "finalbody"):
                    scan(getattr(st, fld, []) or [], tests)
                for h in getattr(st, "handlers", []):
                    scan(h.body, tests)
                continue
            for s_ in ast.walk(st):
                if isinstance(s_, ast.Subscript) and isinstance(s_.ctx, (ast.Store, ast.Del)) and norm(s_.value) == "self.modules":
                    if isinstance(s_.slice, ast.Slice):
                        # a slice store at the end of the list (`L[len(L):] = [m]`, `L[n:n + 1] = [m]` with n = len(L)) is an append
                        lo_ = resolve_names(s_.slice.lower, ldefs) if s_.slice.lower is not None else None
                        if lo_ is not None and norm(lo_) == "len(self.modules)" and isinstance(s_.ctx, ast.Store):
                            continue
                        unread.append((st, tests))
                    else:
                        bad.append((st, tests))
                if isinstance(s_, ast.Call) and isinstance(s_.func, ast.Attribute) and norm(s_.func.value) == "self.modules" \
                        and s_.func.attr in ("insert", "pop", "remove", "sort", "reverse", "clear"):
                    if s_.func.attr == "insert" and s_.args:
                        at_ = resolve_names(s_.args[0], ldefs)
                        if norm(at_) == "len(self.modules)":
                            continue                                   # insert at the end is an append
                        if not isinstance(at_, ast.Constant):
                            unread.append((st, tests))
                            continue
                    bad.append((st, tests))
    from ..packed import single_defs, resolve_names
    ldefs = single_defs(fn)
    unread: List[Tuple[ast.stmt, List[str]]] = []
    scan(fn.body, [])
    definite = [(st, t) for st, t in bad if not (set(t) & value_tests)]
    if not definite and unread:
        bad = bad + unread
    if definite:
        st = definite[0][0]
        rep.violation(f"{P}.R4", f"{prel}:Project.attach_module", norm(st)[:160],
                      "with loading=True a module can be placed other than by append: positions found in the file are rearranged",
                      f"{prel}:{st.lineno}")
    elif bad:
        rep.inconclusive(f"{P}.R4", f"{prel}:Project.attach_module", "; ".join(sorted(set(bad[0][1]) & value_tests))[:160],
                         "attach_module decides on computed values; placement under loading=True not derivable from path conditions",
                         f"{prel}:{fn.lineno}")
    else:
        rep.ok(f"{P}.R4", f"{prel}:Project.attach_module", "specialised for loading=True: no store / insert / removal on self.modules remains",
               "under loading=True the only list mutation is append")
    from . import c14
    c14.none_slot_first(repo, rep, P, "R4")
    # project-level SEND = empty position
    sv = repo.cls("SunVoxReader", module="rv.readers.sunvox")
    s = norm(repo.own_method(sv, "process_SEND"))
    if "self.object.attach_module(None, loading=True)" in s:
        rep.ok(f"{P}.R4", f"{sv.file.rel}:SunVoxReader.process_SEND", "attach_module(None, loading=True)", "an empty position in the file stays an empty position")
    else:
        rep.violation(f"{P}.R4", f"{sv.file.rel}:SunVoxReader.process_SEND", s[:120], "a bare SEND must append an empty module position", sv.file.rel)
    eof = inline.normalize(repo, sv, repo.own_method(sv, "process_end_of_file"), aliases=True)
    n_trim = 0
    trims = trailing_none_trims(eof)
    inside_trim = {id(x) for t in trims for x in ast.walk(t)}
    for n in ast.walk(eof):
        removing = None
        if isinstance(n, ast.Call) and isinstance(n.func, ast.Attribute) and norm(n.func.value) == "self.object.modules" \
                and n.func.attr in ("pop", "remove", "insert", "sort", "reverse", "clear"):
            removing = n
        if isinstance(n, ast.Delete) and any(isinstance(t, ast.Subscript) and norm(t.value) == "self.object.modules" for t in n.targets):
            removing = n
        if removing is None:
            continue
        n_trim += 1
        if id(removing) in inside_trim:
            rep.ok(f"{P}.R4", f"{sv.file.rel}:SunVoxReader.process_end_of_file", norm(removing)[:80],
                   "only trailing empty positions are removed")
        elif (isinstance(removing, ast.Call) and removing.func.attr == "pop" and [norm(a) for a in removing.args] in ([], ["-1"])) or \
                (isinstance(removing, ast.Delete) and all(isinstance(t, ast.Subscript) and (norm(t.slice) == "-1" or (
                    isinstance(t.slice, ast.Slice) and t.slice.upper is None and t.slice.step is None and t.slice.lower is not None
                    and norm(t.slice.lower) not in ("0",))) for t in removing.targets)):
            # an edit at the tail of the list whose extent this rule does not read
            rep.inconclusive(f"{P}.R4", f"{sv.file.rel}:SunVoxReader.process_end_of_file", norm(removing)[:120],
                             "positions are removed from the end of the module list; that only trailing empty positions go is not recognised",
                             f"{sv.file.rel}:{removing.lineno}")
        else:
            rep.violation(f"{P}.R4", f"{sv.file.rel}:SunVoxReader.process_end_of_file", norm(removing)[:120],
                          "module positions are removed/rearranged at end of file other than by dropping trailing empty positions",
                          f"{sv.file.rel}:{removing.lineno}")
    rep.instances["end_of_file_position_edits"] = n_trim
    removals = []
    for rel, sf in sorted(repo.files.items()):
        if not sf.modname.startswith("rv.readers"):
            continue
        for c in ast.walk(sf.tree):
            if isinstance(c, ast.Call) and isinstance(c.func, ast.Attribute) and c.func.attr in ("pop", "remove", "insert", "sort", "reverse") \
                    and norm(c.func.value).endswith(".modules"):
                removals.append((rel, c))
            if isinstance(c, ast.Delete) and any(".modules" in norm(t) for t in c.targets):
                removals.append((rel, c))
    if len(removals) == 1:
        rep.ok(f"{P}.R4", "rv/readers/*", norm(removals[0][1]), "the trailing strip is the only reordering/removal of module positions in the readers")
    else:
        for rel, c in removals[1:]:
            rep.violation(f"{P}.R4", rel, norm(c), "module positions are rearranged while loading", f"{rel}:{c.lineno}")
    # index handed to ModuleReader = position in the list
    s2 = norm(repo.own_method(sv, "process_SFFF"))
    if "index = len(self.object.modules)" in s2 and "self.object.attach_module(mod, loading=True)" in s2:
        rep.ok(f"{P}.R4", f"{sv.file.rel}:SunVoxReader.process_SFFF", "index = len(modules); attach_module(mod, loading=True)")
    pcf = inline.normalize(repo, sv, repo.own_method(sv, "process_chunks"), aliases=True)
    pc = norm(pcf)
    if any(isinstance(c, ast.Call) and isinstance(c.func, ast.Attribute) and c.func.attr == "clear" and norm(c.func.value).endswith(".modules")
           for c in ast.walk(pcf)):
        rep.ok(f"{P}.R4", f"{sv.file.rel}:SunVoxReader.process_chunks", "self.object.modules.clear()", "positions start at 0 for the file's first module", nontrivial=False)
    else:
        rep.violation(f"{P}.R4", f"{sv.file.rel}:SunVoxReader.process_chunks", pc[:160], "the pre-attached Output must be dropped before reading the file's modules",
                      sv.file.rel)


# ------------------------------------------------------------------------------------ R5
def short_cval(repo: Repo, rep, P: str):
    mr = repo.cls("ModuleReader", module="rv.readers.module")
    fn = repo.own_method(mr, "process_SEND")
    rel = mr.file.rel
    s = norm(fn)
    con = f"{rel}:ModuleReader.process_SEND"
    from .. import order
    app = order.cval_application(repo)
    if app.positional is True and app.bounded is True:
        rep.ok(f"{P}.R5", con, app.text[:160],
               "only the controllers named by the stored values are touched; extra values are ignored")
    elif app.positional is None or app.direction is None:
        rep.inconclusive(f"{P}.R5", con, app.text[:200], "application of the stored values not recognised", f"{rel}:{app.where}")
    else:
        rep.violation(f"{P}.R5", con, app.text[:200], "stored values must be applied by position, bounded by the controller list "
                      f"(positional={app.positional}, bounded={app.bounded})", f"{rel}:{app.where}")
    fn = inline.flatten(repo, mr, fn)
    others = [n for n in walk_no_nested(fn) if isinstance(n, ast.Attribute) and n.attr == "controller_values" and isinstance(n.ctx, ast.Store)]
    resets = [n for n in walk_no_nested(fn) if isinstance(n, ast.Call) and isinstance(n.func, ast.Attribute)
              and isinstance(n.func.value, ast.Attribute) and n.func.value.attr == "controller_values"]
    if others or resets:
        rep.violation(f"{P}.R5", con, norm((others + resets)[0]), "controller values are reset/overwritten wholesale at SEND: controllers "
                      "beyond the stored list no longer keep their defaults", f"{rel}:{fn.lineno}")
    else:
        rep.ok(f"{P}.R5", con, "no other store to controller_values", "controllers beyond the list keep the constructor default")
    cvf = inline.normalize(repo, mr, repo.own_method(mr, "process_CVAL"))
    cv = norm(cvf)
    from ..packed import single_defs
    dpar = [a.arg for a in cvf.args.args if a.arg != "self"][0]
    unp = [c for c in ast.walk(cvf) if isinstance(c, ast.Call) and norm(c.func) in ("unpack", "struct.unpack") and len(c.args) == 2 and norm(c.args[1]) == dpar]
    fmts = set()
    for c in unp:
        try:
            fmts.add(repo.fold(c.args[0], ci=mr))
        except NotConst:
            fmts.add(None)
    collected = False
    cdefs = single_defs(cvf)
    unpacked_names = {t.id for n in ast.walk(cvf) if isinstance(n, ast.Assign) and n.value in unp for tt in n.targets
                      for t in (tt.elts if isinstance(tt, (ast.Tuple, ast.List)) else [tt]) if isinstance(t, ast.Name)}
    for n in ast.walk(cvf):
        if isinstance(n, ast.Call) and isinstance(n.func, ast.Attribute) and n.func.attr in ("append", "extend") and norm(n.func.value) == "self._cvals" and n.args:
            a = n.args[0]
            collected = collected or a in unp or (isinstance(a, ast.Name) and a.id in unpacked_names) or \
                (n.func.attr == "append" and isinstance(a, ast.Subscript) and a.value in unp and isinstance(a.slice, ast.Constant) and a.slice.value == 0)
        if isinstance(n, ast.AugAssign) and isinstance(n.op, ast.Add) and norm(n.target) == "self._cvals":
            a = n.value
            collected = collected or a in unp or (isinstance(a, ast.Name) and a.id in unpacked_names) or \
                (isinstance(a, (ast.List, ast.Tuple)) and all(isinstance(x, ast.Name) and x.id in unpacked_names for x in a.elts))
    if collected and fmts == {"<i"}:
        rep.ok(f"{P}.R5", f"{rel}:ModuleReader.process_CVAL", "(raw,) = unpack('<i', data); self._cvals.append(raw)", "values collected in file order")
    elif not collected or None in fmts or not fmts:
        rep.inconclusive(f"{P}.R5", f"{rel}:ModuleReader.process_CVAL", cv[:120], "collection of the stored value not recognised", rel)
    else:
        rep.violation(f"{P}.R5", f"{rel}:ModuleReader.process_CVAL", cv[:120], f"each CVAL must be collected in order as a signed 32-bit value (format {sorted(fmts)})", rel)
    init = norm(repo.own_method(mr, "__init__"))
    if "self._cvals = []" in init:
        rep.ok(f"{P}.R5", f"{rel}:ModuleReader.__init__", "self._cvals = []", "fresh list per module", nontrivial=False)
    else:
        rep.violation(f"{P}.R5", f"{rel}:ModuleReader.__init__", init[:120], "stored values must be collected per module", rel)


# ------------------------------------------------------------------------------------ R6
def fixups(repo: Repo, rep, P: str):
    sv = repo.cls("SunVoxReader", module="rv.readers.sunvox")
    rel = sv.file.rel
    pcf = inline.normalize(repo, sv, repo.own_method(sv, "process_chunks"), aliases=True)
    pc = norm(pcf)
    init_none = any(isinstance(n, ast.Assign) and any(isinstance(t, ast.Attribute) and t.attr == "based_on_version" for t in n.targets)
                    and isinstance(n.value, ast.Constant) and n.value.value is None for n in ast.walk(pcf))
    legacy = False
    for n in ast.walk(pcf):
        if isinstance(n, ast.If) and isinstance(n.test, ast.Compare) and isinstance(n.test.left, ast.Attribute) and n.test.left.attr == "based_on_version" \
                and isinstance(n.test.ops[0], ast.Is) and norm(n.test.comparators[0]) == "None":
            for b in n.body:
                if isinstance(b, ast.Assign) and any(isinstance(t, ast.Attribute) and t.attr == "based_on_version" for t in b.targets):
                    try:
                        legacy = repo.fold(b.value, ci=sv, sf=sv.file) == (1, 7, 0, 0)
                    except NotConst:
                        legacy = False
    if init_none and legacy:
        rep.ok(f"{P}.R6", f"{rel}:SunVoxReader.process_chunks", "BVER absent → (1, 7, 0, 0)", "legacy default")
    else:
        rep.violation(f"{P}.R6", f"{rel}:SunVoxReader.process_chunks", pc[:200], "files without BVER must get the legacy based-on version", rel)
    module_highbyte_fixup(repo, rep, P, "R6", require_present=True)


def trailing_none_trims(fn: ast.FunctionDef, table: str = "self.object.modules") -> List[ast.stmt]:
    """Statements of `fn` (top level) that drop the trailing None entries of `table` and nothing else:
         while T and T[-1] is None: T.pop() | del T[-1]
         n = len(T); while n and T[n - 1] is None: n -= 1;   del T[n:]"""
    out: List[ast.stmt] = []
    body = fn.body
    for i, st in enumerate(body):
        if isinstance(st, ast.While) and not st.orelse:
            conj = st.test.values if isinstance(st.test, ast.BoolOp) and isinstance(st.test.op, ast.And) else [st.test]
            texts = [norm(c) for c in conj]
            real = [b for b in st.body if not isinstance(b, ast.Pass)]
            if f"{table}[-1] is None" in texts and len(real) == 1:
                b = real[0]
                if (isinstance(b, ast.Expr) and norm(b.value) in (f"{table}.pop()", f"{table}.pop(-1)")) or \
                        (isinstance(b, ast.Delete) and [norm(t) for t in b.targets] == [f"{table}[-1]"]):
                    out.append(st)
                    continue
            # index scan: while n and T[n - 1] is None: n -= 1
            for c in conj:
                if isinstance(c, ast.Compare) and len(c.ops) == 1 and isinstance(c.ops[0], ast.Is) and norm(c.comparators[0]) == "None" \
                        and isinstance(c.left, ast.Subscript) and norm(c.left.value) == table and isinstance(c.left.slice, ast.BinOp) \
                        and isinstance(c.left.slice.op, ast.Sub) and isinstance(c.left.slice.left, ast.Name) and norm(c.left.slice.right) == "1" \
                        and len(real) == 1 and isinstance(real[0], ast.AugAssign) and isinstance(real[0].op, ast.Sub) \
                        and norm(real[0].target) == c.left.slice.left.id and norm(real[0].value) == "1":
                    v = c.left.slice.left.id
                    init = [x for x in body[:i] if isinstance(x, ast.Assign) and norm(x.targets[0]) == v and norm(x.value) == f"len({table})"]
                    dels = [x for x in body[i + 1:] if isinstance(x, ast.Delete) and [norm(t) for t in x.targets] == [f"{table}[{v}:]"]]
                    if init and dels:
                        out.extend([st, dels[0]])
        # k = sum(1 for _ in takewhile(lambda m: m is None, reversed(T)))  /  len(list(takewhile(…)));   del T[len(T) - k:]
        if isinstance(st, ast.Delete) and len(st.targets) == 1 and isinstance(st.targets[0], ast.Subscript) and norm(st.targets[0].value) == table \
                and isinstance(st.targets[0].slice, ast.Slice) and st.targets[0].slice.upper is None and st.targets[0].slice.step is None:
            lo = st.targets[0].slice.lower
            if isinstance(lo, ast.BinOp) and isinstance(lo.op, ast.Sub) and norm(lo.left) == f"len({table})" and isinstance(lo.right, ast.Name):
                v = lo.right.id
                defs = [x for x in body[:i] if isinstance(x, ast.Assign) and len(x.targets) == 1 and norm(x.targets[0]) == v]
                stores = [x for x in ast.walk(fn) if isinstance(x, ast.Name) and x.id == v and isinstance(x.ctx, ast.Store)]
                if len(defs) == 1 and len(stores) == 1 and _counts_trailing_none(defs[0].value, table):
                    out.append(st)
    return out


def _counts_trailing_none(e: ast.expr, table: str) -> bool:
    """`e` is the number of None entries at the end of `table`: sum(1 for _ in TW) / len(list(TW)) / len(tuple(TW)) with
    TW = takewhile(lambda m: m is None, reversed(table))."""
    def is_tw(x: ast.expr) -> bool:
        if not (isinstance(x, ast.Call) and norm(x.func).split(".")[-1] == "takewhile" and len(x.args) == 2 and not x.keywords):
            return False
        pred, seq = x.args
        if norm(seq) != f"reversed({table})":
            return False
        if isinstance(pred, ast.Lambda) and len(pred.args.args) == 1 and not pred.args.defaults:
            a = pred.args.args[0].arg
            return norm(pred.body) == f"{a} is None"
        return False
    if isinstance(e, ast.Call) and norm(e.func) == "sum" and len(e.args) == 1 and isinstance(e.args[0], (ast.GeneratorExp, ast.ListComp)) \
            and len(e.args[0].generators) == 1 and not e.args[0].generators[0].ifs and norm(e.args[0].elt) == "1":
        return is_tw(e.args[0].generators[0].iter)
    if isinstance(e, ast.Call) and norm(e.func) == "len" and len(e.args) == 1 and isinstance(e.args[0], ast.Call) \
            and norm(e.args[0].func) in ("list", "tuple") and len(e.args[0].args) == 1:
        return is_tw(e.args[0].args[0])
    return False


def module_highbyte_fixup(repo: Repo, rep, P: str, rule: str, require_present: bool):
    """Every statement of the project reader that masks a note's module number to one byte is guarded by
    `loaded_sunvox_version < (1, 9, 5, 0)` (the version of the file itself, VERS) — otherwise module numbers
    >= 256 of current files are truncated on load.  With require_present the fix-up must also exist."""
    from ..packed import subst_locals
    sv = repo.cls("SunVoxReader", module="rv.readers.sunvox")
    rel = sv.file.rel
    masks = []
    flat_methods = {}
    inlined_names = set()
    for name, fn in sv.methods.items():
        il = inline.Inliner(repo, sv, sv.file)
        il.flatten(fn)
        flat_methods[name] = inline.nest_guard_clauses(inline.normalize(repo, sv, fn, aliases=True))
        inlined_names |= set(il.inlined)
    for name, fn in flat_methods.items():
        if name in inlined_names and name.startswith("_") and not name.startswith("__"):
            continue            # analysed inside its callers
        parents = {}
        for n in ast.walk(fn):
            for fld, val in ast.iter_fields(n):
                for c in (val if isinstance(val, list) else [val]):
                    if isinstance(c, ast.AST):
                        parents[c] = (n, fld)
        for n in ast.walk(fn):
            tgt = val = None
            # x.module &= 0xFF  /  x.module %= 0x100  /  x.module = x.module & 0xFF  /  … % 256
            if isinstance(n, ast.AugAssign) and isinstance(n.op, (ast.BitAnd, ast.Mod)):
                tgt, val = n.target, n.value
            elif isinstance(n, ast.Assign) and len(n.targets) == 1 and isinstance(n.value, ast.BinOp) and isinstance(n.value.op, (ast.BitAnd, ast.Mod)):
                tgt, val = n.targets[0], n.value.right
            if not (isinstance(tgt, ast.Attribute) and tgt.attr == "module"):
                continue
            guards = []
            cur = n
            while cur in parents:
                par, fld = parents[cur]
                if isinstance(par, ast.If) and fld == "body":
                    guards.append(par.test)
                elif isinstance(par, ast.If) and fld == "orelse":
                    guards.append(inline._negate(copy.deepcopy(par.test)))        # the else branch runs when the test is false
                cur = par
            masks.append((name, fn, n, guards))
    good = 0
    for name, fn, n, guards in masks:
        ok = False
        for g in guards:
            g2 = subst_locals(fn, g)
            while isinstance(g2, ast.UnaryOp) and isinstance(g2.op, ast.Not) and isinstance(g2.operand, ast.UnaryOp) and isinstance(g2.operand.op, ast.Not):
                g2 = g2.operand.operand
            if isinstance(g2, ast.UnaryOp) and isinstance(g2.op, ast.Not) and isinstance(g2.operand, ast.Compare) and len(g2.operand.ops) == 1 \
                    and isinstance(g2.operand.ops[0], ast.GtE):
                g2 = ast.Compare(left=g2.operand.left, ops=[ast.Lt()], comparators=g2.operand.comparators)      # not (v >= b)  is  v < b
            if isinstance(g2, ast.Compare) and len(g2.ops) == 1 and isinstance(g2.ops[0], ast.Gt) \
                    and norm(g2.comparators[0]) == "self.object.loaded_sunvox_version":
                g2 = ast.Compare(left=g2.comparators[0], ops=[ast.Lt()], comparators=[g2.left])          # bound > version
            if isinstance(g2, ast.Compare) and len(g2.ops) == 1 and isinstance(g2.ops[0], ast.Lt) \
                    and norm(g2.left) == "self.object.loaded_sunvox_version":
                try:
                    bound = repo.fold(g2.comparators[0], ci=sv)
                except NotConst:
                    continue
                if isinstance(bound, tuple) and bound <= (1, 9, 5, 0):
                    ok = bound == (1, 9, 5, 0) or not require_present
        if ok:
            good += 1
            rep.ok(f"{P}.{rule}", f"{rel}:SunVoxReader.{name}", norm(n), "one-byte module mask only for files written before 1.9.5.0 (VERS)")
        else:
            rep.violation(f"{P}.{rule}", f"{rel}:SunVoxReader.{name}", norm(n),
                          "a note's module number is masked to one byte without the guard `loaded_sunvox_version < (1, 9, 5, 0)`: "
                          f"guards seen: {[norm(g) for g in guards]}", f"{rel}:{n.lineno}")
    if require_present and not masks:
        eof = repo.own_method(sv, "process_end_of_file")
        rep.violation(f"{P}.{rule}", f"{rel}:SunVoxReader.process_end_of_file", "legacy module high byte",
                      "the pre-1.9.5 module-number fix-up is missing", f"{rel}:{eof.lineno}")


def defaults_vs_spec(repo: Repo, rep, P: str):
    """Absent optional chunks leave the documented default: constructor defaults vs YAML `default:`."""
    spec = docs.load_spec(repo)
    sc = docs.spec_chunks(spec)
    secs = parity.sections(repo)
    proj = repo.cls("Project", module="rv.project")
    d = parity.ctor_defaults(repo, proj)
    n = 0
    for cid, r in sorted(secs["project"].reader.items()):
        if r.shape != "unpack" or len(r.targets) != 1:
            continue
        ents = [e for e in sc.get(cid, []) if e.get("default") is not None]
        if len(ents) != 1 or not isinstance(ents[0]["default"], int):
            continue
        attr = r.targets[0]
        if attr not in d or d[attr] == "<unknown>":
            continue
        n += 1
        if d[attr] == ents[0]["default"]:
            rep.ok(f"{P}.R7", f"{proj.file.rel}:Project.__init__", f"{attr} = {d[attr]}", f"= specified default of {cid}")
        else:
            rep.info(f"{P}.R7", f"{proj.file.rel}:Project.__init__", f"{attr} = {d[attr]} / spec {ents[0]['name']}: {ents[0]['default']}",
                     f"constructor default differs from the YAML default of {cid} (documentation and code disagree; not decidable which is intended)")
    rep.count("defaults_compared_with_spec", n, 10)
