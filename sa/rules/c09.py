"""C09 — controller assignment enforces declared domains; defaults match the specification."""

from __future__ import annotations

import ast
from typing import Any, Dict, List, Optional, Set, Tuple

from .. import specdiff
from ..cfg import CFG
from ..classmodel import all_controllers, all_options, module_classes, own_controllers
from ..model import AnchorMissing, ClassInfo, NotConst, Repo, attr_chain, norm, stmts_of, walk_no_nested
from . import c13

LEVEL = "other"
EXPLANATION = (
    "(1) name-collision rule: the set of attribute names that type-independent code (Module's own methods, the "
    "module reader, Project/Synth/SunVoxReader) reads or writes on a module object is computed from the AST and "
    "must be disjoint from every class's controller and option names — a descriptor under such a name captures "
    "the base class's plumbing, so the module constructs with a wrong default and serialises the controller into "
    "an unrelated chunk; (2) single validated store path (census of controller_values writers; set → propagate → "
    "set_initial); (3) on the CFG of set_initial every path to the store passes validation or the strict-mode "
    "raise; (4) Range.validate rejects exactly v < min or v > max; (5) controller defaults equal the YAML "
    "(spec diff); (6) constructor overrides of controllers that resolve to a constant different from the spec "
    "default; (7) numbering from 1 in definition order. Per-value behaviour is covered symbolically by (3)/(4)."
)
DECLINED = ["constructor overrides whose value does not resolve to a constant within three def-use hops (listed, not decided)"]
ASSUMPTIONS = ["a data descriptor defined on a class intercepts instance attribute assignment of the same name"]

CV_WRITERS = {
    "src/python/rv/controller.py:Controller.set_initial": "the validated store",
    "src/python/rv/modules/module.py:Module.set_raw": "load path: validated through t(from_raw_value(raw))",
    "src/python/rv/modules/module.py:Module.__init__": "creation of the empty dict",
    "src/python/rv/modules/metamodule.py:MetaModule.MappingArray.update_user_defined_controllers": "copy of an already validated value of the mapped controller",
    "src/python/rv/modules/multictl.py:MultiCtl.reflect": "documented bypass (propagate=False)",
}


def run(repo: Repo, rep, tier: str):
    rep.count("files_in_scope", repo.consult_all())
    collisions(repo, rep, "C09")
    store_paths(repo, rep, "C09")
    validation_rules(repo, rep, "C09")
    defaults(repo, rep, "C09")
    constructor_overrides(repo, rep, "C09")
    c13.meta_rules(repo, rep, "C09")
    # strict mode is only "the default" if nothing leaves the process-wide flag lenient
    from . import c18
    c18.single_writer(repo, rep, "C09")
    c18.restore_rule(repo, rep, "C09")
    # a fresh MetaModule gets fresh user-defined controllers (their range/default are re-derived per instance)
    from . import c15
    c15.user_defined_fresh(repo, rep, "C09", "R6")


# ------------------------------------------------------------------------------------ R1
GENERIC_SITES = [
    # (module, class or None, receiver prefixes)
    ("rv.modules.module", "Module", ("self",)),
    ("rv.readers.module", None, ("self.object", "new_module")),
    ("rv.project", None, ("module", "mod", "from_module", "to_module", "other_mod", "src_mod")),
    ("rv.synth", None, ("mod", "self.module")),
    ("rv.readers.sunvox", None, ("mod", "other_mod", "src_mod")),
    ("rv.readers.sunsynth", None, ("mod",)),
]


def generic_names(repo: Repo) -> Dict[str, List[Tuple[str, str, int]]]:
    """attribute name -> [(file, 'load'|'store'|'call', line)] touched by type-independent code on a module object."""
    out: Dict[str, List[Tuple[str, str, int]]] = {}
    for modname, cname, prefixes in GENERIC_SITES:
        sf = repo.module(modname)
        root: ast.AST = sf.tree
        if cname is not None:
            root = repo.cls(cname, module=modname).node
        calls = {id(n.func) for n in ast.walk(root) if isinstance(n, ast.Call)}
        for n in ast.walk(root):
            if isinstance(n, ast.Attribute):
                recv = norm(n.value)
                if recv in prefixes:
                    kind = "store" if isinstance(n.ctx, ast.Store) else ("call" if id(n) in calls else "load")
                    out.setdefault(n.attr, []).append((sf.rel, kind, n.lineno))
            # getattr(self, "x") / setattr(...)
            if isinstance(n, ast.Call) and norm(n.func) in ("getattr", "setattr", "hasattr") and len(n.args) >= 2 \
                    and norm(n.args[0]) in prefixes and isinstance(n.args[1], ast.Constant) and isinstance(n.args[1].value, str):
                out.setdefault(n.args[1].value, []).append((sf.rel, "load" if norm(n.func) != "setattr" else "store", n.lineno))
    return out


def collisions(repo: Repo, rep, P: str):
    names = generic_names(repo)
    rep.count("generic_attribute_names", len(names), 40)
    stored = {k for k, v in names.items() if any(kind == "store" for _, kind, _ in v)}
    rep.instances["generic_stored_names"] = len(stored)
    n_cls = n_names = 0
    for ci in module_classes(repo):
        n_cls += 1
        ctls = {c.name: c for c in all_controllers(repo, ci)}
        opts = {o.name: o for o in all_options(repo, ci)}
        n_names += len(ctls) + len(opts)
        for nm, d in list(ctls.items()) + list(opts.items()):
            if nm in names:
                sites = names[nm]
                kinds = sorted({k for _, k, _ in sites})
                owner = d.owner
                what = "controller" if nm in ctls else "option"
                ex = next((s for s in sites if s[1] == "store"), sites[0])
                rep.violation(f"{P}.R1", f"{owner.file.rel}:{owner.qualname}.{nm}", f"{nm} = {norm(d.node)[:60]}",
                              f"{ci.name} defines a {what} named `{nm}`, but type-independent module code also uses `.{nm}` "
                              f"({', '.join(kinds)}; e.g. {ex[0]}:{ex[2]}): the common attribute is routed through the {what} "
                              f"descriptor, so a fresh {ci.name} does not report the specified default and the {what}'s value is "
                              "serialised in the common attribute's chunk", f"{owner.file.rel}:{d.node.lineno}")
        rep.ok(f"{P}.R1", f"{ci.file.rel}:{ci.qualname}", f"{len(ctls)} controllers, {len(opts)} options", "checked against the generic names",
               nontrivial=False)
    rep.count("module_classes", n_cls, 43)
    rep.count("controller_and_option_names", n_names, 551)
    rep.sample({"generic_names_sample": sorted(names)[:30]})


# ------------------------------------------------------------------------------------ R2
def store_paths(repo: Repo, rep, P: str):
    n = 0
    for rel, sf in sorted(repo.files.items()):
        if not sf.modname.startswith("rv") or sf.modname.startswith("rv.tools"):
            continue

        def rec(node, prefix):
            nonlocal n
            for ch in ast.iter_child_nodes(node):
                if isinstance(ch, (ast.FunctionDef, ast.AsyncFunctionDef)):
                    fq = f"{rel}:{prefix}{ch.name}"
                    for x in walk_no_nested(ch):
                        hit = None
                        if isinstance(x, ast.Assign):
                            for t in x.targets:
                                if isinstance(t, ast.Subscript) and isinstance(t.value, ast.Attribute) and t.value.attr == "controller_values":
                                    hit = x
                                if isinstance(t, ast.Attribute) and t.attr == "controller_values":
                                    hit = x
                        if isinstance(x, ast.Call) and isinstance(x.func, ast.Attribute) and isinstance(x.func.value, ast.Attribute) \
                                and x.func.value.attr == "controller_values" and x.func.attr in ("update", "setdefault", "pop", "clear", "__setitem__"):
                            hit = x
                        if hit is not None:
                            n += 1
                            from .. import inline
                            arel, aq = inline.attributed_to(repo, rel, f"{prefix}{ch.name}")
                            if f"{arel}:{aq}" in CV_WRITERS and f"{arel}:{aq}" != fq:
                                rep.ok(f"{P}.R2", fq, norm(hit)[:100], f"private helper of {aq}: " + CV_WRITERS[f"{arel}:{aq}"])
                            elif fq in CV_WRITERS:
                                rep.ok(f"{P}.R2", fq, norm(hit)[:100], CV_WRITERS[fq])
                            elif isinstance(hit, ast.Assign) and isinstance(hit.value, ast.Subscript) and isinstance(hit.value.value, ast.Attribute) \
                                    and hit.value.value.attr == "controller_values":
                                # whoever does it: the stored value is read from a controller_values table, where only validated values are
                                rep.ok(f"{P}.R2", fq, norm(hit)[:100], "copy of an already validated value (read from another controller_values table)")
                            else:
                                rep.violation(f"{P}.R2", fq, norm(hit)[:100],
                                              "a controller value is stored without going through Controller.set_initial / set_raw: "
                                              "the declared domain is not enforced on this path", f"{rel}:{hit.lineno}")
                    rec(ch, f"{prefix}{ch.name}.")
                elif isinstance(ch, ast.ClassDef):
                    rec(ch, f"{prefix}{ch.name}.")
                else:
                    rec(ch, prefix)
        rec(sf.tree, "")
    rep.count("controller_value_store_sites", n, 5)
    ctl = repo.cls("Controller", module="rv.controller")
    rel = ctl.file.rel
    st = norm(repo.own_method(ctl, "__set__"))
    if "self.propagate(instance, value, down=True, up=True)" in st:
        rep.ok(f"{P}.R2", f"{rel}:Controller.__set__", "self.propagate(instance, value, down=True, up=True)")
    else:
        rep.violation(f"{P}.R2", f"{rel}:Controller.__set__", st[:160], "assignment must go through propagate → set_initial", rel)
    pr = repo.own_method(ctl, "propagate")
    first = stmts_of(pr)[0] if stmts_of(pr) else None
    if first is not None and norm(first) == "self.set_initial(instance, value)":
        rep.ok(f"{P}.R2", f"{rel}:Controller.propagate", "self.set_initial(instance, value) first", "validation happens before any callback")
    else:
        rep.violation(f"{P}.R2", f"{rel}:Controller.propagate", norm(first)[:120] if first else "",
                      "propagate must validate/store through set_initial before notifying anyone", rel)
    gt = norm(repo.own_method(ctl, "__get__"))
    if "instance.controller_values[self.name]" in gt:
        rep.ok(f"{P}.R2", f"{rel}:Controller.__get__", "instance.controller_values[self.name]", "reads back exactly what was stored", nontrivial=False)
    else:
        rep.violation(f"{P}.R2", f"{rel}:Controller.__get__", gt[:120], "the getter must return the stored value", rel)
    mod = repo.cls("Module", module="rv.modules.module")
    seeds, _init = controller_seeding(repo)
    mcon = f"{mod.file.rel}:Module.__init__"
    if not seeds:
        rep.violation(f"{P}.R2", mcon, "controller seeding loop",
                      "every controller must be seeded from the keyword or its default through set_initial", mod.file.rel)
    elif any(f == "?" or v is None for f, v, _ in seeds):
        rep.inconclusive(f"{P}.R2", mcon, "; ".join(t for _, _, t in seeds)[:240], "controller seeding loop not recognised", mod.file.rel)
    elif all(v for _, v, _ in seeds):
        rep.ok(f"{P}.R2", mcon, "; ".join(t for _, _, t in seeds)[:200], "constructor keywords and defaults obey the same validation")
    else:
        rep.violation(f"{P}.R2", mcon, "; ".join(t for _, _, t in seeds)[:240],
                      "every controller must be seeded from the keyword or its default through set_initial", mod.file.rel)


# ------------------------------------------------------------------------------------ R3 / R4
def _dep_polarity(e: ast.expr) -> Optional[int]:
    """+1 if `e` is true exactly for controllers with a DependentRange, -1 if exactly for the others, else None."""
    if isinstance(e, ast.UnaryOp) and isinstance(e.op, ast.Not):
        p = _dep_polarity(e.operand)
        return -p if p else None
    if isinstance(e, ast.Call) and norm(e.func) == "isinstance" and len(e.args) == 2 and norm(e.args[1]).split(".")[-1] == "DependentRange" \
            and norm(e.args[0]).endswith(".value_type"):
        return +1
    if isinstance(e, ast.Compare) and len(e.ops) == 1:
        l, r, op = e.left, e.comparators[0], e.ops[0]
        for a, b in ((l, r), (r, l)):
            if isinstance(b, ast.Constant) and isinstance(b.value, bool):
                p = _dep_polarity(a)
                if p is None:
                    return None
                same = isinstance(op, (ast.Is, ast.Eq))
                diff = isinstance(op, (ast.IsNot, ast.NotEq))
                if not (same or diff):
                    return None
                keep = (b.value and same) or ((not b.value) and diff)
                return p if keep else -p
    return None


def controller_seeding(repo: Repo):
    """How Module.__init__ seeds the controllers: [(filter, value ok?, text)] per loop, in order.
    filter: 'plain' | 'dependent' | 'all-sorted' | 'all' | '?'"""
    from .. import inline, packed
    mod = repo.cls("Module", module="rv.modules.module")
    init = inline.normalize(repo, mod, repo.own_method(mod, "__init__"))
    kwname = init.args.kwarg.arg if init.args.kwarg else "kw"
    out = []
    parents: Dict[int, ast.AST] = {}
    for n in ast.walk(init):
        for c in ast.iter_child_nodes(n):
            parents[id(c)] = n
    fdefs = packed.single_defs(init)
    for lp in [n for n in ast.walk(init) if isinstance(n, ast.For)]:
        it = packed.resolve_names(lp.iter, fdefs)
        calls = [c for c in ast.walk(lp) if isinstance(c, ast.Call) and isinstance(c.func, ast.Attribute) and c.func.attr == "set_initial"]
        if not calls or any(isinstance(m, ast.For) and m is not lp and any(c2 is calls[0] for c2 in ast.walk(m)) for m in ast.walk(lp)):
            continue
        sorted_by_dep = False
        sort_key_unread = False
        src = it
        if isinstance(it, ast.Call) and norm(it.func) == "sorted" and it.args:
            src = it.args[0]
            key = next((k.value for k in it.keywords if k.arg == "key"), None)
            body = None
            if isinstance(key, ast.Lambda):
                body = key.body
            elif isinstance(key, ast.Name):
                f = next((x for x in ast.walk(init) if isinstance(x, ast.FunctionDef) and x.name == key.id), None)
                if f is not None:
                    rets = [x.value for x in ast.walk(f) if isinstance(x, ast.Return) and x.value is not None]
                    body = rets[0] if len(rets) == 1 else None
                else:
                    # a module-level function of the class's module
                    f = next((x for x in mod.file.tree.body if isinstance(x, ast.FunctionDef) and x.name == key.id), None)
                    if f is not None:
                        body = inline.as_expression(inline.normalize(repo, None, f, sf=mod.file))
            elif isinstance(key, ast.Attribute) and norm(key.value) in ("self", "cls", mod.name, "type(self)"):
                # a (static) method of the class used as the sort key
                r_ = repo.lookup(mod, key.attr)
                if r_ is not None and r_[1] == "method":
                    e_ = inline.as_expression(inline.normalize(repo, r_[0], r_[2]))
                    body = e_
            if key is not None and body is None:
                sort_key_unread = True
            if body is not None and any(_dep_polarity(x) == +1 for x in ast.walk(body) if isinstance(x, ast.Call)) \
                    and not any(isinstance(x, ast.UnaryOp) and isinstance(x.op, ast.Not) for x in ast.walk(body)) \
                    and not any(k.arg == "reverse" for k in it.keywords):
                sorted_by_dep = True
        # for k, c in plain + dependent:   with the two lists filled by one pass over self.controllers.items() that sends each
        # (name, controller) pair to one of them according to an isinstance(…, DependentRange) test: a stable partition
        partition = None
        rawit = lp.iter
        if isinstance(rawit, ast.BinOp) and isinstance(rawit.op, ast.Add) and isinstance(rawit.left, ast.Name) and isinstance(rawit.right, ast.Name) \
                and isinstance(lp.target, ast.Tuple) and len(lp.target.elts) == 2:
            first, second = rawit.left.id, rawit.right.id
            for fill in [n for n in ast.walk(init) if isinstance(n, ast.For) and n is not lp and norm(n.iter) == "self.controllers.items()"
                         and isinstance(n.target, ast.Tuple) and len(n.target.elts) == 2]:
                fk, fc = norm(fill.target.elts[0]), norm(fill.target.elts[1])
                item = f"({fk}, {fc})"
                bdefs = packed.once_defs(fill.body)
                where_dep = where_plain = None
                for c_ in ast.walk(fill):
                    if isinstance(c_, ast.Call) and isinstance(c_.func, ast.Attribute) and c_.func.attr == "append" and len(c_.args) == 1 and norm(c_.args[0]) == item:
                        recv = c_.func.value
                        if isinstance(recv, ast.IfExp) and isinstance(recv.body, ast.Name) and isinstance(recv.orelse, ast.Name):
                            pol = _dep_polarity(packed.resolve_names(recv.test, bdefs))
                            if pol is not None:
                                where_dep, where_plain = (recv.body.id, recv.orelse.id) if pol > 0 else (recv.orelse.id, recv.body.id)
                for if_ in [n for n in ast.walk(fill) if isinstance(n, ast.If) and len(n.body) == 1 and len(n.orelse) == 1]:
                    a_, b_ = if_.body[0], if_.orelse[0]
                    if all(isinstance(x, ast.Expr) and isinstance(x.value, ast.Call) and isinstance(x.value.func, ast.Attribute) and x.value.func.attr == "append"
                           and isinstance(x.value.func.value, ast.Name) and len(x.value.args) == 1 and norm(x.value.args[0]) == item for x in (a_, b_)):
                        pol = _dep_polarity(packed.resolve_names(if_.test, bdefs))
                        if pol is not None:
                            ta, tb = a_.value.func.value.id, b_.value.func.value.id
                            where_dep, where_plain = (ta, tb) if pol > 0 else (tb, ta)
                if where_dep is not None and {where_dep, where_plain} == {first, second}:
                    partition = "plain-first" if (first, second) == (where_plain, where_dep) else "dependent-first"
        if partition is not None:
            call = calls[0]
            kv, cv = norm(lp.target.elts[0]), norm(lp.target.elts[1])
            val = norm(call.args[1]).replace(" ", "") if len(call.args) == 2 else ""
            recv_ok = norm(call.func.value) == cv and norm(call.args[0]) == "self" if call.args else False
            value_ok = recv_ok and val == f"{kwname}.get({kv},{cv}.default)"
            flt = "all-sorted" if partition == "plain-first" else "all"
            out.append((flt, value_ok, f"for {kv}, {cv} in {norm(lp.iter)[:50]} (partitioned, {partition}): {cv}.set_initial(self, {val})"))
            continue
        deferred_pol = None
        if isinstance(lp.iter, ast.Name) and isinstance(lp.target, ast.Tuple) and len(lp.target.elts) == 2:
            # for k, c in deferred:   `deferred` a list that an earlier pass over self.controllers.items() fills with the (name, controller)
            # pairs it does not seed itself, selected by an isinstance(…, DependentRange) test
            L = lp.iter.id
            inits = [n for n in ast.walk(init) if isinstance(n, ast.Assign) and len(n.targets) == 1 and isinstance(n.targets[0], ast.Name) and n.targets[0].id == L]
            fills = [n for n in ast.walk(init) if isinstance(n, ast.For) and n is not lp and norm(n.iter) == "self.controllers.items()"
                     and isinstance(n.target, ast.Tuple) and len(n.target.elts) == 2 and inline.pos(n) < inline.pos(lp)]
            if len(inits) == 1 and isinstance(inits[0].value, ast.List) and not inits[0].value.elts and len(fills) == 1:
                fill = fills[0]
                item = f"({norm(fill.target.elts[0])}, {norm(fill.target.elts[1])})"
                apps = [c_ for c_ in ast.walk(init) if isinstance(c_, ast.Call) and isinstance(c_.func, ast.Attribute) and isinstance(c_.func.value, ast.Name)
                        and c_.func.value.id == L]
                if len(apps) == 1 and apps[0].func.attr == "append" and len(apps[0].args) == 1 and norm(apps[0].args[0]) == item \
                        and any(apps[0] is x for x in ast.walk(fill)):
                    for if_ in [n for n in fill.body if isinstance(n, ast.If) and not n.orelse]:
                        if any(apps[0] is x for b in if_.body for x in ast.walk(b)) and isinstance(if_.body[-1], ast.Continue) \
                                and all(isinstance(b, (ast.Expr, ast.Continue)) for b in if_.body):
                            deferred_pol = _dep_polarity(packed.resolve_in_block(if_.test, fill.body))
        if deferred_pol is None and (norm(src) not in ("self.controllers.items()",) or not (isinstance(lp.target, ast.Tuple) and len(lp.target.elts) == 2)):
            out.append(("?", None, norm(lp.iter)[:80]))
            continue
        kv, cv = norm(lp.target.elts[0]), norm(lp.target.elts[1])
        call = calls[0]
        # conditions on the way to the call
        conds = []
        cur: ast.AST = call
        while id(cur) in parents and cur is not lp:
            par = parents[id(cur)]
            if isinstance(par, ast.If):
                inbody = any(cur is x or any(cur is y for y in ast.walk(x)) for x in par.body)
                conds.append(par.test if inbody else ast.UnaryOp(op=ast.Not(), operand=par.test))
            for fld in ("body", "orelse"):
                block = getattr(par, fld, None)
                if isinstance(block, list) and any(cur is x for x in block):
                    for sib in block:
                        if sib is cur:
                            break
                        if isinstance(sib, ast.If) and not sib.orelse and sib.body and isinstance(sib.body[-1], ast.Continue):
                            conds.append(ast.UnaryOp(op=ast.Not(), operand=sib.test))
            cur = par
        pols = []
        unknown = False
        for c in conds:
            p = _dep_polarity(packed.resolve_in_block(c, lp.body))
            if p is None:
                unknown = True
            else:
                pols.append(p)
        if deferred_pol is not None:
            pols = pols + [deferred_pol]
        if unknown or len(set(pols)) > 1 or (sort_key_unread and not pols):
            flt = "?"
        elif sorted_by_dep and not pols:
            flt = "all-sorted"
        elif not pols:
            flt = "all"
        else:
            flt = "dependent" if pols[0] > 0 else "plain"
        # the statement list that holds the call: its once-assigned locals are the call's operands
        holder = lp.body
        cur2: ast.AST = call
        while id(cur2) in parents and cur2 is not lp:
            par2 = parents[id(cur2)]
            for fld in ("body", "orelse"):
                blk = getattr(par2, fld, None)
                if isinstance(blk, list) and any(cur2 is x for x in blk) and holder is lp.body and par2 is not lp:
                    holder = blk
            cur2 = par2
        defs2 = dict(packed.once_defs(lp.body))
        defs2.update(packed.once_defs(holder))
        val = norm(packed.resolve_names(call.args[1], defs2)).replace(" ", "") if len(call.args) == 2 else ""
        recv_ok = norm(call.func.value) == cv and norm(call.args[0]) == "self" if call.args else False
        value_ok = recv_ok and val == f"{kwname}.get({kv},{cv}.default)"
        out.append((flt, value_ok, f"for {kv}, {cv} in {norm(lp.iter)[:50]}: [{flt}] {cv}.set_initial(self, {val})"))
    return out, init


def strict_only_raise(repo: Repo):
    """raise_or_warn_controller_value_validation: (verdict, text) — 'ok' when the strict branch (flag true) always raises
    ControllerValueError and the lenient branch never raises; 'bad' when recognisably otherwise; 'unknown' else."""
    from .. import inline
    from ..guards import canon
    h = repo.func("rv.errors", "raise_or_warn_controller_value_validation")
    body, _ = inline._eliminate_returns([b for b in h.body if not (isinstance(b, ast.Expr) and isinstance(b.value, ast.Constant))], None)
    FLAG = "RAISE_CONTROLLER_VALUE_ERRORS"

    def raises(stmts) -> List[ast.Raise]:
        return [x for st in stmts for x in ast.walk(st) if isinstance(x, ast.Raise)]
    from ..packed import subst_locals
    for b in body:
        if isinstance(b, ast.If):
            b.test = subst_locals(h, b.test)
    ifs = [b for b in body if isinstance(b, ast.If) and FLAG in norm(b.test)]
    if len(ifs) != 1:
        return "unknown", f"{len(ifs)} tests of the flag", h
    i = body.index(ifs[0])
    t = canon(ifs[0].test)
    rest = body[i + 1:]
    if t == FLAG:
        strict, lenient = ifs[0].body, ifs[0].orelse + rest
    elif t == f"not ({FLAG})":
        strict, lenient = ifs[0].orelse + rest, ifs[0].body
    else:
        return "unknown", f"test {t}", h
    if raises(body[:i]):
        return "bad", "raises before the flag is consulted", h
    sr = raises(strict)
    last_strict = strict[-1] if strict else None
    if not sr or not isinstance(last_strict, ast.Raise) or last_strict.exc is None or "ControllerValueError" not in norm(last_strict.exc):
        return "bad", "in strict mode an out-of-range value must raise ControllerValueError", h
    if raises(lenient):
        return "bad", "the lenient branch raises as well", h
    return "ok", f"if {t}: …  strict → {norm(last_strict)[:60]}; lenient → no raise", h


def _raise_sites(repo: Repo, ci, fn: ast.FunctionDef, guards: List[str], depth: int):
    """[(node, exception class name or None, guards)] for every `raise` in fn and in the self-helpers it calls."""
    out = []
    defs = {}
    for n in walk_no_nested(fn):
        if isinstance(n, ast.Assign) and len(n.targets) == 1 and isinstance(n.targets[0], ast.Name) and isinstance(n.value, ast.Call):
            defs[n.targets[0].id] = norm(n.value.func).split(".")[-1]

    def rec(stmts, gs):
        for st in stmts:
            if isinstance(st, ast.If):
                t = norm(st.test)
                if t == "isinstance(self, WarnOnlyRange)":
                    rec(st.body, gs + ["warnonly"])
                    rec(st.orelse, gs + ["not-warnonly"])
                elif t == "not isinstance(self, WarnOnlyRange)":
                    rec(st.body, gs + ["not-warnonly"])
                    rec(st.orelse, gs + ["warnonly"])
                elif "self.min" in t or "self.max" in t:
                    rec(st.body, gs + ["range-test"])
                    rec(st.orelse, gs + ["range-test-else"])
                else:
                    rec(st.body, gs + [t[:40]])
                    rec(st.orelse, gs + ["not " + t[:36]])
            elif isinstance(st, ast.Raise):
                exc = st.exc
                name = None
                if isinstance(exc, ast.Call):
                    name = norm(exc.func).split(".")[-1]
                elif isinstance(exc, ast.Name):
                    name = defs.get(exc.id)
                out.append((st, name, list(gs)))
            elif isinstance(st, (ast.With, ast.Try)):
                rec(getattr(st, "body", []), gs)
            else:
                for c in ast.walk(st):
                    if isinstance(c, ast.Call) and isinstance(c.func, ast.Attribute) and norm(c.func.value) == "self" and depth < 2:
                        try:
                            _, h = repo.method(ci, c.func.attr)
                        except AnchorMissing:
                            continue
                        out.extend(_raise_sites(repo, ci, h, list(gs), depth + 1))
    rec(fn.body, list(guards))
    return out


def _specialise(repo: Repo, k, fn: ast.FunctionDef) -> ast.FunctionDef:
    """`fn` as it runs on an instance of exactly class `k`: `isinstance(self, X)` and class-level flags read through `self` are
    replaced by their values and the branches they decide are pruned."""
    import copy as _copy

    class X(ast.NodeTransformer):
        def visit_Call(self, node):
            node = self.generic_visit(node)
            if norm(node.func) == "isinstance" and len(node.args) == 2 and norm(node.args[0]) == "self":
                targets = node.args[1].elts if isinstance(node.args[1], ast.Tuple) else [node.args[1]]
                res = False
                for t in targets:
                    c = repo.class_of_expr(t, k, k.file)
                    if c is None:
                        return node
                    try:
                        res = res or c is k or c in repo.mro(k)
                    except AnchorMissing:
                        return node
                return ast.copy_location(ast.Constant(value=res), node)
            return node

        def visit_Attribute(self, node):
            node = self.generic_visit(node)
            if isinstance(node.ctx, ast.Load) and norm(node.value) in ("self", "type(self)", "self.__class__"):
                r = repo.lookup(k, node.attr)
                if r is not None and r[1] == "assign" and isinstance(r[2], ast.Constant) and isinstance(r[2].value, bool):
                    return ast.copy_location(ast.Constant(value=r[2].value), node)
            return node

        def visit_If(self, node):
            node.test = self.visit(node.test)
            t = node.test
            neg = False
            while isinstance(t, ast.UnaryOp) and isinstance(t.op, ast.Not):
                t, neg = t.operand, not neg
            node.body = [y for x in node.body for y in ([self.visit(x)] if not isinstance(self.visit(x), list) else self.visit(x))] if False else [self.visit(x) for x in node.body]
            node.orelse = [self.visit(x) for x in node.orelse]
            if isinstance(t, ast.Constant) and isinstance(t.value, bool):
                taken = node.body if (t.value != neg) else node.orelse
                return taken or [ast.Pass()]
            return node
    new = _copy.deepcopy(fn)
    new = X().visit(new)
    flat = []
    def flatten_lists(stmts):
        out = []
        for st in stmts:
            if isinstance(st, list):
                out.extend(flatten_lists(st))
            else:
                for fld in ("body", "orelse", "finalbody"):
                    sub = getattr(st, fld, None)
                    if isinstance(sub, list) and not isinstance(st, ast.Expr):
                        setattr(st, fld, flatten_lists(sub))
                out.append(st)
        # what follows an unconditional return / raise in the same block is never run (a decided `if` may have exposed one)
        for i_, st in enumerate(out):
            if isinstance(st, (ast.Return, ast.Raise, ast.Continue, ast.Break)):
                out = out[:i_ + 1]
                break
        return out
    new.body = flatten_lists(new.body)
    ast.fix_missing_locations(new)
    return new


def validation_rules(repo: Repo, rep, P: str):
    ctl = repo.cls("Controller", module="rv.controller")
    rel = ctl.file.rel
    from .. import inline, guards
    # private helpers that hold the conversion (`self._coerce(instance, t, value)`) are read as part of set_initial
    fn = inline.normalize(repo, ctl, repo.own_method(ctl, "set_initial"))
    try:
        fn = inline.resolve_flags(fn)           # `is_enum = isinstance(t, type) and issubclass(t, Enum)` read at the tests that use it
    except Exception:
        pass
    rep.func("rv.controller.Controller.set_initial")
    construct = f"{rel}:Controller.set_initial"
    params = [a.arg for a in fn.args.args if a.arg != "self"]
    vparam = params[1] if len(params) > 1 else "value"
    # the local holding the value type: bound from self.instance_value_type(instance)
    tvars = {n.targets[0].id for n in walk_no_nested(fn) if isinstance(n, ast.Assign) and len(n.targets) == 1 and isinstance(n.targets[0], ast.Name)
             and isinstance(n.value, ast.Call) and norm(n.value.func) == "self.instance_value_type"}
    if len(tvars) != 1:
        rep.inconclusive(f"{P}.R3", construct, norm(fn)[:160], "the value type is not held in one local", f"{rel}:{fn.lineno}")
        return
    t = next(iter(tvars))
    g = CFG(fn)
    stores = [n for n in g.nodes if n.kind == "stmt" and isinstance(n.ast, ast.Assign)
              and any(isinstance(t, ast.Subscript) and norm(t.value) == "instance.controller_values" for t in n.ast.targets)]
    if len(stores) != 1:
        rep.violation(f"{P}.R3", construct, f"{len(stores)} stores", "set_initial must store the value exactly once, after validation", f"{rel}:{fn.lineno}")
        return
    store = stores[0]
    if "finally" in store.tag:
        rep.violation(f"{P}.R3", construct, store.text(), "the store sits in a finally block: it happens even when validation raised", f"{rel}:{store.lineno}")
    valid = [n for n in g.nodes if n.kind == "stmt" and isinstance(n.ast, ast.Assign) and isinstance(n.ast.value, ast.Call)
             and norm(n.ast.value.func) == t and len(n.ast.value.args) == 1 and isinstance(n.ast.targets[0], ast.Name)]
    handlers = [n for n in g.nodes if n.kind == "stmt" and n.ast is not None and
                any(isinstance(c, ast.Call) and norm(c.func) == "raise_or_warn_controller_value_validation" for c in ast.walk(n.ast))]
    conv = [n for n in g.nodes if n.kind == "stmt" and isinstance(n.ast, ast.Assign) and isinstance(n.ast.targets[0], ast.Name)
            and norm(n.ast.value) in (f"{t}[{vparam}]", "None")]
    gates = {n.id for n in valid + handlers + conv}
    if not valid:
        rep.violation(f"{P}.R3", construct, f"{vparam} = {t}({vparam})", "the value is no longer validated through its value type", f"{rel}:{fn.lineno}")
    # every path entry → store passes a gate (validation success, strict-mode raise site, or enum-name / None conversion)
    reach = g.reachable(avoid=gates, labels_excluded=set())
    if store.id in reach:
        rep.violation(f"{P}.R3", construct, store.text(),
                      "the value can be stored on a path that has not passed validation: an out-of-range assignment replaces the "
                      "previous value even in strict mode", f"{rel}:{store.lineno}")
    else:
        rep.ok(f"{P}.R3", construct, store.text(), "every path to the store passes t(value) or the raise-or-warn call")
    # the validation's failure edge goes to a handler for RangeValidationError that calls raise_or_warn
    for v in valid:
        ok = False
        for m, lab in g.succ[v.id]:
            if lab == "exc" and g.nodes[m].kind == "except":
                for h, _ in g.succ[m]:
                    hn = g.nodes[h]
                    if hn.kind == "handler" and hn.ast.type is not None and "RangeValidationError" in norm(hn.ast.type):
                        body_calls = [norm(c.func) for s in hn.ast.body for c in ast.walk(s) if isinstance(c, ast.Call)]
                        ok = "raise_or_warn_controller_value_validation" in body_calls
        if ok:
            rep.ok(f"{P}.R3", construct, v.text(), "RangeValidationError → raise_or_warn_controller_value_validation")
        else:
            rep.violation(f"{P}.R3", construct, v.text(), "a failed range validation is no longer turned into ControllerValueError", f"{rel}:{v.lineno}")
    # strict mode raises ControllerValueError from the original
    verdict, text, h = strict_only_raise(repo)
    hcon = "src/python/rv/errors.py:raise_or_warn_controller_value_validation"
    if verdict == "ok":
        rep.ok(f"{P}.R3", hcon, text, "strict mode raises the library's controller-value error")
    elif verdict == "bad":
        rep.violation(f"{P}.R3", hcon, norm(h)[:160], f"in strict mode an out-of-range value must raise ControllerValueError ({text})",
                      f"src/python/rv/errors.py:{h.lineno}")
    else:
        rep.inconclusive(f"{P}.R3", hcon, norm(h)[:160], f"strict/lenient split not recognised ({text})", f"src/python/rv/errors.py:{h.lineno}")
    try:
        v = repo.fold(repo.module_assign("rv.errors", "RAISE_CONTROLLER_VALUE_ERRORS"))
        if v is True:
            rep.ok(f"{P}.R3", "src/python/rv/errors.py:RAISE_CONTROLLER_VALUE_ERRORS", "= True", "strict by default")
        else:
            rep.violation(f"{P}.R3", "src/python/rv/errors.py:RAISE_CONTROLLER_VALUE_ERRORS", f"= {v!r}", "the default mode must be strict", "src/python/rv/errors.py")
    except (AnchorMissing, NotConst):
        rep.inconclusive(f"{P}.R3", "src/python/rv/errors.py:RAISE_CONTROLLER_VALUE_ERRORS", "", "not constant", "src/python/rv/errors.py")
    errs = repo.module("rv.errors")
    cve = repo.cls("ControllerValueError", module="rv.errors")
    if "ValueError" in repo.base_names(cve) and "RadiantVoicesError" in repo.base_names(cve):
        rep.ok(f"{P}.R3", f"{errs.rel}:ControllerValueError", "(RadiantVoicesError, ValueError)", nontrivial=False)
    # ---- R4 Range.validate
    rng = repo.cls("Range", module="rv.controller")
    vf = repo.own_method(rng, "validate")
    rep.func("rv.controller.Range.validate")
    vcon = f"{rel}:Range.validate"
    from .. import alg
    from . import c10
    try:
        lo, hi = c10._accept_interval(repo, rng, _specialise(repo, rng, inline.normalize(repo, rng, vf, exact=True)))
    except c10._NoInterval as e:
        lo = hi = None
        rep.inconclusive(f"{P}.R4", vcon, norm(vf)[:120], f"rejection condition not derivable: {e}", f"{rel}:{vf.lineno}")
    else:
        if lo == alg.Poly.sym("m") and hi == alg.Poly.sym("M"):
            rep.ok(f"{P}.R4", vcon, "accepts [min, max]", "rejects exactly v < min or v > max (bounds inclusive)")
        else:
            rep.violation(f"{P}.R4", vcon, f"accepts [{lo}, {hi}] (m = min, M = max)",
                          "a fixed range must reject exactly the values below min or above max: both bounds are legal values "
                          "and both sides must be tested", f"{rel}:{vf.lineno}")
    # per kind of range: what happens to an out-of-range value.  The method is specialised to the class it runs on (helpers
    # that a subclass overrides are resolved for that subclass, `isinstance(self, K)` / class flags are decided).
    wo = repo.cls("WarnOnlyRange", module="rv.controller")
    kinds = []
    for k in repo.all_classes():
        try:
            if k.file is rng.file and (k is rng or rng in repo.mro(k)):
                kinds.append(k)
        except AnchorMissing:
            continue
    rep.count("range_kinds_validated", len(kinds), 4)
    for k in sorted(kinds, key=lambda c: c.qualname):
        kcon = f"{rel}:{k.qualname}.validate"
        try:
            owner, kfn = repo.method(k, "validate")
        except AnchorMissing:
            rep.violation(f"{P}.R4", kcon, "validate", "no validate()", rel)
            continue
        spec = _specialise(repo, k, inline.normalize(repo, k, kfn, exact=True))
        sites = _raise_sites(repo, k, spec, [], 0)
        warn_only = k is wo or wo in repo.mro(k)
        names = {x[1] for x in sites}
        if warn_only:
            if not sites:
                rep.ok(f"{P}.R4", kcon, "out of range → log.warning", "the warn-only kind never raises")
            else:
                rep.violation(f"{P}.R4", kcon, "; ".join(f"raise {x[1]}" for x in sites),
                              "a warn-only range must not raise for an out-of-range value (stored values outside the known bounds are kept)", rel)
        else:
            if sites and names == {"RangeValidationError"} and all(all(g in ("range-test", "not-warnonly") for g in x[2]) for x in sites):
                rep.ok(f"{P}.R4", kcon, "out of range → raise RangeValidationError", "only the warn-only kind is exempt from raising")
            elif not sites:
                rep.violation(f"{P}.R4", kcon, norm(spec)[:200], "out-of-range values of a fixed range must raise RangeValidationError (only WarnOnlyRange may just warn)",
                              f"{rel}:{kfn.lineno}")
            elif any(x[1] != "RangeValidationError" and x[1] is not None for x in sites):
                rep.violation(f"{P}.R4", kcon, "; ".join(f"raise {x[1]}" for x in sites), "the range check must raise RangeValidationError (set_initial and set_raw turn "
                              "exactly that into the controller-value error)", f"{rel}:{kfn.lineno}")
            else:
                rep.inconclusive(f"{P}.R4", kcon, "; ".join(f"raise {x[1]} under {x[2]}" for x in sites)[:200],
                                 "the raise is guarded by a condition that is not recognised", f"{rel}:{kfn.lineno}")
    # enum by name, None type
    s2 = norm(fn)
    dom = g.dominators()
    by_name = [n for n in g.nodes if n.kind == "stmt" and isinstance(n.ast, ast.Assign) and norm(n.ast.value) == f"{t}[{vparam}]"]
    want = guards.facts_text(f"isinstance({vparam}, str) and isinstance({t}, type) and issubclass({t}, Enum)")
    if by_name:
        from . import c14
        known = c14._facts(c14._dominating_conditions(g, dom, by_name[0].id))
        if want <= known:
            rep.ok(f"{P}.R3", construct, f"{t}[{vparam}] for enum names", "enumeration members can be assigned by name; invalid names raise KeyError")
        else:
            rep.inconclusive(f"{P}.R3", construct, by_name[0].text(), f"name look-up is guarded by {sorted(known)}, expected {sorted(want)}",
                             f"{rel}:{by_name[0].lineno}")
    elif f"isinstance({vparam}, str)" in s2:
        rep.inconclusive(f"{P}.R3", construct, s2[:160], "string values are handled in a way that is not recognised", f"{rel}:{fn.lineno}")
    else:
        rep.violation(f"{P}.R3", construct, s2[:160], "enumeration members must be assignable by name", f"{rel}:{fn.lineno}")


# ------------------------------------------------------------------------------------ R5
def defaults(repo: Repo, rep, P: str):
    dis, counts, _ = specdiff.diff_all(repo)
    n = 0
    for d in dis:
        if d.category in ("controller", "enum"):
            n += 1
            what = "controller metadata" if d.category == "controller" else "the members of an enumeration (a controller's value domain)"
            rep.violation(f"{P}.R5", d.construct, f"{d.mtype}.{d.path}",
                          f"{what} differs from the specification: spec {d.expected!r}, class {d.actual!r}", d.where)
    if n == 0:
        rep.ok(f"{P}.R5", "rv/modules/base/*.py", f"{counts['controllers']} controllers", "kind, bounds, default and order equal the YAML")
    rep.count("controllers_compared_with_spec", counts["controllers"], 502)
    # no hand-written class re-binds a generated name
    spec = specdiff.load_spec(repo)
    for modname in spec.get("module_types", {}):
        try:
            base = specdiff.base_class_for(repo, modname)
        except AnchorMissing:
            continue
        gen = {c.name for c in own_controllers(repo, base)}
        for ci in module_classes(repo):
            if f"Base{modname}" in repo.base_names(ci):
                for nm in ci.assigns:
                    if nm in gen:
                        rep.violation(f"{P}.R5", f"{ci.file.rel}:{ci.qualname}.{nm}", f"{nm} = {norm(ci.assigns[nm])[:60]}",
                                      "a hand-written class re-binds a generated controller: its default/range no longer come from the spec",
                                      f"{ci.file.rel}:{ci.assign_stmts[nm].lineno}")
                for nm in list(ci.getters) + list(ci.methods):
                    if nm in gen:
                        rep.violation(f"{P}.R5", f"{ci.file.rel}:{ci.qualname}.{nm}", f"def {nm}",
                                      "a method/property of the hand-written class shadows a generated controller", ci.file.rel)


# ------------------------------------------------------------------------------------ R6
def constructor_overrides(repo: Repo, rep, P: str):
    n = 0
    for ci in module_classes(repo):
        init = ci.methods.get("__init__")
        if init is None:
            continue
        ctls = {c.name: c for c in all_controllers(repo, ci)}
        for st in walk_no_nested(init):
            if not isinstance(st, ast.Assign):
                continue
            for t in st.targets:
                ch = attr_chain(t)
                if ch and ch[0] == "self" and len(ch) == 2 and ch[1] in ctls:
                    n += 1
                    c = ctls[ch[1]]
                    con = f"{ci.file.rel}:{ci.qualname}.__init__"
                    val, trail = _chase(repo, ci, init, st.value, 0)
                    text = f"self.{ch[1]} = {norm(st.value)}"
                    if val is _UNRESOLVED:
                        rep.info(f"{P}.R6", con, text, f"override not resolvable to a constant ({' ← '.join(trail)}): listed, not decided")
                        continue
                    dflt = c.default
                    if isinstance(dflt, tuple) and dflt and dflt[0] == "enum":
                        # compare by member name
                        same = isinstance(val, tuple) and val[:1] == ("enum",) and val[-1] == dflt[2]
                    else:
                        same = (val == dflt) and not isinstance(val, tuple)
                    if same:
                        rep.ok(f"{P}.R6", con, text, f"resolves to the specified default ({' ← '.join(trail)})")
                    else:
                        rep.violation(f"{P}.R6", con, text,
                                      f"a freshly constructed {ci.name} overwrites controller `{ch[1]}` with {_show(val)} "
                                      f"({' ← '.join(trail)}); the specification's default is {_show(dflt)}", f"{ci.file.rel}:{st.lineno}")
    rep.count("constructor_overrides_of_controllers", n)


_UNRESOLVED = object()


def _show(v):
    if isinstance(v, tuple) and v and v[0] == "enum":
        return ".".join(str(x) for x in v[1:])
    return repr(v)


def _chase(repo: Repo, ci: ClassInfo, fn: ast.FunctionDef, e: ast.expr, depth: int, env_cls: Optional[ClassInfo] = None):
    """Resolve e to a constant through local ← attribute ← property getter ← constant assignment in __init__."""
    trail = [norm(e)]
    if depth > 5:
        return _UNRESOLVED, trail
    cls = env_cls or ci
    try:
        v = repo.fold(e, ci=cls)
        if isinstance(e, ast.Attribute) and not isinstance(v, (int, bool, str)) is False and "." in norm(e) and norm(e).split(".")[-2][:1].isupper():
            return ("enum", norm(e).split(".")[-2], norm(e).split(".")[-1]), trail
        return v, trail
    except NotConst:
        pass
    if isinstance(e, ast.Attribute) and norm(e).split(".")[-2][:1].isupper() if "." in norm(e) and len(norm(e).split(".")) >= 2 else False:
        return ("enum", norm(e).split(".")[-2], norm(e).split(".")[-1]), trail
    if isinstance(e, ast.Name):
        # single local definition in fn
        defs = [n.value for n in walk_no_nested(fn) if isinstance(n, ast.Assign) and len(n.targets) == 1
                and isinstance(n.targets[0], ast.Name) and n.targets[0].id == e.id]
        if len(defs) == 1:
            v, t2 = _chase(repo, ci, fn, defs[0], depth + 1, env_cls)
            return v, trail + t2
        return _UNRESOLVED, trail
    if isinstance(e, ast.Attribute):
        # obj.attr where obj resolves to an instance of a known class
        ocls = _instance_class(repo, ci, fn, e.value)
        if ocls is not None:
            r = repo.lookup(ocls, e.attr)
            if r and r[1] == "property" and r[2][0] is not None:
                ret = [s.value for s in stmts_of(r[2][0]) if isinstance(s, ast.Return)]
                if len(ret) == 1 and ret[0] is not None:
                    # property returns self._x: look for the constant assigned in ocls.__init__
                    ch = attr_chain(ret[0])
                    if ch and ch[0] == "self" and len(ch) == 2:
                        init = ocls.methods.get("__init__")
                        if init is not None:
                            assigns = [n.value for n in walk_no_nested(init) if isinstance(n, ast.Assign)
                                       and any(norm(t) == f"self.{ch[1]}" for t in n.targets)]
                            if len(assigns) == 1:
                                v, t2 = _chase(repo, ocls, init, assigns[0], depth + 1, ocls)
                                return v, trail + [f"{ocls.name}.{e.attr} → self.{ch[1]}"] + t2
            if r and r[1] == "assign":
                try:
                    return repo.fold(r[2], ci=r[0]), trail
                except NotConst:
                    pass
    return _UNRESOLVED, trail


def _instance_class(repo: Repo, ci: ClassInfo, fn: ast.FunctionDef, e: ast.expr) -> Optional[ClassInfo]:
    """Class of the object an expression denotes: local ← self.list[i] ← [Cls(...) for ...] in fn."""
    if isinstance(e, ast.Name):
        defs = [n.value for n in walk_no_nested(fn) if isinstance(n, ast.Assign) and len(n.targets) == 1
                and isinstance(n.targets[0], ast.Name) and n.targets[0].id == e.id]
        if len(defs) >= 1:
            return _instance_class(repo, ci, fn, defs[-1])
        return None
    if isinstance(e, ast.Subscript):
        return _instance_class(repo, ci, fn, e.value)
    if isinstance(e, ast.Attribute) and norm(e.value) == "self":
        for n in walk_no_nested(fn):
            if isinstance(n, ast.Assign) and any(norm(t) == norm(e) for t in n.targets):
                v = n.value
                if isinstance(v, ast.ListComp) and isinstance(v.elt, ast.Call):
                    return repo.class_of_expr(v.elt.func, ci, ci.file)
                if isinstance(v, ast.Call):
                    return repo.class_of_expr(v.func, ci, ci.file)
    if isinstance(e, ast.Call):
        return repo.class_of_expr(e.func, ci, ci.file)
    return None
