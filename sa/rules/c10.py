"""C10 — stored controller encodings are exact bijections on each controller's range."""

from __future__ import annotations

import ast
import copy
from fractions import Fraction
from typing import Dict, List, Optional, Tuple

from .. import alg
from ..cfg import CFG
from ..classmodel import all_controllers, module_classes
from ..model import AnchorMissing, ClassInfo, NotConst, Repo, attr_chain, norm, stmts_of, walk_no_nested

LEVEL = "proof"
EXPLANATION = (
    "symbolic proof in an affine/rational domain: for every range kind (Range, CompactRange, WarnOnlyRange, "
    "NoOffsetRange) to_raw_value and from_raw_value are folded to affine forms in (v, min) under the three sign "
    "cases of min and the identities from(to(v)) = v, to(v) = v − min (min < 0) resp. v (otherwise / no-offset) "
    "are checked by polynomial equality — for all values at once; get_raw/set_raw pass through these functions "
    "on every path (def-use); Controller.pattern_value is normalised as a rational function and compared with "
    "(v − min)·32768/(max − min) (hence 0 at min, 0x8000 at max, positive slope) resp. v − min for the compact "
    "kind; DependentRange.parent selects by the unit controller's value. IEEE rounding of the float expression "
    "is outside the claim."
)
DECLINED = ["IEEE-754 rounding of int(shifted / (shifted_max / 32768)) for particular (value, range) pairs"]
ASSUMPTIONS = ["range bounds satisfy min ≤ max (C13 compares them with the specification)"]

KINDS = ["Range", "CompactRange", "WarnOnlyRange", "NoOffsetRange"]
OFFSET_KINDS = {"Range": True, "CompactRange": True, "WarnOnlyRange": True, "NoOffsetRange": False}
CASES = [("min < 0", -1), ("min = 0", 0), ("min > 0", 1)]


def run(repo: Repo, rep, tier: str):
    inverse_pairs(repo, rep, "C10", "R1")
    from . import c05
    c05.raw_inverse_paths(repo, rep, "C10", "R2")
    raw_guards(repo, rep, "C10", "R2g")
    from . import c15
    c15.user_value_type_rule(repo, rep, "C10", "R2u")      # MetaModule user controllers encode with the resolved range of their target
    pattern_value(repo, rep, "C10")
    dependent_parent(repo, rep, "C10")
    range_inventory(repo, rep, "C10")


def _thresholds(repo: Repo, ci: ClassInfo, e: ast.expr) -> Optional[List[int]]:
    """Constants that `self.min` is compared with anywhere in the conditional expression(s) of e."""
    out: List[int] = []
    for n in ast.walk(e):
        if isinstance(n, ast.Compare) and len(n.ops) == 1:
            l, r = n.left, n.comparators[0]
            other = r if norm(l) == "self.min" else (l if norm(r) == "self.min" else None)
            if other is not None:
                try:
                    c = repo.fold(other, ci=ci)
                    if isinstance(c, int) and not isinstance(c, bool):
                        out.append(c)
                except NotConst:
                    pass
    return out


class _SetMin(ast.NodeTransformer):
    def __init__(self, m0: int):
        self.m0 = m0

    def visit_Attribute(self, node):
        if norm(node) == "self.min" and isinstance(node.ctx, ast.Load):
            return ast.copy_location(ast.Constant(value=self.m0), node)
        return self.generic_visit(node)


def _decide(repo: Repo, ci: ClassInfo, test: ast.expr, m0: int) -> Optional[bool]:
    """Truth value of a condition that depends on nothing but self.min (and constants), for the concrete minimum m0."""
    import copy as _copy
    t = _resolve_for_case(repo, ci, _copy.deepcopy(test), m0)
    try:
        v = repo.fold(_SetMin(m0).visit(_copy.deepcopy(t)), ci=ci)
    except Exception:
        return None
    if isinstance(v, (int, bool)) or v is None:
        return bool(v)
    return None


def _resolve_for_case(repo: Repo, ci: ClassInfo, e: ast.expr, m0: int) -> ast.expr:
    """`e` with every conditional expression whose test is decided by self.min = m0 replaced by the branch taken
    (self.min stays symbolic in what remains)."""
    class R(ast.NodeTransformer):
        def visit_IfExp(self, node):
            d = _decide(repo, ci, node.test, m0)
            if d is None:
                return self.generic_visit(node)
            return self.visit(node.body if d else node.orelse)
    import copy as _copy
    return R().visit(_copy.deepcopy(e))


def _branch_for_case(repo: Repo, ci: ClassInfo, e: ast.expr, m0: int) -> Optional[ast.expr]:
    """Resolve the conditional expressions of `e` for the concrete minimum m0; None if one of them is not decided by self.min."""
    out = _resolve_for_case(repo, ci, e, m0)
    if any(isinstance(n, ast.IfExp) for n in ast.walk(out)):
        return None
    return out


def _single_return(fn: ast.FunctionDef) -> Optional[ast.expr]:
    """Return expression of a function, with local assignments substituted in and if/return chains as conditional
    expressions."""
    from .. import inline
    e = inline.as_expression(fn)
    if e is not None:
        return e
    from ..codec import subst
    body = stmts_of(fn)
    env = {}
    for st in body:
        if isinstance(st, ast.Assign) and len(st.targets) == 1 and isinstance(st.targets[0], ast.Name):
            env[st.targets[0].id] = subst(st.value, env)
        elif isinstance(st, ast.Return) and st.value is not None:
            return subst(st.value, env)
        else:
            return None
    return None


def _lossy(e: ast.AST) -> Optional[str]:
    for n in ast.walk(e):
        if isinstance(n, ast.Call) and norm(n.func) in ("min", "max", "abs", "round", "int", "divmod"):
            return norm(n)[:60]
        if isinstance(n, ast.BinOp) and isinstance(n.op, (ast.Mod, ast.FloorDiv, ast.BitAnd, ast.RShift)):
            return norm(n)[:60]
    return None


def inverse_pairs(repo: Repo, rep, P: str, rule: str):
    n = 0
    for kind in KINDS:
        ci = repo.cls(kind, module="rv.controller")
        rel = ci.file.rel
        try:
            to_owner, to_fn = repo.method(ci, "to_raw_value")
            fr_owner, fr_fn = repo.method(ci, "from_raw_value")
        except AnchorMissing as e:
            rep.violation(f"{P}.{rule}", f"{rel}:{kind}", "to_raw_value / from_raw_value", str(e), rel)
            continue
        rep.func(f"rv.controller.{to_owner.name}.to_raw_value / {fr_owner.name}.from_raw_value (as {kind})")
        tp = [a.arg for a in to_fn.args.args if a.arg != "self"][0]
        fp = [a.arg for a in fr_fn.args.args if a.arg != "self"][0]
        from .. import inline
        # helpers and predicates are resolved for an instance of exactly this kind
        # (public one-expression properties of the range classes — `raw_offset`, `span` — are read through as well)
        try:
            props = tuple(sorted({nm for k_ in repo.mro(ci) for nm in k_.getters if nm not in ("min", "max")}))
        except Exception:
            props = ()
        to_fn, fr_fn = inline.flatten(repo, ci, to_fn, exact=True, also=props), inline.flatten(repo, ci, fr_fn, exact=True, also=props)
        te, fe = _single_return(to_fn), _single_return(fr_fn)
        con_t, con_f = f"{rel}:{to_owner.name}.to_raw_value", f"{rel}:{fr_owner.name}.from_raw_value"
        if te is None or fe is None:
            rep.inconclusive(f"{P}.{rule}", con_t, "", "conversion is not a single return expression", f"{rel}:{to_fn.lineno}")
            continue
        th_t, th_f = _thresholds(repo, ci, te), _thresholds(repo, ci, fe)
        if th_t is None or th_f is None:
            rep.inconclusive(f"{P}.{rule}", con_t, f"[{kind}] {norm(te)} / {norm(fe)}", "branch condition is not a comparison of self.min with a constant",
                             f"{rel}:{to_fn.lineno}")
            continue
        # integer minimum: the tests are constant on each region between the thresholds (and 0)
        points = sorted({p for b in set(th_t + th_f + [0]) for p in (b - 1, b, b + 1)})
        cases = []
        seen_cases = set()
        for m0 in points:
            sign = (m0 > 0) - (m0 < 0)
            key = (norm(_branch_for_case(repo, ci, te, m0) or te), norm(_branch_for_case(repo, ci, fe, m0) or fe), sign)
            if key not in seen_cases:
                seen_cases.add(key)
                label = {-1: "min < 0", 0: "min = 0", 1: "min > 0"}[sign] + (f" (e.g. min = {m0})" if len(points) > 3 else "")
                cases.append((label, sign, m0))
        for label, sign, m0 in cases:
            n += 1
            tb, fb = _branch_for_case(repo, ci, te, m0), _branch_for_case(repo, ci, fe, m0)
            if tb is None or fb is None:
                rep.inconclusive(f"{P}.{rule}", con_t, f"[{kind}, {label}] {norm(te)} / {norm(fe)}", "branch condition not a sign test of self.min",
                                 f"{rel}:{to_fn.lineno}")
                continue

            def leaf_t(e):
                if isinstance(e, ast.Name) and e.id == tp:
                    return alg.Poly.sym("v")
                if norm(e) == "self.min":
                    return alg.Poly.sym("m")
                return None

            def leaf_f(e):
                if isinstance(e, ast.Name) and e.id == fp:
                    return alg.Poly.sym("r")
                if norm(e) == "self.min":
                    return alg.Poly.sym("m")
                return None
            try:
                tpoly, fpoly = alg.to_poly(tb, leaf_t), alg.to_poly(fb, leaf_f)
            except alg.NotAlgebraic as e:
                lossy = _lossy(tb) or _lossy(fb)
                if lossy:
                    rep.violation(f"{P}.{rule}", con_t, f"[{kind}, {label}] to_raw = {norm(tb)[:70]}; from_raw = {norm(fb)[:70]}",
                                  f"the conversion applies `{lossy}`, which is not injective: distinct controller values collide on one "
                                  "stored value (the stored value must be exactly v − min resp. v)", f"{rel}:{to_fn.lineno}")
                else:
                    rep.inconclusive(f"{P}.{rule}", con_t, f"[{kind}, {label}] {norm(tb)}", f"not affine: {e}", f"{rel}:{to_fn.lineno}")
                continue
            v, m = alg.Poly.sym("v"), alg.Poly.sym("m")
            if sign == 0:
                tpoly, fpoly = tpoly.subst("m", alg.Poly.const(0)), fpoly.subst("m", alg.Poly.const(0))
            want = (v - m) if (OFFSET_KINDS[kind] and sign < 0) else v
            text = f"[{kind}, {label}] to_raw(v) = {tpoly}; from_raw(r) = {fpoly}"
            ok = True
            if not (tpoly == want):
                ok = False
                rep.violation(f"{P}.{rule}", con_t, text,
                              f"for a {kind} with {label} the stored value must be {'v − min (never negative)' if want != v else 'v itself'}, "
                              f"the code computes {tpoly}", f"{rel}:{to_fn.lineno}")
            comp = fpoly.subst("r", tpoly)
            if not (comp == v):
                ok = False
                rep.violation(f"{P}.{rule}", con_f, text,
                              f"for a {kind} with {label} loading a stored value gives from_raw(to_raw(v)) = {comp} ≠ v: "
                              "values drift or collide on a round trip", f"{rel}:{fr_fn.lineno}")
            if ok:
                rep.ok(f"{P}.{rule}", con_t, text, f"to_raw(v) = {want}, from_raw∘to_raw = id")
                if len(rep.samples) < 6:
                    rep.sample({"kind": kind, "case": label, "to_raw": str(tpoly), "from_raw": str(fpoly), "composition": str(comp)})
    rep.count(f"{rule}.range_kind_cases", n, 12)
    # __call__ validates and returns the value unchanged
    rng = repo.cls("Range", module="rv.controller")
    call = repo.own_method(rng, "__call__")
    s = [norm(x) for x in stmts_of(call)]
    p = [a.arg for a in call.args.args if a.arg != "self"][0]
    if s == [f"self.validate({p})", f"return {p}"]:
        rep.ok(f"{P}.{rule}", f"{rng.file.rel}:Range.__call__", "; ".join(s), "validation does not alter the value")
    else:
        rep.violation(f"{P}.{rule}", f"{rng.file.rel}:Range.__call__", "; ".join(s), "Range(value) must validate and return the value unchanged",
                      f"{rng.file.rel}:{call.lineno}")


# ------------------------------------------------------------------------------------ R2g
GUARD_IGNORED = ("log.", "logging.", "_F", "str", "repr", "int", "format", "print", "hex")


class _NoInterval(Exception):
    pass


def _rejects(repo: Repo, ci: ClassInfo, body: List[ast.stmt], depth: int = 0) -> bool:
    for st in body:
        for n in ast.walk(st):
            if isinstance(n, ast.Raise):
                return True
            if isinstance(n, ast.Call) and isinstance(n.func, ast.Attribute) and norm(n.func.value) == "self" and depth < 2:
                try:
                    _, h = repo.method(ci, n.func.attr)
                except AnchorMissing:
                    continue
                if _rejects(repo, ci, h.body, depth + 1):
                    return True
    return False


def _accept_interval(repo: Repo, ci: ClassInfo, fn: ast.FunctionDef, depth: int = 0):
    """(lo, hi) Polys in m (= self.min), M (= self.max) such that the method rejects exactly the values outside [lo, hi];
    None bounds = unbounded.  Raises _NoInterval for bodies outside the recognised fragment."""
    params = [a.arg for a in fn.args.args if a.arg != "self"]
    if len(params) != 1:
        raise _NoInterval("validator takes more than the value")
    x = params[0]
    env: Dict[str, alg.Poly] = {}
    from .. import inline
    # flag locals written into the tests that read them; early `return` guards read as the enclosing condition of the rest
    fn = inline.nest_guard_clauses(inline.resolve_flags(copy.deepcopy(fn)))

    def leaf(e):
        if norm(e) == "self.min":
            return alg.Poly.sym("m")
        if norm(e) == "self.max":
            return alg.Poly.sym("M")
        if isinstance(e, ast.Name) and e.id in env:
            return env[e.id]
        return None
    lo = hi = None

    def tighten(kind, bound):
        nonlocal lo, hi
        if kind == "lo":
            lo = bound if lo is None else lo      # several lower bounds: keep the first (all are reported separately by the caller)
        else:
            hi = bound if hi is None else hi
    for st in stmts_of(fn):
        if isinstance(st, ast.Assign) and len(st.targets) == 1 and isinstance(st.targets[0], ast.Name):
            try:
                env[st.targets[0].id] = alg.to_poly(st.value, leaf)
            except alg.NotAlgebraic as e:
                raise _NoInterval(f"local {norm(st)} not affine")
            continue
        if isinstance(st, ast.Expr) and isinstance(st.value, ast.Call) and isinstance(st.value.func, ast.Attribute) \
                and norm(st.value.func.value) == "self" and len(st.value.args) == 1 and norm(st.value.args[0]) == x and depth < 2:
            try:
                owner, h = repo.method(ci, st.value.func.attr)
            except AnchorMissing:
                raise _NoInterval(f"callee {st.value.func.attr} not found")
            l2, h2 = _accept_interval(repo, ci, h, depth + 1)
            if l2 is not None:
                tighten("lo", l2)
            if h2 is not None:
                tighten("hi", h2)
            continue
        if isinstance(st, ast.If) and not st.orelse and _rejects(repo, ci, st.body):
            conds = st.test.values if isinstance(st.test, ast.BoolOp) and isinstance(st.test.op, ast.Or) else [st.test]
            t0 = st.test
            if isinstance(t0, ast.UnaryOp) and isinstance(t0.op, ast.Not) and isinstance(t0.operand, ast.Compare) \
                    and len(t0.operand.ops) == 2 and norm(t0.operand.comparators[0]) == x:
                # not (A <= x <= B): accepted exactly inside the chain
                c0 = t0.operand
                try:
                    a, b = alg.to_poly(c0.left, leaf), alg.to_poly(c0.comparators[1], leaf)
                except alg.NotAlgebraic:
                    raise _NoInterval(f"bound in {norm(c0)} not affine")
                o1, o2 = c0.ops
                if isinstance(o1, ast.LtE):
                    tighten("lo", a)
                elif isinstance(o1, ast.Lt):
                    tighten("lo", a + 1)
                else:
                    raise _NoInterval(f"condition {norm(t0)}")
                if isinstance(o2, ast.LtE):
                    tighten("hi", b)
                elif isinstance(o2, ast.Lt):
                    tighten("hi", b - 1)
                else:
                    raise _NoInterval(f"condition {norm(t0)}")
                continue
            for c in conds:
                if not (isinstance(c, ast.Compare) and len(c.ops) == 1):
                    raise _NoInterval(f"condition {norm(c)}")
                l, op, r = c.left, c.ops[0], c.comparators[0]
                if norm(r) == x and norm(l) != x:
                    l, r = r, l
                    op = {ast.Lt: ast.Gt, ast.Gt: ast.Lt, ast.LtE: ast.GtE, ast.GtE: ast.LtE}.get(type(op), type(None))()
                if norm(l) != x:
                    raise _NoInterval(f"condition {norm(c)}")
                try:
                    b = alg.to_poly(r, leaf)
                except alg.NotAlgebraic:
                    raise _NoInterval(f"bound {norm(r)} not affine")
                if isinstance(op, ast.Lt):
                    tighten("lo", b)
                elif isinstance(op, ast.LtE):
                    tighten("lo", b + 1)
                elif isinstance(op, ast.Gt):
                    tighten("hi", b)
                elif isinstance(op, ast.GtE):
                    tighten("hi", b - 1)
                else:
                    raise _NoInterval(f"condition {norm(c)}")
            continue
        if isinstance(st, (ast.Return, ast.Pass)):
            continue
        raise _NoInterval(f"statement {norm(st)[:50]}")
    return lo, hi


# integer regions of (m, M) with M >= m: (label, sign, vertex, extreme rays)
REGIONS = [("min < 0", -1, (-1, -1), [(0, 1), (-1, -1)]),
           ("min = 0", 0, (0, 0), [(0, 1)]),
           ("min > 0", 1, (1, 1), [(1, 1), (0, 1)])]


def _at(p: alg.Poly, m, M) -> Fraction:
    q = p.subst("m", alg.Poly.const(m)).subst("M", alg.Poly.const(M))
    if not q.is_const():
        raise _NoInterval(f"bound depends on {sorted(q.symbols())}")
    return q.const_value()


def _nonneg_on(p: alg.Poly, vertex, rays):
    """Is the affine p(m, M) >= 0 on vertex + cone(rays)?  Returns None or a witness (m, M)."""
    v0 = _at(p, *vertex)
    if v0 < 0:
        return vertex
    for r in rays:
        d = _at(p, vertex[0] + r[0], vertex[1] + r[1]) - v0
        if d < 0:
            k = int(v0 // (-d)) + 1
            return (vertex[0] + k * r[0], vertex[1] + k * r[1])
    return None


def raw_guards(repo: Repo, rep, P: str, rule: str):
    """Whatever Module.set_raw applies to the *stored* value before decoding it (a validator) accepts every stored value
    that to_raw_value can produce for a value of the range — otherwise set_raw(get_raw(v)) fails for in-range v."""
    mod = repo.cls("Module", module="rv.modules.module")
    from .. import inline
    fn = inline.normalize(repo, mod, repo.own_method(mod, "set_raw"))
    rel = mod.file.rel
    con = f"{rel}:Module.set_raw"
    params = [a.arg for a in fn.args.args if a.arg != "self"]
    raw = params[1] if len(params) > 1 else "raw_value"
    bound: Dict[str, str] = {}
    for n in walk_no_nested(fn):
        if isinstance(n, ast.Assign) and isinstance(n.value, ast.Call) and norm(n.value.func) == "getattr" and len(n.value.args) >= 2 \
                and isinstance(n.value.args[1], ast.Constant) and isinstance(n.targets[0], ast.Name):
            bound[n.targets[0].id] = str(n.value.args[1].value)
    guards: List[Tuple[str, ast.Call]] = []
    for c in walk_no_nested(fn):
        if not (isinstance(c, ast.Call) and any(norm(a) == raw for a in c.args)):
            continue
        f = norm(c.func)
        name = bound.get(f) if isinstance(c.func, ast.Name) else (c.func.attr if isinstance(c.func, ast.Attribute) else None)
        if isinstance(c.func, ast.Call) and norm(c.func.func) == "getattr" and len(c.func.args) >= 2 and isinstance(c.func.args[1], ast.Constant):
            name = str(c.func.args[1].value)          # getattr(t, "from_raw_value", int)(raw) called in place
        if name in ("from_raw_value",) or f.startswith(GUARD_IGNORED) or f in GUARD_IGNORED:
            continue
        if name is None:
            if f[:1].isupper() or f.endswith("Error") or "format" in f:
                continue
            rep.inconclusive(f"{P}.{rule}", con, norm(c), "the stored value is passed to a call that is not resolved", f"{rel}:{c.lineno}")
            continue
        guards.append((name, c))
    rep.instances["stored_value_guards_in_set_raw"] = len(guards)
    if not guards:
        rep.ok(f"{P}.{rule}", con, f"`{raw}` flows only into from_raw_value", "no check is applied to the undecoded stored value")
        return
    for name, call in guards:
        for kind in KINDS:
            ci = repo.cls(kind, module="rv.controller")
            try:
                owner, g = repo.method(ci, name)
                to_owner, to_fn = repo.method(ci, "to_raw_value")
            except AnchorMissing:
                rep.ok(f"{P}.{rule}", f"{ci.file.rel}:{kind}.{name}", "not defined", "no stored-value check for this kind", nontrivial=False)
                continue
            gcon = f"{ci.file.rel}:{owner.name}.{name}"
            try:
                if any(k.name == "WarnOnlyRange" for k in repo.mro(ci)) and "WarnOnlyRange" in norm(g) + "".join(
                        norm(repo.method(ci, c2.func.attr)[1]) for c2 in ast.walk(g)
                        if isinstance(c2, ast.Call) and isinstance(c2.func, ast.Attribute) and norm(c2.func.value) == "self"
                        and c2.func.attr in {m for k in repo.mro(ci) for m in k.methods}):
                    rep.ok(f"{P}.{rule}", gcon, f"[{kind}]", "warn-only kind: the check does not reject", nontrivial=False)
                    continue
            except AnchorMissing:
                pass
            try:
                lo, hi = _accept_interval(repo, ci, g)
            except _NoInterval as e:
                rep.inconclusive(f"{P}.{rule}", gcon, f"[{kind}] {norm(call)}", f"acceptance set of the stored-value check not derivable: {e}",
                                 f"{ci.file.rel}:{g.lineno}")
                continue
            te = _single_return(to_fn)
            tp = [a.arg for a in to_fn.args.args if a.arg != "self"][0]
            for label, sign, vertex, rays in REGIONS:
                tb = _branch_for_case(repo, ci, te, vertex[0]) if te is not None else None
                if tb is None:
                    rep.inconclusive(f"{P}.{rule}", gcon, f"[{kind}, {label}]", "to_raw_value not resolvable for this case", f"{ci.file.rel}:{g.lineno}")
                    continue

                def leaf_t(e):
                    if isinstance(e, ast.Name) and e.id == tp:
                        return alg.Poly.sym("v")
                    if norm(e) == "self.min":
                        return alg.Poly.sym("m")
                    if norm(e) == "self.max":
                        return alg.Poly.sym("M")
                    return None
                try:
                    tpoly = alg.to_poly(tb, leaf_t)
                    img_lo, img_hi = tpoly.subst("v", alg.Poly.sym("m")), tpoly.subst("v", alg.Poly.sym("M"))
                    bad = None
                    if lo is not None:
                        w = _nonneg_on(img_lo - lo, vertex, rays)
                        if w is not None:
                            bad = (w, f"stored value of v = min is {img_lo} < accepted minimum {lo}")
                    if hi is not None and bad is None:
                        w = _nonneg_on(hi - img_hi, vertex, rays)
                        if w is not None:
                            bad = (w, f"stored value of v = max is {img_hi} > accepted maximum {hi}")
                except (alg.NotAlgebraic, _NoInterval) as e:
                    rep.inconclusive(f"{P}.{rule}", gcon, f"[{kind}, {label}]", f"not affine: {e}", f"{ci.file.rel}:{g.lineno}")
                    continue
                text = f"[{kind}, {label}] {name} accepts [{lo}, {hi}]; to_raw maps [min, max] onto [{img_lo}, {img_hi}]"
                if bad is None:
                    rep.ok(f"{P}.{rule}", gcon, text, "every stored value of an in-range value is accepted")
                else:
                    (wm, wM), why = bad
                    rep.violation(f"{P}.{rule}", gcon, text,
                                  f"set_raw applies `{name}` to the stored value before decoding; for a {kind} with {label} (e.g. min = {wm}, "
                                  f"max = {wM}) {why} (m = min, M = max): set_raw(get_raw(v)) is rejected for in-range v",
                                  f"{ci.file.rel}:{g.lineno}")


# ------------------------------------------------------------------------------------ R3
def _devirtualize_range_calls(repo: Repo, fn: ast.FunctionDef) -> ast.FunctionDef:
    """`return t.m(args)` with `m` a method of Range that some subclasses override reads as the isinstance ladder it dispatches to
    (most derived class first), each arm the method's body as an expression over `t` and the arguments.  The names of the methods
    read through are left in `fn._devirtualized`.  Calls whose implementations are not single expressions stay as they are."""
    from .. import inline
    rng = repo.cls("Range", module="rv.controller")
    family = [rng] + [c for c in repo.subclasses("Range") if c.file is rng.file]
    done: set = set()

    def impl(k: ClassInfo, m: str, recv: ast.expr, args: List[ast.expr]) -> Optional[ast.expr]:
        f = k.methods.get(m)
        if f is None or any(d for d in f.decorator_list):
            return None
        ps = [a.arg for a in f.args.args]
        if len(ps) != len(args) + 1 or f.args.vararg or f.args.kwarg or f.args.kwonlyargs:
            return None
        e = inline.as_expression(inline.normalize(repo, k, f))
        if e is None:
            return None
        return inline._Rename(dict(zip(ps, [recv] + list(args)))).visit(copy.deepcopy(e))

    def ladder(call: ast.Call) -> Optional[List[ast.stmt]]:
        recv, m = call.func.value, call.func.attr
        if call.keywords or any(isinstance(a, ast.Starred) for a in call.args) or m not in rng.methods:
            return None
        owners = [k for k in family if m in k.methods]
        # most derived first: a class comes before its bases
        owners.sort(key=lambda k: -len(repo.mro(k)))
        arms = []
        for k in owners:
            e = impl(k, m, recv, call.args)
            if e is None:
                return None
            arms.append((k, e))
        if not arms or arms[-1][0] is not rng:
            return None
        stmts: List[ast.stmt] = [ast.Return(value=arms[-1][1])]
        for k, e in reversed(arms[:-1]):
            test = ast.Call(func=ast.Name(id="isinstance", ctx=ast.Load()), args=[copy.deepcopy(recv), ast.Name(id=k.name, ctx=ast.Load())], keywords=[])
            stmts = [ast.If(test=test, body=[ast.Return(value=e)], orelse=stmts)]
        done.add(m)
        return stmts

    def block(stmts: List[ast.stmt]) -> List[ast.stmt]:
        out: List[ast.stmt] = []
        for st in stmts:
            if isinstance(st, ast.Return) and isinstance(st.value, ast.Call) and isinstance(st.value.func, ast.Attribute) \
                    and isinstance(st.value.func.value, ast.Name):
                r = ladder(st.value)
                if r is not None:
                    for x in r:
                        ast.copy_location(x, st)
                        ast.fix_missing_locations(x)
                    out.extend(r)
                    continue
            for fld in ("body", "orelse"):
                sub = getattr(st, fld, None)
                if isinstance(sub, list) and sub and isinstance(sub[0], ast.stmt) and not isinstance(st, (ast.FunctionDef, ast.ClassDef)):
                    setattr(st, fld, block(sub))
            out.append(st)
        return out
    new = copy.deepcopy(fn)
    new.body = block(new.body)
    new._devirtualized = done
    return new


def pattern_value(repo: Repo, rep, P: str):
    ctl = repo.cls("Controller", module="rv.controller")
    from .. import inline
    fn = inline.normalize(repo, ctl, repo.own_method(ctl, "pattern_value"))
    rel = ctl.file.rel
    construct = f"{rel}:Controller.pattern_value"
    rep.func("rv.controller.Controller.pattern_value")
    params = [a.arg for a in fn.args.args if a.arg != "self"]
    vparam = params[1] if len(params) > 1 else "value"
    fn = _devirtualize_range_calls(repo, inline.split_ifexp_returns(fn))
    g = CFG(fn)
    paths = g.paths(g.entry, [g.exit], max_visits=1, limit=200, labels_excluded={"exc", "reraise", "nomatch"})
    if not paths:
        rep.inconclusive(f"{P}.R3", construct, "", "no paths", f"{rel}:{fn.lineno}")
        return
    seen = {"nonrange": False, "compact": False, "scaled": False}
    for path in paths:
        env: Dict[str, ast.expr] = {}
        conds: List[Tuple[str, str]] = []
        ret = None
        for nid, lab in path:
            n = g.nodes[nid]
            if n.kind == "test":
                conds.append((norm(n.ast), lab))
            elif n.kind == "stmt" and isinstance(n.ast, ast.Assign) and isinstance(n.ast.targets[0], ast.Name):
                env[n.ast.targets[0].id] = n.ast.value
            elif n.kind == "stmt" and isinstance(n.ast, ast.Return):
                ret = n.ast.value
        tvar = next((k for k, v in env.items() if "instance_value_type" in norm(v)), "t")
        is_range = None
        is_compact = None
        for t, lab in conds:
            tt = t.replace(" ", "")
            if tt == f"notisinstance({tvar},Range)":
                is_range = lab == "false"
            elif tt == f"isinstance({tvar},Range)":
                is_range = lab == "true"
            elif tt == f"isinstance({tvar},CompactRange)":
                is_compact = lab == "true"
            elif tt == f"notisinstance({tvar},CompactRange)":
                is_compact = lab == "false"
        if ret is None:
            continue

        def leaf(e):
            if isinstance(e, ast.Name) and e.id == vparam:
                return alg.Rat(alg.Poly.sym("v"))
            if isinstance(e, ast.Name) and e.id in env:
                return alg.to_rat(env[e.id], leaf)
            if norm(e) == f"{tvar}.min":
                return alg.Rat(alg.Poly.sym("min"))
            if norm(e) == f"{tvar}.max":
                return alg.Rat(alg.Poly.sym("max"))
            if isinstance(e, ast.Attribute) and isinstance(e.value, ast.Name) and e.value.id == tvar:
                # a one-expression property of the range classes (`span = max − min`), read with the range in place of self
                try:
                    rng_ = repo.cls("Range", module="rv.controller")
                    r_ = repo.lookup(rng_, e.attr)
                    if r_ is not None and r_[1] == "property" and r_[2][0] is not None:
                        body_ = inline.as_expression(inline.normalize(repo, r_[0], r_[2][0]))
                        if body_ is not None:
                            return alg.to_rat(inline._Rename({"self": ast.Name(id=tvar, ctx=ast.Load())}).visit(copy.deepcopy(body_)), leaf)
                except alg.NotAlgebraic:
                    raise
                except Exception:
                    pass
            if isinstance(e, (ast.Name, ast.Attribute)):
                try:
                    c = repo.fold(e, ci=ctl)             # module / class constant (e.g. the 0x8000 scale given a name)
                except (NotConst, AnchorMissing):
                    return None
                if isinstance(c, int) and not isinstance(c, bool):
                    return alg.Rat(alg.Poly.const(c))
            return None
        v, mn, mx = alg.Poly.sym("v"), alg.Poly.sym("min"), alg.Poly.sym("max")
        where = f"{rel}:{fn.lineno}"
        label = f"[range={is_range}, compact={is_compact}] return {norm(ret)}"
        if is_range is False:
            seen["nonrange"] = True
            if norm(ret) == vparam:
                rep.ok(f"{P}.R3", construct, label, "non-range types are returned unchanged")
            else:
                rep.violation(f"{P}.R3", construct, label, "non-range controller values must be passed through unchanged", where)
            continue
        inner = ret
        wrapped_int = False
        if isinstance(inner, ast.Call) and norm(inner.func) == "int" and len(inner.args) == 1:
            inner = inner.args[0]
            wrapped_int = True
        try:
            r = alg.to_rat(inner, leaf)
        except alg.NotAlgebraic as e:
            rep.inconclusive(f"{P}.R3", construct, label, f"not a rational function: {e}", where)
            seen["compact" if is_compact else "scaled"] = True
            continue
        if is_compact:
            seen["compact"] = True
            if r.equals(alg.Rat(v - mn)):
                rep.ok(f"{P}.R3", construct, label, "compact kind ≡ v − min")
            else:
                rep.violation(f"{P}.R3", construct, label, f"the compact kind must map to v − min, the code computes {r}", where)
        elif is_range:
            seen["scaled"] = True
            want = alg.Rat((v - mn) * 32768, mx - mn)
            if r.equals(want):
                # endpoints and slope in exact arithmetic
                at_min = alg.Rat(r.n.subst("v", mn), r.d.subst("v", mn))
                at_max = alg.Rat(r.n.subst("v", mx), r.d.subst("v", mx))
                ok0 = at_min.n == alg.Poly.const(0)
                ok1 = at_max.equals(alg.Rat(alg.Poly.const(32768)))
                if ok0 and ok1 and wrapped_int:
                    rep.ok(f"{P}.R3", construct, label, "≡ (v − min)·32768/(max − min): 0 at min, 0x8000 at max, slope 32768/(max−min) > 0")
                else:
                    rep.violation(f"{P}.R3", construct, label, f"endpoint check failed (min→{at_min}, max→{at_max})", where)
            else:
                rep.violation(f"{P}.R3", construct, label,
                              f"the pattern encoding of a ranged controller must be (v − min)·32768/(max − min); the code computes {r} "
                              "(range minimum no longer maps to 0x0000 or maximum to 0x8000)", where)
    for k, what in (("nonrange", "non-range pass-through"), ("compact", "compact branch (v − min)"), ("scaled", "scaled branch")):
        if not seen[k]:
            rep.violation(f"{P}.R3", construct, what, f"pattern_value has no path for the {what}", f"{rel}:{fn.lineno}")
    rep.count("pattern_value_paths", len(paths), 3)
    # CompactRange must be a Range (the isinstance ladder relies on it)
    cr = repo.cls("CompactRange", module="rv.controller")
    if repo.base_names(cr) == ["Range"] and not cr.methods:
        rep.ok(f"{P}.R3", f"{rel}:CompactRange", "class CompactRange(Range): (no overrides)", nontrivial=False)
    elif repo.base_names(cr) == ["Range"] and set(cr.methods) <= getattr(fn, "_devirtualized", set()):
        rep.ok(f"{P}.R3", f"{rel}:CompactRange", f"class CompactRange(Range): overrides {sorted(cr.methods)}, read through in pattern_value",
               nontrivial=False)
    elif repo.base_names(cr) == ["Range"]:
        rep.inconclusive(f"{P}.R3", f"{rel}:CompactRange", f"methods {sorted(cr.methods)}",
                         "CompactRange overrides methods of Range that this rule does not read through", rel)
    else:
        rep.violation(f"{P}.R3", f"{rel}:CompactRange", f"bases {repo.base_names(cr)}, methods {sorted(cr.methods)}",
                      "CompactRange must be a plain marker subclass of Range", rel)


# ------------------------------------------------------------------------------------ R4
def dependent_parent(repo: Repo, rep, P: str):
    dr = repo.cls("DependentRange", module="rv.controller")
    fn = repo.own_method(dr, "parent")
    rel = dr.file.rel
    construct = f"{rel}:DependentRange.parent"
    rep.func("rv.controller.DependentRange.parent")
    from .. import inline, guards
    from ..packed import single_defs
    from . import c14
    fn = inline.split_ifexp_returns(inline.normalize(repo, dr, fn, aliases=True))
    ip = [a.arg for a in fn.args.args if a.arg != "self"][0]
    g = CFG(fn)
    paths = g.paths(g.entry, [g.exit], max_visits=1, limit=2000, labels_excluded=("exc",))
    defs = single_defs(fn)
    L = f"{ip}.controllers_loaded"
    key_forms = (f"{ip}.controller_values.get(self.ctl_name, None)", f"{ip}.controller_values.get(self.ctl_name)",
                 f"{ip}.controller_values[self.ctl_name]")
    not_loaded = {guards.canon_text(f"not {L}"), guards.canon_text(f"self.ctl_name not in {L}"),
                  guards.nnf(ast.parse(f"not {L} or self.ctl_name not in {L}", mode="eval").body)}
    picked = 0
    problems: List[Tuple[str, str, str]] = []       # (kind, text, why)
    # the selection is a function of the unit controller's CURRENT value: parent() reads nothing but the range table, the default,
    # the loaded set and the stored values, and writes nothing (a remembered result would survive a change of the unit)
    allowed = {"self": {"ctl_name", "range_map", "default"}, ip: {"controllers_loaded", "controller_values"}}
    for n in ast.walk(fn):
        if isinstance(n, ast.Attribute) and isinstance(n.value, ast.Name) and n.value.id in allowed:
            if isinstance(n.ctx, ast.Store) or n.attr not in allowed[n.value.id]:
                problems.append(("bad", norm(n), f"the selected range depends on other state ({norm(n)}): it must be derived from the unit "
                                 "controller's current value on every call"))
        if isinstance(n, ast.Subscript) and isinstance(n.ctx, (ast.Store, ast.Del)):
            problems.append(("bad", norm(n), "parent() stores into a table: the selected range must be derived from the unit controller's "
                             "current value on every call, not remembered"))
    if problems:
        for _, t, why in problems[:2]:
            rep.violation(f"{P}.R4", construct, t, why, f"{rel}:{fn.lineno}")
        paths = []
        problems = []
        picked = -1
    defs0 = defs
    for path in paths or []:
        if not g.feasible(path):
            continue                  # e.g. `selector = None` followed by the `selector is not None` branch
        known = c14._facts(c14._path_tests(g, path))
        # locals as this path binds them (a local assigned in both arms of an if has one definition per path)
        defs = dict(defs0)
        for nid_, lab_ in path:
            nd_ = g.nodes[nid_]
            if nd_.kind == "stmt" and isinstance(nd_.ast, ast.Assign) and len(nd_.ast.targets) == 1 and isinstance(nd_.ast.targets[0], ast.Name) and lab_ != "exc":
                defs[nd_.ast.targets[0].id] = nd_.ast.value
        # a test that mentions the loaded set / the stored values in a form these literals do not cover is not read
        key_names = {n for n, d in defs.items() if norm(d) in key_forms}
        read_forms = not_loaded | {guards.canon_text(f"self.ctl_name in {L}"), guards.canon_text(L)} | \
            {f"{n} is None" for n in key_names} | {f"{n} is not None" for n in key_names} | \
            {f"{kf} is None" for kf in key_forms} | {f"{kf} is not None" for kf in key_forms}
        unread = sorted(f for f in known if ("controllers_loaded" in f or "controller_values" in f or any(n in f for n in key_names)) and f not in read_forms)
        rets = [g.nodes[nid].ast for nid, _ in path if g.nodes[nid].kind == "stmt" and isinstance(g.nodes[nid].ast, ast.Return)]
        val = rets[-1].value if rets else None
        if isinstance(val, ast.Subscript) and norm(val.value) == "self.range_map":
            k = val.slice
            kdef = defs.get(k.id) if isinstance(k, ast.Name) else k
            if kdef is None or norm(kdef) not in key_forms:
                problems.append(("bad", norm(val), "range_map must be indexed by the unit controller's current value"))
                continue
            need = {guards.canon_text(f"self.ctl_name in {L}"), guards.canon_text(f"{norm(k)} is not None")}
            if not need <= known and unread:
                problems.append(("?", norm(val), f"tests not read: {unread[:2]}"))
            elif not need <= known:
                problems.append(("bad", norm(val), f"a range is selected from range_map without establishing {sorted(need - known)} "
                                 "(the unit controller must be loaded and hold a value)"))
            else:
                picked += 1
        elif val is not None and norm(val) == "self.default":
            keys_none = {f"{n} is None" for n, d in defs.items() if norm(d) in key_forms}
            if not ((not_loaded | keys_none) & known) and unread:
                problems.append(("?", "return self.default", f"tests not read: {unread[:2]}"))
            elif not ((not_loaded | keys_none) & known):
                problems.append(("bad", "return self.default", "the default range may be used only while the unit controller is not loaded "
                                 f"or holds no value; this path knows only {sorted(known)}"))
        else:
            problems.append(("?", norm(val) if val is not None else "return", "result not recognised"))
    if paths is None or any(k == "?" for k, _, _ in problems):
        rep.inconclusive(f"{P}.R4", construct, "; ".join(t for k, t, _ in problems if k == "?") or norm(fn)[:120],
                         "selection of the dependent range not recognised", f"{rel}:{fn.lineno}")
    elif picked == -1:
        pass
    elif not picked and not problems:
        rep.violation(f"{P}.R4", construct, norm(fn)[:160],
                      "the range of a unit-dependent controller is never selected from range_map: every unit uses the default range",
                      f"{rel}:{fn.lineno}")
    elif problems:
        for _, t, why in problems:
            rep.violation(f"{P}.R4", construct, t, why, f"{rel}:{fn.lineno}")
    else:
        rep.ok(f"{P}.R4", construct, "self.range_map[<unit value>]", "range selected by the unit controller's stored value")
        rep.ok(f"{P}.R4", construct, "return self.default", "default range only while the unit controller has not been loaded / has no value")
    # instance_value_type goes through parent()
    ctl = repo.cls("Controller", module="rv.controller")
    ivt0 = repo.own_method(ctl, "instance_value_type")
    ivtn = inline.normalize(repo, ctl, ivt0, aliases=True)
    ivt = inline.as_expression(ivtn)
    s = norm(ivt) if ivt is not None else norm(ivt0)
    ip2 = [a.arg for a in ivt0.args.args if a.arg != "self"][0]
    verdict = "?"
    # try: r = <type>.parent / except AttributeError: return <type> / else: return r(instance)
    tries = [st for st in ivtn.body if isinstance(st, ast.Try)]
    nondoc = [st for st in ivtn.body if not (isinstance(st, ast.Expr) and isinstance(st.value, ast.Constant))]
    if ivt is None and len(tries) == 1 and len(nondoc) == 2 and nondoc[0] is tries[0] and not tries[0].orelse \
            and all(h.body and isinstance(h.body[-1], (ast.Return, ast.Raise)) for h in tries[0].handlers):
        # what follows a try whose handlers all leave the function is the try's else part
        import copy as _copy
        t2 = _copy.copy(tries[0])
        t2.orelse = [nondoc[1]]
        tries, nondoc = [t2], [t2]
    if ivt is None and len(tries) == 1 and len(nondoc) == 1:
        t = tries[0]
        if len(t.body) == 1 and isinstance(t.body[0], ast.Assign) and len(t.body[0].targets) == 1 and isinstance(t.body[0].targets[0], ast.Name) \
                and norm(t.body[0].value) == "self.value_type.parent" and len(t.handlers) == 1 and t.handlers[0].type is not None \
                and norm(t.handlers[0].type) == "AttributeError" and not t.finalbody:
            r = t.body[0].targets[0].id
            h_ret = [x for x in t.handlers[0].body if isinstance(x, ast.Return)]
            e_ret = [x for x in t.orelse if isinstance(x, ast.Return)]
            if len(h_ret) == 1 and len(e_ret) == 1 and len(t.handlers[0].body) == 1 and len(t.orelse) == 1:
                verdict = "ok" if norm(h_ret[0].value) == "self.value_type" and norm(e_ret[0].value) == f"{r}({ip2})" else "bad"
    # r = getattr(<type>, "parent", SENTINEL);  <type> if r is SENTINEL else r(instance)
    if isinstance(ivt, ast.IfExp) and isinstance(ivt.test, ast.Compare) and len(ivt.test.ops) == 1 and isinstance(ivt.test.ops[0], (ast.Is, ast.IsNot)):
        l, rr = ivt.test.left, ivt.test.comparators[0]
        for g_, sent in ((l, rr), (rr, l)):
            if isinstance(g_, ast.Call) and norm(g_.func) == "getattr" and len(g_.args) == 3 and norm(g_.args[0]) == "self.value_type" \
                    and isinstance(g_.args[1], ast.Constant) and g_.args[1].value == "parent" and norm(g_.args[2]) == norm(sent):
                missing_branch, present_branch = (ivt.body, ivt.orelse) if isinstance(ivt.test.ops[0], ast.Is) else (ivt.orelse, ivt.body)
                dyn_ok = isinstance(present_branch, ast.Call) and norm(present_branch.func) == norm(g_) and [norm(a) for a in present_branch.args] == [ip2]
                verdict = "ok" if dyn_ok and norm(missing_branch) == "self.value_type" else "bad"
    if verdict == "?" and isinstance(ivt, ast.IfExp):
        f_true = guards.facts(ivt.test, True)
        has = "hasattr(self.value_type, 'parent')"
        dyn, plain = f"self.value_type.parent({ip2})", "self.value_type"
        if f_true == {has}:
            verdict = "ok" if (norm(ivt.body), norm(ivt.orelse)) == (dyn, plain) else "bad"
        elif f_true == {guards.canon_text(f"not {has}")}:
            verdict = "ok" if (norm(ivt.orelse), norm(ivt.body)) == (dyn, plain) else "bad"
    elif verdict == "?" and ivt is not None and not any(isinstance(n, ast.Call) and isinstance(n.func, ast.Attribute) and n.func.attr == "parent" for n in ast.walk(ivt)):
        verdict = "bad"
    if verdict == "ok":
        rep.ok(f"{P}.R4", f"{rel}:Controller.instance_value_type", "value_type.parent(instance) for dependent ranges")
    elif verdict == "bad":
        rep.violation(f"{P}.R4", f"{rel}:Controller.instance_value_type", s[:160], "dependent ranges must be resolved through parent(instance)",
                      f"{rel}:{ivt0.lineno}")
    else:
        rep.inconclusive(f"{P}.R4", f"{rel}:Controller.instance_value_type", s[:160], "resolution of dependent ranges not recognised",
                         f"{rel}:{ivt0.lineno}")


def range_inventory(repo: Repo, rep, P: str):
    """Which kinds the generated classes actually use (evidence; equality with the spec is C13)."""
    counts: Dict[str, int] = {}
    neg = 0
    for ci in module_classes(repo):
        for c in all_controllers(repo, ci):
            counts[c.kind] = counts.get(c.kind, 0) + 1
            if c.kind in ("range", "compact", "nooffset") and isinstance(c.min, int) and c.min < 0:
                neg += 1
            if c.kind in ("range", "compact", "nooffset") and isinstance(c.min, int) and isinstance(c.max, int) and c.min > c.max:
                rep.violation(f"{P}.R1", f"{c.owner.file.rel}:{c.owner.qualname}.{c.name}", f"({c.min}, {c.max})", "range with min > max", c.owner.file.rel)
            if c.kind == "dependent":
                for en, mem, lo, hi in c.dep_map:
                    if lo is not None and lo < 0:
                        rep.info(f"{P}.R1", f"{c.owner.file.rel}:{c.owner.qualname}.{c.name}", f"{mem}: ({lo}, {hi})", "dependent range with negative minimum")
    rep.instances["controller_kinds"] = counts
    rep.instances["ranges_with_negative_min"] = neg
    rep.count("controllers_inventoried", sum(counts.values()), 500)
