"""C13 — generated module metadata agrees with the YAML format specification."""

from __future__ import annotations

import ast
import re

from .. import specdiff
from ..classmodel import class_const, module_classes, own_controllers, own_options
from ..model import AnchorMissing, NotConst, Repo, norm

LEVEL = "translation_validation"
EXPLANATION = (
    "translation validation of 43 generated programs: the class model expected from "
    "specs/fileformat.yaml (template semantics re-implemented in the checker) is compared field by "
    "field with the AST of rv/modules/base/*.py; plus registry rules (one hand-written class per type, "
    "imported by rv/modules/__init__.py, options_chnm, no unspecified mtype) and the ModuleMeta "
    "ordering/numbering rule. Decides equality of metadata for all types/controllers/options at once."
)
DECLINED = []
ASSUMPTIONS = [
    "yaml.safe_load reads the spec as data",
    "class bodies of rv/modules/base/*.py are straight-line assignments (checked: anything else is reported)",
]


def run(repo: Repo, rep, tier: str):
    dis, counts, samples = specdiff.diff_all(repo)
    for k, v in counts.items():
        rep.count(k, v)
    rep.floors.update({"programs": 43, "controllers": 502, "options": 49, "chunks": 11})
    rep.instances["disagreements_checked"] = len(dis)
    for s in samples:
        rep.sample(s)
    # one obligation per program; each disagreement is a violation on its own construct
    bad_types = {}
    for d in dis:
        bad_types.setdefault(d.mtype, []).append(d)
        rep.violation("C13.diff." + d.category, d.construct, f"{d.mtype}.{d.path}",
                      f"spec says {d.expected!r}, generated class has {d.actual!r}", d.where)
    spec = specdiff.load_spec(repo)
    for modname in spec.get("module_types", {}):
        if modname not in bad_types:
            rep.ok("C13.diff", f"rv/modules/base/{modname.lower()}.py:Base{modname}", "all fields equal")
    registry_rules(repo, rep, spec, "C13")
    meta_rules(repo, rep, "C13")
    enum_problems = specdiff.check_enumname(repo)
    enum_clean = not enum_problems
    if any(p.startswith("?") for p in enum_problems):
        for p in enum_problems:
            if p.startswith("?"):
                rep.inconclusive("C13.enumname", "src/python/genrv/tools/generate.py:enumname", p[1:],
                                 "the generator's identifier mangling is not readable as a table of replacements",
                                 "src/python/genrv/tools/generate.py")
        enum_problems = []
    for p in enum_problems:
        rep.violation("C13.enumname", "src/python/genrv/tools/generate.py:enumname", p,
                      "the identifier mangling used by the generator differs from the one the "
                      "checked-in classes were compared with", "src/python/genrv/tools/generate.py")
    if enum_clean:
        rep.ok("C13.enumname", "src/python/genrv/tools/generate.py:enumname", "replacement table equal")
    template_rules(repo, rep, "C13")


def registry_rules(repo: Repo, rep, spec, P: str):
    mts = spec.get("module_types", {})
    classes = module_classes(repo)
    by_base = {}
    init = repo.module("rv.modules")
    imported = {a.name for n in init.tree.body if isinstance(n, ast.ImportFrom) for a in n.names}
    for c in classes:
        bases = repo.base_names(c)
        gen = [b for b in bases if b.startswith("Base")]
        own_mtype = "mtype" in c.assigns
        if not gen:
            if own_mtype:
                rep.violation(f"{P}.registry", f"{c.file.rel}:{c.qualname}", "mtype = " + norm(c.assigns["mtype"]),
                              "a Module subclass without a generated base registers a module type the "
                              "specification lacks", f"{c.file.rel}:{c.node.lineno}")
            else:
                # inherits an mtype from another hand-written class? then it re-registers it
                try:
                    mro = repo.mro(c)
                except AnchorMissing:
                    mro = []
                inherits = any("mtype" in k.assigns for k in mro[1:] if k.name.startswith("Base"))
                if inherits:
                    rep.violation(f"{P}.registry", f"{c.file.rel}:{c.qualname}", "class " + c.name,
                                  "a second Module subclass inherits a generated mtype and replaces the "
                                  "registered class for that type", f"{c.file.rel}:{c.node.lineno}")
            continue
        by_base.setdefault(gen[0], []).append(c)
    for modname, m in mts.items():
        cs = by_base.get(f"Base{modname}", [])
        construct = f"rv/modules/{modname.lower()}.py:{modname}"
        if len(cs) != 1:
            rep.violation(f"{P}.registry", construct, f"class {modname}(Base{modname}, Module)",
                          f"expected exactly one hand-written class deriving Base{modname}, found "
                          f"{[c.fq for c in cs]}", f"src/python/rv/modules/{modname.lower()}.py")
            continue
        c = cs[0]
        if c.name != modname:
            rep.violation(f"{P}.registry", construct, f"class {c.name}", "class name differs from the spec key",
                          f"{c.file.rel}:{c.node.lineno}")
        bases = repo.base_names(c)
        if bases[:2] != [f"Base{modname}", "Module"]:
            rep.violation(f"{P}.registry", construct, f"class {c.name}({', '.join(bases)})",
                          "bases must be (Base<Type>, Module) so the generated metadata wins the MRO",
                          f"{c.file.rel}:{c.node.lineno}")
        if c.name not in imported:
            rep.violation(f"{P}.registry", construct, f"from .{modname.lower()} import {c.name}",
                          "module class is not imported by rv/modules/__init__.py, so it never registers",
                          init.rel)
        if "mtype" in c.assigns and c.name != "Output":
            try:
                v = repo.fold(c.assigns["mtype"], ci=c)
            except NotConst:
                v = None
            if v != (m.get("type") or modname):
                rep.violation(f"{P}.registry", construct, "mtype = " + norm(c.assigns["mtype"]),
                              "hand-written class overrides the specified type name",
                              f"{c.file.rel}:{c.node.lineno}")
        # options_chnm
        if m.get("options"):
            try:
                v = class_const(repo, c, "options_chnm")
            except (AnchorMissing, NotConst):
                v = None
            if v != m.get("options_chnm"):
                rep.violation(f"{P}.registry", construct, "options_chnm",
                              f"spec options_chnm={m.get('options_chnm')!r}, class has {v!r}",
                              f"{c.file.rel}:{c.node.lineno}")
            else:
                rep.ok(f"{P}.registry.options_chnm", construct, f"options_chnm = {v}")
        # hand-written additions
        base = repo.cls(f"Base{modname}", module=f"rv.modules.base.{modname.lower()}")
        gen_names = {d.name for d in own_controllers(repo, base)} | {o.name for o in own_options(repo, base)}
        for name in c.assigns:
            if name in gen_names:
                rep.violation(f"{P}.rebind", construct, f"{name} = {norm(c.assigns[name])[:60]}",
                              "hand-written class re-binds a generated controller/option name",
                              f"{c.file.rel}:{c.assign_stmts[name].lineno}")
        for name, val in c.assigns.items():
            if isinstance(val, (ast.Attribute, ast.Name)) and not name.startswith("_"):
                ref = norm(val).split(".")[-1]
                owner_txt = norm(val).split(".")[0]
                if ref in gen_names and (owner_txt in (f"Base{modname}", c.name, "self", "cls") or isinstance(val, ast.Name)):
                    rep.violation(f"{P}.additions", construct, f"{name} = {norm(val)}",
                                  f"`{name}` binds a second name to the generated controller/option `{ref}`: ModuleMeta scans dir(cls), counts the "
                                  "alias as another controller, renames the shared descriptor and shifts the numbering of every later "
                                  "controller (stored values are then assigned to the wrong controllers)",
                                  f"{c.file.rel}:{c.assign_stmts[name].lineno}")
        for d in own_controllers(repo, c):
            if d.kind == "proxy":
                rep.ok(f"{P}.additions", construct, d.name, "per-instance proxy controller", nontrivial=False)
            elif d.attached is False:
                rep.ok(f"{P}.additions", construct, d.name, "unattached (not stored as CVAL)")
            else:
                rep.violation(f"{P}.additions", construct, f"{d.name} = {norm(d.node)[:70]}",
                              "a hand-written class adds an attached controller the specification lacks; "
                              "it shifts the numbering of stored values", f"{c.file.rel}:{d.node.lineno}")
        rep.ok(f"{P}.registry", construct, f"class {c.name}({', '.join(bases)})")
    for b, cs in by_base.items():
        if b[4:] not in mts:
            for c in cs:
                rep.violation(f"{P}.registry", f"{c.file.rel}:{c.qualname}", f"class {c.name}",
                              "module class exists that the specification lacks", f"{c.file.rel}:{c.node.lineno}")
    rep.count("module_classes", len(classes), 43)


def meta_rules(repo: Repo, rep, P: str):
    """ModuleMeta numbers controllers from 1 in definition order, collects options, registers the class under its mtype.
    Read on the normal form of ModuleMeta.__init__ (its private steps inlined), whatever they are called."""
    from .. import inline
    from ..packed import single_defs, resolve_names
    meta = repo.cls("ModuleMeta", module="rv.modules.meta")
    construct = f"{meta.file.rel}:ModuleMeta"
    fn = repo.own_method(meta, "__init__")
    rep.func("rv.modules.meta.ModuleMeta.__init__ (+ private steps)")
    defs = single_defs(fn)
    cparam = fn.args.args[0].arg if fn.args.args else "cls"
    # --- sort by definition order
    sorts = []
    for node in ast.walk(fn):
        if isinstance(node, ast.Call) and ((isinstance(node.func, ast.Attribute) and node.func.attr == "sort") or norm(node.func) == "sorted"):
            key = next((kw.value for kw in node.keywords if kw.arg == "key"), None)
            rev = next((kw.value for kw in node.keywords if kw.arg == "reverse"), None)
            if key is not None and "_order" in norm(resolve_names(key, defs)):
                try:
                    backwards = rev is not None and bool(ast.literal_eval(rev))
                except Exception:
                    backwards = True
                sorts.append((node, backwards))
    # --- numbering: <controller>.number = <index> with the index counting from 1 over the sorted sequence
    number_stores = [n for n in ast.walk(fn) if isinstance(n, ast.Assign) and any(isinstance(t, ast.Attribute) and t.attr == "number" for t in n.targets)]
    starts = []
    for st in number_stores:
        idx = st.value
        loop = next((lp for lp in ast.walk(fn) if isinstance(lp, ast.For) and any(x is st for x in ast.walk(lp))
                     and any(isinstance(t, ast.Name) and t.id == norm(idx) for t in ast.walk(lp.target))), None)
        if loop is None or not isinstance(idx, ast.Name):
            starts.append(("?", st))
            continue
        it = resolve_names(loop.iter, defs)
        start = "?"
        first = loop.target.elts[0] if isinstance(loop.target, ast.Tuple) and loop.target.elts else None
        if isinstance(it, ast.Call) and norm(it.func) == "enumerate" and isinstance(first, ast.Name) and first.id == idx.id:
            sv = it.args[1] if len(it.args) > 1 else next((kw.value for kw in it.keywords if kw.arg == "start"), ast.Constant(value=0))
            try:
                start = repo.fold(sv)
            except NotConst:
                start = "?"
        elif isinstance(it, ast.Call) and norm(it.func) == "zip" and it.args and isinstance(first, ast.Name) and first.id == idx.id \
                and isinstance(it.args[0], ast.Call) and norm(it.args[0].func).split(".")[-1] == "count":
            ca = it.args[0].args
            try:
                start = repo.fold(ca[0]) if ca else 0
                if len(ca) > 1 and repo.fold(ca[1]) != 1:
                    start = "?"
            except NotConst:
                start = "?"
        starts.append((start, st))
    where = f"{meta.file.rel}:{fn.lineno}"
    if sorts and not any(b_ for _, b_ in sorts) and (not number_stores or min(inline.pos(x) for x, _ in sorts) < min(inline.pos(st) for st in number_stores)):
        rep.ok(f"{P}.meta.sort", construct, "controllers sorted by _order before numbering")
    elif sorts and any(b_ for _, b_ in sorts):
        rep.violation(f"{P}.meta.sort", construct, "sort by _order, reversed", "controllers are no longer sorted by definition order before being numbered", where)
    elif not sorts:
        rep.violation(f"{P}.meta.sort", construct, "sort by _order before numbering",
                      "controllers are no longer sorted by definition order before being numbered", where)
    else:
        rep.inconclusive(f"{P}.meta.sort", construct, "sort after numbering?", "order of sorting and numbering not recognised", where)
    if starts and all(s0 == 1 for s0, _ in starts):
        rep.ok(f"{P}.meta.number", construct, "numbered from 1 by position in definition order")
    elif not number_stores:
        rep.violation(f"{P}.meta.number", construct, ".number = …", "controllers are no longer numbered", where)
    elif any(s0 == "?" for s0, _ in starts):
        rep.inconclusive(f"{P}.meta.number", construct, "; ".join(norm(st) for _, st in starts), "numbering scheme not recognised", where)
    else:
        rep.violation(f"{P}.meta.number", construct, f"numbering starts at {sorted({s0 for s0, _ in starts})}",
                      "controller numbers must start at 1 and be assigned from the enumeration index", where)
    # --- Controller.__init__: _order from the class counter, then incremented
    ctl = repo.cls("Controller", module="rv.controller")
    init = repo.own_method(ctl, "__init__")
    rep.func("rv.controller.Controller.__init__")
    idefs = single_defs(init)
    takes = [n for n in ast.walk(init) if isinstance(n, ast.Assign) and any(norm(t) == "self._order" for t in n.targets)]
    taken_ok = [n for n in takes if norm(resolve_names(n.value, idefs)) in ("Controller._next_order", "type(self)._next_order", "self.__class__._next_order")]
    incs = [n for n in ast.walk(init) if (isinstance(n, ast.AugAssign) and norm(n.target).endswith("._next_order") and isinstance(n.op, ast.Add)
                                          and norm(n.value) == "1")
            or (isinstance(n, ast.Assign) and any(norm(t).endswith("._next_order") for t in n.targets)
                and norm(resolve_names(n.value, idefs)).replace(" ", "") in ("Controller._next_order+1", "1+Controller._next_order",
                                                                            "type(self)._next_order+1", "self.__class__._next_order+1"))]
    # the value may have been read into a temporary before the increment
    reads = [n for n in ast.walk(init) if isinstance(n, ast.Assign) and len(n.targets) == 1 and isinstance(n.targets[0], ast.Name)
             and norm(n.value) in ("Controller._next_order", "type(self)._next_order", "self.__class__._next_order")]
    first_read = min([inline.pos(n) for n in reads + taken_ok] or [10 ** 9])
    if takes and len(taken_ok) == len(takes) and incs and first_read < min(inline.pos(n) for n in incs):
        rep.ok(f"{P}.meta.order", f"{ctl.file.rel}:Controller.__init__", "self._order = Controller._next_order; += 1")
    elif not takes or not incs:
        rep.violation(f"{P}.meta.order", f"{ctl.file.rel}:Controller.__init__", "; ".join(norm(n) for n in takes + incs)[:160],
                      "definition-order counter is not taken then incremented", f"{ctl.file.rel}:{init.lineno}")
    elif len(taken_ok) == len(takes):
        rep.violation(f"{P}.meta.order", f"{ctl.file.rel}:Controller.__init__", "; ".join(norm(n) for n in takes + incs)[:160],
                      "definition-order counter is not taken then incremented (incremented first)", f"{ctl.file.rel}:{init.lineno}")
    else:
        rep.inconclusive(f"{P}.meta.order", f"{ctl.file.rel}:Controller.__init__", "; ".join(norm(n) for n in takes)[:160],
                         "source of the definition-order number not recognised", f"{ctl.file.rel}:{init.lineno}")
    # --- registry by mtype
    regs = [n for n in ast.walk(fn) if isinstance(n, ast.Assign) and any(isinstance(t, ast.Subscript) and norm(t.value).split(".")[-1] == "MODULE_CLASSES"
                                                                       for t in n.targets)]
    good_reg = [n for n in regs if norm(n.value) == cparam and any(
        isinstance(t, ast.Subscript) and norm(resolve_names(t.slice, defs)) in (f"getattr({cparam}, 'mtype', None)", f"{cparam}.mtype") for t in n.targets)]
    if good_reg:
        rep.ok(f"{P}.meta.registry", construct, "MODULE_CLASSES[mtype] = cls")
    elif regs:
        rep.violation(f"{P}.meta.registry", construct, norm(regs[0])[:120], "classes are no longer registered under their mtype", where)
    else:
        rep.violation(f"{P}.meta.registry", construct, "MODULE_CLASSES[…] = cls", "classes are no longer registered under their mtype", where)
    # --- what the tables are collected from: every name visible on the class (dir(cls) / the whole MRO), so that a class derived from a
    #     module class inherits its controllers and options; the class's own namespace (class_dict, vars(base) of the direct bases) is not enough
    lambda_nodes = {id(x) for l_ in ast.walk(fn) if isinstance(l_, ast.Lambda) for x in ast.walk(l_)}
    for kind in ("Controller", "Option"):
        tests = [c for c in ast.walk(fn) if isinstance(c, ast.Call) and norm(c.func) == "isinstance" and len(c.args) == 2 and norm(c.args[1]) == kind
                 and id(c) not in lambda_nodes]          # a test inside a lambda handed to a helper is read with that helper (below)
        if not tests:
            # the selection lives in a module-level helper called with the kind: _members(cls, Controller)
            done = False
            for c in ast.walk(fn):
                if isinstance(c, ast.Call) and isinstance(c.func, ast.Name) and any(norm(a) == kind for a in c.args):
                    h = next((st for st in meta.file.tree.body if isinstance(st, ast.FunctionDef) and st.name == c.func.id), None)
                    if h is None:
                        continue
                    hp = [a.arg for a in h.args.args]
                    kpar = hp[[norm(a) for a in c.args].index(kind)] if len(hp) >= len(c.args) else None
                    cpos = next((i for i, a in enumerate(c.args) if norm(a) == cparam), None)
                    hc = hp[cpos] if cpos is not None and cpos < len(hp) else None
                    sel = [t for t in ast.walk(h) if isinstance(t, ast.Call) and norm(t.func) == "isinstance" and len(t.args) == 2 and norm(t.args[1]) == kpar]
                    if not sel or hc is None:
                        continue
                    src_h = " ".join(norm(n.iter) for n in ast.walk(h) if isinstance(n, (ast.For, ast.comprehension)))
                    if not src_h.strip():
                        # the helper hands the class on to another module-level helper that does the scan: _members(cls, <predicate>)
                        for c2 in ast.walk(h):
                            if isinstance(c2, ast.Call) and isinstance(c2.func, ast.Name) and any(norm(a) == hc for a in c2.args):
                                g_ = next((st for st in meta.file.tree.body if isinstance(st, ast.FunctionDef) and st.name == c2.func.id), None)
                                if g_ is None:
                                    continue
                                gp = [a.arg for a in g_.args.args]
                                pos_ = next(i for i, a in enumerate(c2.args) if norm(a) == hc)
                                if pos_ < len(gp):
                                    src_g = " ".join(norm(n.iter) for n in ast.walk(g_) if isinstance(n, (ast.For, ast.comprehension)))
                                    src_h = re.sub(rf"\b{re.escape(gp[pos_])}\b", hc, src_g)
                                    break
                    if f"dir({hc})" in src_h or "__mro__" in src_h or ".mro()" in src_h:
                        rep.ok(f"{P}.meta.collect", construct, f"{kind}: {norm(c)} → {src_h[:60]}", "collected over every name visible on the class (inherited descriptors included)")
                        done = True
                    elif "vars(" in src_h or "__dict__" in src_h:
                        rep.violation(f"{P}.meta.collect", construct, f"{kind}: {norm(c)} → {src_h[:80]}",
                                      f"{kind} descriptors are collected from the class's own namespace only: classes derived from a module class get empty tables", where)
                        done = True
                    break
            if not done:
                # the helper takes a predicate built by a factory: _attributes(cls, _instances_of(Controller)) with
                # def _instances_of(kind): def accepts(v): return isinstance(v, kind); return accepts
                for c in ast.walk(fn):
                    if not (isinstance(c, ast.Call) and isinstance(c.func, ast.Name)):
                        continue
                    h = next((st for st in meta.file.tree.body if isinstance(st, ast.FunctionDef) and st.name == c.func.id), None)
                    if h is None:
                        continue
                    hp = [a.arg for a in h.args.args]
                    for i_, a in enumerate(c.args):
                        if i_ >= len(hp):
                            continue
                        is_pred = False
                        if isinstance(a, ast.Lambda) and len(a.args.args) == 1 and norm(a.body) == f"isinstance({a.args.args[0].arg}, {kind})":
                            is_pred = True                       # the predicate written in place
                        elif isinstance(a, ast.Name):
                            pf = next((st for st in meta.file.tree.body if isinstance(st, ast.FunctionDef) and st.name == a.id), None)
                            if pf is not None and len(pf.args.args) == 1:
                                pb = [st for st in pf.body if not (isinstance(st, ast.Expr) and isinstance(st.value, ast.Constant))]
                                is_pred = len(pb) == 1 and isinstance(pb[0], ast.Return) and norm(pb[0].value) == f"isinstance({pf.args.args[0].arg}, {kind})"
                        elif isinstance(a, ast.Call) and isinstance(a.func, ast.Name) and len(a.args) == 1 and norm(a.args[0]) == kind:
                            fac = next((st for st in meta.file.tree.body if isinstance(st, ast.FunctionDef) and st.name == a.func.id), None)
                            if fac is not None and len(fac.args.args) == 1:
                                kpar = fac.args.args[0].arg
                                inner = [st for st in fac.body if isinstance(st, ast.FunctionDef)]
                                rets = [st for st in fac.body if isinstance(st, ast.Return)]
                                if len(inner) == 1 and len(rets) == 1 and isinstance(rets[0].value, ast.Name) and rets[0].value.id == inner[0].name \
                                        and len(inner[0].args.args) == 1:
                                    vpar = inner[0].args.args[0].arg
                                    ib = [st for st in inner[0].body if not (isinstance(st, ast.Expr) and isinstance(st.value, ast.Constant))]
                                    is_pred = len(ib) == 1 and isinstance(ib[0], ast.Return) and norm(ib[0].value) == f"isinstance({vpar}, {kpar})"
                                elif len(rets) == 1 and isinstance(rets[0].value, ast.Lambda) and len(rets[0].value.args.args) == 1:
                                    vpar = rets[0].value.args.args[0].arg
                                    is_pred = norm(rets[0].value.body) == f"isinstance({vpar}, {kpar})"
                        if not is_pred:
                            continue
                        ppar = hp[i_]
                        cpos = next((j for j, a2 in enumerate(c.args) if norm(a2) == cparam), None)
                        hc = hp[cpos] if cpos is not None and cpos < len(hp) else None
                        applied = [t for t in ast.walk(h) if isinstance(t, ast.Call) and isinstance(t.func, ast.Name) and t.func.id == ppar and len(t.args) == 1]
                        src_h = " ".join(norm(n.iter) for n in ast.walk(h) if isinstance(n, (ast.For, ast.comprehension)))
                        if hc is None or not applied:
                            continue
                        if f"dir({hc})" in src_h or "__mro__" in src_h or ".mro()" in src_h:
                            rep.ok(f"{P}.meta.collect", construct, f"{kind}: {norm(c)[:80]} → {src_h[:60]}",
                                   "collected over every name visible on the class, selected by an isinstance predicate for the kind")
                            done = True
                        elif "vars(" in src_h or "__dict__" in src_h:
                            rep.violation(f"{P}.meta.collect", construct, f"{kind}: {norm(c)[:80]} → {src_h[:80]}",
                                          f"{kind} descriptors are collected from the class's own namespace only: classes derived from a module class get empty tables", where)
                            done = True
                        break
                    if done:
                        break
            if done:
                continue
            rep.inconclusive(f"{P}.meta.collect", construct, f"isinstance(…, {kind})", f"selection of {kind} descriptors not found", where)
            continue
        for t in tests:
            holder = None
            for n in ast.walk(fn):
                if isinstance(n, (ast.ListComp, ast.DictComp, ast.SetComp, ast.GeneratorExp, ast.For)) and any(x is t for x in ast.walk(n)):
                    holder = n            # innermost wins (walk is breadth-first: keep the last)
            iters = []
            if isinstance(holder, ast.For):
                iters = [holder.iter]
            elif holder is not None:
                iters = [g.iter for g in holder.generators]
            src = " ".join(norm(resolve_names(i, defs)) for i in iters)
            # follow locals built before (`declared = {}; for base in …: declared.update(vars(base))`)
            for nm in {x.id for i in iters for x in ast.walk(i) if isinstance(x, ast.Name)}:
                for n in ast.walk(fn):
                    if isinstance(n, ast.Call) and isinstance(n.func, ast.Attribute) and norm(n.func.value) == nm and n.func.attr in ("update", "extend", "append", "add"):
                        src += " " + norm(n)
                        for lp in ast.walk(fn):
                            if isinstance(lp, ast.For) and any(x is n for x in ast.walk(lp)):
                                src += " for:" + norm(lp.iter)
            whole = f"dir({cparam})" in src or "__mro__" in src or ".mro()" in src or "getmembers(" in src
            own = "class_dict" in src or "vars(" in src or "__dict__" in src or (len(fn.args.args) > 3 and fn.args.args[3].arg in src)
            if whole:
                rep.ok(f"{P}.meta.collect", construct, f"{kind}: {src[:80]}", "collected over every name visible on the class (inherited descriptors included)")
            elif own:
                rep.violation(f"{P}.meta.collect", construct, f"{kind}: {src[:120]}",
                              f"{kind} descriptors are collected from the class's own namespace / its direct bases only: a class derived from a module "
                              "class (or from the generated Base class two levels up) gets empty tables and is registered under the type name, so files "
                              "of that type load with their controller values dropped", where)
            else:
                rep.inconclusive(f"{P}.meta.collect", construct, f"{kind}: {src[:120]}", "source of the collected names not recognised", where)
    # --- the per-class tables are built
    for need in ("controllers", "options"):
        if any(isinstance(n, ast.Assign) and any(norm(t) == f"{cparam}.{need}" for t in n.targets) for n in ast.walk(fn)):
            rep.ok(f"{P}.meta.init", construct, f"cls.{need} = …", nontrivial=False)
        else:
            rep.violation(f"{P}.meta.init", construct, f"cls.{need}", "ModuleMeta.__init__ no longer runs this step", where)
    if regs:
        rep.ok(f"{P}.meta.init", construct, "registry", nontrivial=False)


def template_rules(repo: Repo, rep, P: str):
    """The template must emit declared bounds also when a bound is 0 (root cause of D5).

    Textual scan of the Jinja template for a truthiness test on `ospec.min` / `ospec.max`.
    Informational only when the generated classes already agree with the spec; a violation is
    raised by the diff itself, so this rule only adds the root cause to the report.
    """
    import re
    text = repo.text_file("src/python/genrv/codegen/python/base_module.py.jinja2")
    m = re.search(r"\{%\s*if\s+ospec\.(min|max)\s*%\}", text)
    if m:
        rep.info(f"{P}.template", "src/python/genrv/codegen/python/base_module.py.jinja2",
                 m.group(0), "truthiness test drops a declared bound of 0 on regeneration")
    else:
        rep.info(f"{P}.template", "src/python/genrv/codegen/python/base_module.py.jinja2",
                 "bounds emitted under a definedness test")
