"""C19 — bulk pattern edits are all-or-nothing and notes stay owned by their pattern."""

from __future__ import annotations

import ast
from typing import Dict, List, Optional, Set, Tuple

from ..cfg import CFG, Node
from ..idioms import INF, MUTATING_METHODS, copy_depth, store_depth
from ..model import AnchorMissing, Repo, attr_chain, norm, walk_no_nested

LEVEL = "other"
EXPLANATION = (
    "commit-at-end analysis on the CFG (with exception edges) of Pattern.set_via_fn / set_via_gen: the only "
    "store to the pattern contents is on every normal path, no user-supplied code can run after it, nothing "
    "mutates the current contents in place, and the working copy is at least as deep as the mutation "
    "(copy-depth vs store-depth); ownership rule: every function that installs pattern contents establishes "
    "note.pattern = self for all installed notes on every normal path. Covers every failure position because "
    "every user call has an exception edge. Does not decide the behaviour of the user callable."
)
DECLINED = ["behaviour of the user-supplied callable/generator itself (e.g. mutating the working copy's cells)"]
ASSUMPTIONS = ["deepcopy / list() / [:] / .copy() / comprehension copies have the depth listed in DESIGN Appendix B"]

SETTERS = ("set_via_fn", "set_via_gen")


def run(repo: Repo, rep, tier: str):
    pat = repo.cls("Pattern", module="rv.pattern")
    from .. import inline
    for name in SETTERS:
        fn = inline.flatten(repo, pat, repo.own_method(pat, name))
        rep.func(f"rv.pattern.Pattern.{name}")
        bulk_setter(repo, rep, "C19", pat, fn)
    ownership(repo, rep, "C19", pat)
    note_project_path(repo, rep, "C19")
    rep.count("bulk_setters", len(SETTERS), 2)


def is_content(e: ast.AST, aliases: Set[str]) -> bool:
    ch = attr_chain(e)
    if ch == ["self", "_data"] or ch == ["self", "data"]:
        return True
    return isinstance(e, ast.Name) and e.id in aliases


def commit_target(t: ast.AST) -> bool:
    return attr_chain(t) == ["self", "_data"]


def commits_in(node: Node) -> bool:
    s = node.ast
    if node.kind != "stmt" or s is None:
        return False
    if isinstance(s, ast.Assign) and any(commit_target(t) for t in s.targets):
        return True
    if isinstance(s, (ast.AugAssign, ast.AnnAssign)) and commit_target(s.target):
        return True
    for c in ast.walk(s):
        if isinstance(c, ast.Call) and norm(c.func) == "setattr" and len(c.args) >= 2 \
                and norm(c.args[0]) == "self" and isinstance(c.args[1], ast.Constant) and c.args[1].value == "_data":
            return True
        if isinstance(c, ast.Subscript) and isinstance(c.ctx, ast.Store) and norm(c.value) in ("self.__dict__", "vars(self)") \
                and isinstance(c.slice, ast.Constant) and c.slice.value == "_data":
            return True
    return False


def bulk_setter(repo: Repo, rep, P: str, pat, fn: ast.FunctionDef):
    rel = pat.file.rel
    construct = f"{rel}:Pattern.{fn.name}"
    params = [a.arg for a in fn.args.args if a.arg != "self"]
    if not params:
        rep.inconclusive(f"{P}.R1", construct, "", "no user-callable parameter", f"{rel}:{fn.lineno}")
        return
    user = params[0]
    g = CFG(fn)

    def calls_user(n: Node) -> bool:
        root = n.ast.iter if n.kind == "for" else n.ast
        if root is None or n.kind in ("with_exit", "handler", "except"):
            return False
        for c in ast.walk(root):
            if isinstance(c, ast.Call) and isinstance(c.func, ast.Name) and c.func.id == user:
                return True
            if isinstance(c, ast.Call) and any(isinstance(a, ast.Name) and a.id == user for a in c.args) \
                    and norm(c.func) in ("next", "map", "list", "iter"):
                return True
        return False

    user_nodes = [n for n in g.nodes if n.kind in ("stmt", "for", "test") and calls_user(n)]
    # a `for` whose iterator was produced by the user callable also runs user code on every advance
    user_iter_vars = set()
    for n in g.nodes:
        if n.kind == "stmt" and isinstance(n.ast, ast.Assign) and calls_user(n) and isinstance(n.ast.targets[0], ast.Name):
            user_iter_vars.add(n.ast.targets[0].id)
    for n in g.nodes:
        if n.kind == "for" and isinstance(n.ast.iter, ast.Name) and n.ast.iter.id in user_iter_vars and n not in user_nodes:
            user_nodes.append(n)
    # (e) a per-cell callable handed to a lazy iterator: its StopIteration is taken for exhaustion
    for c in walk_no_nested(fn):
        if isinstance(c, ast.Call) and norm(c.func).split(".")[-1] in ("map", "filter", "starmap", "filterfalse", "takewhile",
                                                                      "dropwhile", "accumulate", "iter") \
                and c.args and isinstance(c.args[0], ast.Name) and c.args[0].id == user:
            rep.violation(f"{P}.R1", construct, norm(c),
                          f"the per-cell callable `{user}` runs inside a lazy iterator: a StopIteration raised by it is "
                          "taken as normal exhaustion by the consuming loop, so the failure is swallowed and the partly "
                          "filled copy is installed", f"{rel}:{c.lineno}")
    commits = [n for n in g.nodes if commits_in(n)]
    rep.count(f"{fn.name}.user_call_sites", len(user_nodes), 1)
    rep.count(f"{fn.name}.commit_sites", len(commits))
    if not user_nodes:
        rep.inconclusive(f"{P}.R1", construct, "", f"the user callable `{user}` is never called", f"{rel}:{fn.lineno}")
    if not commits:
        rep.violation(f"{P}.R1", construct, "self._data = ...",
                      "the bulk setter never installs the new contents", f"{rel}:{fn.lineno}")
        return
    commit_ids = {c.id for c in commits}
    # (a) every normal path installs the new contents
    reach_wo = g.reachable(avoid=commit_ids, labels_excluded={"exc", "reraise", "nomatch"})
    if g.exit in reach_wo:
        rep.violation(f"{P}.R1", construct, "; ".join(c.text() for c in commits),
                      "a normal return path does not install the new contents", f"{rel}:{commits[0].lineno}")
    else:
        rep.ok(f"{P}.R1", construct, "; ".join(c.text() for c in commits), "on every normal path")
    # (b) no user code after a commit
    for c in commits:
        after = g.reachable_from_successors(c.id)
        late = [u for u in user_nodes if u.id in after]
        if late:
            rep.violation(f"{P}.R1", construct, f"{c.text()}  …then…  {late[0].text()}",
                          "the pattern contents are replaced before the user-supplied code has finished: a failure "
                          "at a later cell leaves the pattern partly updated", f"{rel}:{c.lineno}")
        else:
            rep.ok(f"{P}.R1", construct, c.text(), "no user call reachable after the commit")
        risky = [g.nodes[i] for i in after if i not in (g.exit, g.raise_exit) and g.nodes[i].kind in ("stmt", "for")
                 and any(lab == "exc" for _, lab in g.succ[i]) and g.nodes[i].id != c.id]
        if risky and not late:
            rep.info(f"{P}.R1", construct, risky[0].text(), "statement after the commit may raise (not decided)")
    # (c) the failure path of every user call leaves without a commit
    for u in user_nodes:
        exc_succ = [m for m, lab in g.succ[u.id] if lab == "exc"]
        if not exc_succ:
            rep.inconclusive(f"{P}.R1", construct, u.text(), "user call without exception edge", f"{rel}:{u.lineno}")
            continue
        bad = False
        for m in exc_succ:
            r = g.reachable(m)
            if r & commit_ids:
                bad = True
        if bad:
            rep.violation(f"{P}.R1", construct, u.text(),
                          "when the user-supplied code fails here, the handler still installs the partly filled copy",
                          f"{rel}:{u.lineno}")
        else:
            rep.ok(f"{P}.R1", construct, u.text(), "failure path reaches no commit")
    # (d)/(R2) in-place mutation and copy depth
    defs: Dict[str, ast.expr] = {}
    for n in walk_no_nested(fn):
        if isinstance(n, ast.Assign) and len(n.targets) == 1 and isinstance(n.targets[0], ast.Name):
            value, owner = _through_helper(pat, n.value, fn)
            defs.setdefault(n.targets[0].id, value)
            _memo_fresh(rep, P, construct, rel, value, owner)
    aliases: Set[str] = set()
    depth_of: Dict[str, int] = {}
    changed = True
    while changed:
        changed = False
        for v, e in defs.items():
            d, src = copy_depth(e)
            if src is not None and is_content(src, aliases):
                if d == 0 and v not in aliases:
                    aliases.add(v)
                    changed = True
                if depth_of.get(v) != d:
                    depth_of[v] = d
                    changed = True
    # after `self._data = X`, X aliases the contents for the rest of the function
    committed_vars = set()
    for c in commits:
        if isinstance(c.ast, ast.Assign) and isinstance(c.ast.value, ast.Name):
            committed_vars.add(c.ast.value.id)
    n_stores = 0
    for n in g.nodes:
        if n.kind != "stmt" or n.ast is None:
            continue
        targets = []
        if isinstance(n.ast, ast.Assign):
            targets = [t for t in n.ast.targets if isinstance(t, (ast.Subscript, ast.Attribute))]
        elif isinstance(n.ast, ast.AugAssign) and isinstance(n.ast.target, (ast.Subscript, ast.Attribute)):
            targets = [n.ast.target]
        for t in targets:
            if commit_target(t):
                continue
            sd, base = store_depth(t)
            # direct store into self.data[...] / self._data[...]
            inner = t
            while isinstance(inner, (ast.Subscript, ast.Attribute)) and not is_content(inner, set()):
                inner = inner.value
            if is_content(inner, set()) and inner is not t:
                rep.violation(f"{P}.R1", construct, n.text(),
                              "the current pattern contents are mutated in place; a later failure cannot be undone",
                              f"{rel}:{n.lineno}")
                n_stores += 1
                continue
            if base is None or base == "self":
                continue
            if base in depth_of:
                n_stores += 1
                d = depth_of[base]
                if sd > d:
                    what = "an alias of" if d == 0 else f"only a depth-{d} copy of"
                    rep.violation(f"{P}.R2", construct, f"{base} = {norm(defs[base])}; {n.text()}",
                                  f"`{base}` is {what} the current contents but is mutated at depth {sd}: the original "
                                  "rows/cells are changed before the commit", f"{rel}:{n.lineno}")
                else:
                    rep.ok(f"{P}.R2", construct, f"{base} = {norm(defs[base])}; {n.text()}",
                           f"copy depth {d if d < INF else 'deep'} ≥ store depth {sd}")
        # mutating method calls on the contents or aliases
        for c in ast.walk(n.ast):
            if isinstance(c, ast.Call) and isinstance(c.func, ast.Attribute) and c.func.attr in MUTATING_METHODS:
                recv = c.func.value
                sd = 1
                while isinstance(recv, ast.Subscript):
                    sd += 1
                    recv = recv.value
                if is_content(recv, aliases):
                    rep.violation(f"{P}.R1", construct, n.text(),
                                  "the current pattern contents are mutated in place", f"{rel}:{n.lineno}")
                elif isinstance(recv, ast.Name) and recv.id in depth_of and sd > depth_of[recv.id]:
                    rep.violation(f"{P}.R2", construct, n.text(),
                                  f"in-place mutation at depth {sd} of a depth-{depth_of[recv.id]} copy", f"{rel}:{n.lineno}")
    rep.count(f"{fn.name}.working_copy_stores", n_stores, 1)
    # the committed object is the working copy that received the notes
    stored_bases = set()
    for n in walk_no_nested(fn):
        if isinstance(n, ast.Assign):
            for t in n.targets:
                if isinstance(t, ast.Subscript):
                    sd, base = store_depth(t)
                    if base:
                        stored_bases.add(base)
    for c in commits:
        if isinstance(c.ast, ast.Assign):
            v = c.ast.value
            if isinstance(v, ast.Name) and v.id in stored_bases:
                rep.ok(f"{P}.R1", construct, c.text(), "commits the working copy that received the notes")
            elif isinstance(v, ast.Name) and v.id not in stored_bases and stored_bases:
                rep.violation(f"{P}.R1", construct, c.text(),
                              f"the committed object `{v.id}` is not the working copy the notes were stored into "
                              f"({sorted(stored_bases)})", f"{rel}:{c.lineno}")
    rep.sample({"function": construct, "user_call_sites": [u.text() for u in user_nodes],
                "commit": [c.text() for c in commits], "working_copies": {k: norm(defs[k]) for k in depth_of},
                "cfg_nodes": len(g.nodes)})


def _through_helper(pat, e: ast.expr, fn: ast.FunctionDef):
    """`self.helper()` whose body ends in `return <expr>` is read as <expr> (one level)."""
    if isinstance(e, ast.Call) and isinstance(e.func, ast.Attribute) and norm(e.func.value) == "self":
        h = pat.methods.get(e.func.attr)
        if h is not None and h.body and isinstance(h.body[-1], ast.Return) and h.body[-1].value is not None \
                and sum(isinstance(x, ast.Return) for x in ast.walk(h)) == 1:
            return h.body[-1].value, h
    return e, fn


MUTABLE_LITERALS = (ast.Dict, ast.List, ast.Set)


def _memo_fresh(rep, P: str, construct: str, rel: str, e: ast.expr, owner: ast.FunctionDef):
    """deepcopy(x, memo): the memo must be created inside the call that makes the working copy. A memo that
    outlives the call still maps the live cells to the scratch copy of an earlier (possibly failed) edit, and
    the next bulk edit starts from that stale copy."""
    if not (isinstance(e, ast.Call) and norm(e.func) in ("deepcopy", "copy.deepcopy")):
        return
    memo = e.args[1] if len(e.args) > 1 else next((k.value for k in e.keywords if k.arg == "memo"), None)
    if memo is None:
        return
    where = f"{rel}:{e.lineno}"
    text = norm(e)
    if isinstance(memo, (ast.Dict,)) or (isinstance(memo, ast.Call) and norm(memo.func) == "dict"):
        rep.ok(f"{P}.R2", construct, text, "deepcopy memo is a fresh dict")
        return
    if isinstance(memo, ast.Name):
        args = owner.args
        pos = [a.arg for a in args.args]
        defaults = dict(zip(pos[len(pos) - len(args.defaults):], args.defaults))
        defaults.update({a.arg: d for a, d in zip(args.kwonlyargs, args.kw_defaults) if d is not None})
        if memo.id in pos or memo.id in [a.arg for a in args.kwonlyargs]:
            d = defaults.get(memo.id)
            if isinstance(d, MUTABLE_LITERALS) or (isinstance(d, ast.Call) and norm(d.func) in ("dict", "defaultdict")):
                rep.violation(f"{P}.R2", construct, f"def {owner.name}(..., {memo.id}={norm(d)}); {text}",
                              "the deepcopy memo is a mutable default argument and persists across bulk edits: after a "
                              "failed edit it still maps the live cells to the abandoned scratch copy, which the next "
                              "edit then starts from", where)
                return
            rep.inconclusive(f"{P}.R2", construct, text, f"deepcopy memo comes from parameter `{memo.id}`", where)
            return
        local = [n for n in walk_no_nested(owner) if isinstance(n, ast.Assign)
                 and any(isinstance(t, ast.Name) and t.id == memo.id for t in n.targets)]
        if local and all(isinstance(n.value, ast.Dict) or (isinstance(n.value, ast.Call) and norm(n.value.func) == "dict")
                         for n in local):
            rep.ok(f"{P}.R2", construct, text, "deepcopy memo is a fresh local dict")
            return
        if not local:
            rep.violation(f"{P}.R2", construct, text,
                          f"the deepcopy memo `{memo.id}` is not created in this call (module-level or closure state): "
                          "it persists across bulk edits", where)
            return
    if isinstance(memo, ast.Attribute):
        rep.violation(f"{P}.R2", construct, text,
                      f"the deepcopy memo `{norm(memo)}` is stored on an object and persists across bulk edits", where)
        return
    rep.inconclusive(f"{P}.R2", construct, text, "deepcopy memo of unrecognised origin", where)


# ------------------------------------------------------------------------------------ R3
def _pattern_store(n: ast.AST) -> Optional[ast.Assign]:
    if isinstance(n, ast.Assign):
        for t in n.targets:
            if isinstance(t, ast.Attribute) and t.attr == "pattern":
                return n
    return None


def ownership(repo: Repo, rep, P: str, pat):
    from .. import inline
    rel = pat.file.rel
    n_fn = 0
    allfns = list(pat.methods.items()) + [(k + ".setter", v) for k, v in pat.setters.items()] + list(pat.getters.items())
    flat = {}
    inlined = set()
    for name, fn in allfns:
        il = inline.Inliner(repo, pat, pat.file)
        flat[name] = il.flatten(fn)
        inlined |= set(il.inlined)
    for name, fn0 in allfns:
        if name in inlined and name.startswith("_") and not name.startswith("__"):
            continue          # a private helper analysed inside its callers
        fn = flat[name]
        g = CFG(fn)
        commits = [n for n in g.nodes if commits_in(n)]
        if not commits:
            continue
        n_fn += 1
        construct = f"{rel}:Pattern.{name}"
        rep.func(f"rv.pattern.Pattern.{name}")
        note_ctor = [c for c in walk_no_nested(fn) if isinstance(c, ast.Call) and norm(c.func).split(".")[-1] == "Note"]
        owned_ctor = [c for c in note_ctor if any(k.arg == "pattern" and norm(k.value) == "self" for k in c.keywords)]
        stores = [s for s in (_pattern_store(n) for n in walk_no_nested(fn)) if s is not None]
        good_stores = [s for s in stores if norm(s.value) == "self"]
        committed = set()
        for c in commits:
            if isinstance(c.ast, ast.Assign):
                committed.add(norm(c.ast.value))
        # sources of notes other than Note(pattern=self): copies of existing data, user callables, parameters
        foreign = False
        for n in walk_no_nested(fn):
            if isinstance(n, ast.Call) and norm(n.func) in ("deepcopy", "copy.deepcopy", "copy"):
                foreign = True
        params = [a.arg for a in fn.args.args if a.arg != "self"]
        if params:
            foreign = True
        text = "; ".join(c.text() for c in commits)
        where = f"{rel}:{commits[0].lineno}"
        if not foreign and note_ctor and len(owned_ctor) == len(note_ctor):
            rep.ok(f"{P}.R3", construct, text, "all notes are built as Note(pattern=self)")
            continue
        if not foreign and not note_ctor:
            rep.ok(f"{P}.R3", construct, text, "installs no notes (empty container)", nontrivial=False)
            continue
        if note_ctor and len(owned_ctor) != len(note_ctor) and not good_stores:
            rep.violation(f"{P}.R3", construct, norm(note_ctor[0]),
                          "notes are created without pattern=self and never re-owned", where)
            continue
        # need an establishment loop covering every installed note on every normal path
        est = _establishment(fn, g, committed, pat)
        if est == "all":
            rep.ok(f"{P}.R3", construct, text, "note.pattern = self is established for every installed note on every normal path")
        elif est and est.startswith("valueeq"):
            eqdef = _value_equality(pat)
            if eqdef:
                rep.violation(f"{P}.R3", construct, "if note.pattern != self: note.pattern = self",
                              f"ownership is re-established only when `note.pattern != self`, but Pattern compares by value "
                              f"({eqdef}): a note owned by a different, equal-looking pattern keeps its stale owner",
                              f"{rel}:{est.split(':')[1]}")
            else:
                rep.ok(f"{P}.R3", construct, text, "`!=` on Pattern is identity comparison (no __eq__)")
        elif est == "partial":
            rep.violation(f"{P}.R3", construct, text,
                          "note.pattern = self is assigned only for some of the installed notes (the copied, untouched "
                          "cells keep a stale owner) or only on some paths", where)
        elif stores or any(isinstance(n, ast.Call) and norm(n.func) == "setattr" and len(n.args) > 1
                           and isinstance(n.args[1], ast.Constant) and n.args[1].value == "pattern" for n in walk_no_nested(fn)):
            rep.inconclusive(f"{P}.R3", construct, "; ".join(norm(s) for s in stores),
                             "a write to .pattern exists but its coverage is not recognised", where)
        else:
            rep.violation(f"{P}.R3", construct, text,
                          "the installed notes (returned by the user callable / deep-copied from the old contents) are "
                          "never given pattern = self, so note.project / note.mod stop working after a bulk edit", where)
    rep.count("functions_installing_contents", n_fn, 3)


def _owns(body: List[ast.stmt], cell: str) -> Optional[str]:
    """Does `body` set <cell>.pattern = self?  'all': unconditionally or under `<cell>.pattern is not self`;
    'valueeq': only under a value comparison (`!=`), which is not an ownership test."""
    def direct(st):
        return isinstance(st, ast.Assign) and any(isinstance(t, ast.Attribute) and t.attr == "pattern"
                                                  and norm(t.value) == cell for t in st.targets) and norm(st.value) == "self"
    for st in body:
        if direct(st):
            return "all"
        if isinstance(st, ast.If) and any(direct(x) for x in st.body) and isinstance(st.test, ast.Compare) \
                and len(st.test.ops) == 1:
            sides = {norm(st.test.left), norm(st.test.comparators[0])}
            if sides == {f"{cell}.pattern", "self"}:
                if isinstance(st.test.ops[0], ast.IsNot):
                    return "all"
                if isinstance(st.test.ops[0], ast.NotEq):
                    return "valueeq"
    return None


def _establishment(fn, g: CFG, committed: Set[str], pat) -> Optional[str]:
    """'all' | 'partial' | None."""
    found_partial = False
    for n in g.nodes:
        if n.kind != "for":
            continue
        outer = n.ast
        it = norm(outer.iter)
        # for note in chain.from_iterable(<rows>) / chain(*<rows>): every cell of every row
        flat = None
        if isinstance(outer.iter, ast.Call) and norm(outer.iter.func).split(".")[-1] == "from_iterable" and len(outer.iter.args) == 1:
            flat = norm(outer.iter.args[0])
        elif isinstance(outer.iter, ast.Call) and norm(outer.iter.func).split(".")[-1] == "chain" and len(outer.iter.args) == 1 \
                and isinstance(outer.iter.args[0], ast.Starred):
            flat = norm(outer.iter.args[0].value)
        if flat is not None and (flat in committed or flat in ("self._data", "self.data")) and isinstance(outer.target, ast.Name):
            how = _owns(outer.body, outer.target.id)
            if how == "valueeq":
                return "valueeq:" + str(outer.lineno)
            if how == "all":
                wo = g.reachable(avoid={n.id}, labels_excluded={"exc", "reraise", "nomatch"})
                if g.exit in wo:
                    found_partial = True
                else:
                    return "all"
            continue
        if isinstance(outer.iter, ast.Subscript) and isinstance(outer.iter.slice, ast.Slice) \
                and (norm(outer.iter.value) in committed or norm(outer.iter.value) in ("self._data", "self.data")) \
                and not (outer.iter.slice.lower is None and outer.iter.slice.upper is None and outer.iter.slice.step is None):
            found_partial = True      # only a slice of the rows is re-owned
            continue
        if not (it in committed or it in ("self._data", "self.data")):
            continue
        if not isinstance(outer.target, ast.Name):
            continue
        rowv = outer.target.id
        for inner in outer.body:
            if isinstance(inner, ast.For) and norm(inner.iter) == rowv and isinstance(inner.target, ast.Name):
                cell = inner.target.id
                how = _owns(inner.body, cell)
                if how == "valueeq":
                    return "valueeq:" + str(inner.lineno)
                if how == "all":
                    # on every normal path?
                    wo = g.reachable(avoid={n.id}, labels_excluded={"exc", "reraise", "nomatch"})
                    if g.exit in wo:
                        found_partial = True
                    else:
                        return "all"
    # per-cell establishment inside full lines×tracks loops
    loops = []

    def rec(stmts, stack):
        for st in stmts:
            if isinstance(st, ast.For):
                rec(st.body, stack + [st])
            elif isinstance(st, (ast.If, ast.With)):
                rec(st.body, stack)
                rec(getattr(st, "orelse", []), stack)
            elif isinstance(st, ast.Assign):
                loops.append((st, stack))
    rec(fn.body, [])
    for st, stack in loops:
        for t in st.targets:
            if isinstance(t, ast.Subscript) and isinstance(t.value, ast.Subscript) and norm(t.value.value) in committed:
                iters = [norm(l.iter) for l in stack]
                full = iters == ["range(self.lines)", "range(self.tracks)"]
                val = st.value
                body = stack[-1].body if stack else []
                owned = isinstance(val, ast.Name) and any(
                    isinstance(s, ast.Assign) and any(isinstance(tt, ast.Attribute) and tt.attr == "pattern" and norm(tt.value) == val.id
                                                      for tt in s.targets) and norm(s.value) == "self" for s in body)
                if owned and full:
                    return "all"
                if owned:
                    found_partial = True
    return "partial" if found_partial else None


def _value_equality(pat) -> Optional[str]:
    """How the Pattern class gets a value-based __eq__, if it does."""
    if "__eq__" in pat.methods:
        return "__eq__ defined"
    for d in pat.node.decorator_list:
        name = norm(d.func if isinstance(d, ast.Call) else d).split(".")[-1]
        if name in ("attributes", "attrs", "s", "define", "mutable", "dataclass", "frozen"):
            if isinstance(d, ast.Call) and any(k.arg in ("eq", "cmp") and isinstance(k.value, ast.Constant) and k.value.value is False
                                               for k in d.keywords):
                continue
            return f"@{norm(d)[:40]} generates __eq__"
    return None


def note_project_path(repo: Repo, rep, P: str):
    """Note.project goes through note.pattern (so ownership is what keeps Note.mod working)."""
    note = repo.cls("Note", module="rv.note")
    g = note.getters.get("project")
    if g is None:
        raise AnchorMissing("Note.project")
    src = " ".join(norm(s) for s in g.body)
    if "self.pattern.project" in src:
        rep.ok(f"{P}.R3", f"{note.file.rel}:Note.project", "return self.pattern.project", nontrivial=False)
    else:
        rep.info(f"{P}.R3", f"{note.file.rel}:Note.project", src[:100], "Note.project no longer resolves through note.pattern")
