"""C11 — module options pack into disjoint bits and read back exactly."""

from __future__ import annotations

import ast
import copy
from typing import Any, Dict, List, Optional, Tuple

from .. import bits, specdiff
from ..bits import BV, BitEval, Unsupported, low_bits_of_single_term
from ..classmodel import OptDesc, all_options, class_const, module_classes
from ..model import AnchorMissing, ClassInfo, NotConst, Repo, attr_chain, norm, stmts_of, walk_no_nested

LEVEL = "proof"
EXPLANATION = (
    "for every option-bearing class the declared (byte, bit, size) triples are folded from the generated AST: "
    "bit ranges pairwise disjoint and inside the byte; Module.options_chunks ∘ Module.load_options is "
    "instantiated per option with its constants and evaluated in the bit domain with every option value as an "
    "opaque term — each option's read-back equals its own value masked to `size` bits and depends on no other "
    "option; record length covers the highest option byte; descriptor algebra (inversion round trip, exclusivity "
    "targets, clamp expression, bounds fit the field); declared bounds present on the generated class (spec diff)."
)
DECLINED = []
ASSUMPTIONS = ["Option values are non-negative integers / booleans when packed"]


def run(repo: Repo, rep, tier: str):
    disjointness(repo, rep, "C11")
    option_aliases(repo, rep, "C11")
    pack_unpack(repo, rep, "C11", "R2")
    record_length(repo, rep, "C11")
    descriptor_algebra(repo, rep, "C11")
    # the Option descriptor keeps no per-class memory of values (exclusivity and callbacks are decided per instance)
    from . import c17
    c17.descriptor_self_state(repo, rep, "C11", "R4s", only=("Option",))
    spec_bounds(repo, rep, "C11")


def option_classes(repo: Repo) -> List[Tuple[ClassInfo, List[OptDesc]]]:
    out = []
    for ci in module_classes(repo):
        opts = all_options(repo, ci)
        if opts:
            out.append((ci, opts))
    return out


def _int(o: OptDesc, k: str) -> Optional[int]:
    v = o.get(k)
    if isinstance(v, bool):
        return int(v)
    return v if isinstance(v, int) else None


def option_aliases(repo: Repo, rep, P: str):
    """A class-level `alias = Base.option` puts the same Option object under a second name: ModuleMeta collects it as a
    second option on the same byte/bit (and the constructor applies the alias' default over the real value)."""
    n = 0
    for ci, opts in option_classes(repo):
        names = {o.name for o in opts}
        try:
            mro = repo.mro(ci)
        except AnchorMissing:
            mro = [ci]
        for k in mro:
            for name, val in k.assigns.items():
                if not isinstance(val, (ast.Attribute, ast.Name)) or name in names and norm(val).split(".")[-1] == name:
                    continue
                n += 1
                ref = norm(val).split(".")[-1]
                if ref in names and ref != name:
                    rep.violation(f"{P}.R1", f"{k.file.rel}:{k.qualname}.{name}", f"{name} = {norm(val)}",
                                  f"`{name}` is a second name for option `{ref}`: the class then has two options on one bit of the options "
                                  "record, and a value given for one is overwritten by the default of the other",
                                  f"{k.file.rel}:{k.assign_stmts[name].lineno}" if name in getattr(k, "assign_stmts", {}) else k.file.rel)
    rep.instances["class_level_name_bindings_scanned"] = n
    rep.ok(f"{P}.R1", "rv/modules/**", f"{n} class-level name bindings", "no option is bound under a second name")


# ------------------------------------------------------------------------------------ R1
def disjointness(repo: Repo, rep, P: str):
    classes = option_classes(repo)
    rep.count("option_classes", len(classes), 5)
    total = 0
    for ci, opts in classes:
        con = f"{opts[0].owner.file.rel}:{opts[0].owner.qualname}"
        used: Dict[int, List[Tuple[int, int, str]]] = {}
        for o in opts:
            total += 1
            b, bit, size = _int(o, "byte"), _int(o, "bit"), _int(o, "size")
            where = f"{o.owner.file.rel}:{o.node.lineno}"
            if None in (b, bit, size):
                rep.inconclusive(f"{P}.R1", con, o.name, "byte/bit/size not constant", where)
                continue
            if o.get("name") != o.name:
                rep.violation(f"{P}.R1", con, f"{o.name} = Option(name={o.get('name')!r})",
                              "the option's name= differs from the attribute it is bound to: its value is stored under another key", where)
            if size < 1 or bit < 0 or bit + size > 8 or not (0 <= b < 64):
                rep.violation(f"{P}.R1", con, f"{o.name}: byte={b} bit={bit} size={size}",
                              "option field does not fit inside one byte of the 64-byte options record", where)
                continue
            for (obit, osize, oname) in used.get(b, []):
                if not (bit + size <= obit or obit + osize <= bit):
                    rep.violation(f"{P}.R1", con, f"{o.name} (byte {b} bits {bit}..{bit + size - 1}) / {oname} (bits {obit}..{obit + osize - 1})",
                                  f"options `{o.name}` and `{oname}` of {ci.name} occupy the same bit(s) of options byte {b}", where)
            used.setdefault(b, []).append((bit, size, o.name))
        rep.ok(f"{P}.R1", con, f"{len(opts)} options in bytes {sorted(used)}", "bit ranges pairwise disjoint, each inside its byte")
    rep.count("options", total, 49)


# ------------------------------------------------------------------------------------ R2
class _Inst(ast.NodeTransformer):
    def __init__(self, var: str, consts: Dict[str, Any]):
        self.var = var
        self.consts = consts

    def visit_Attribute(self, node):
        if isinstance(node.value, ast.Name) and node.value.id == self.var and node.attr in self.consts:
            v = self.consts[node.attr]
            if isinstance(v, (list, tuple)):
                return ast.copy_location(ast.List(elts=[ast.Constant(value=x) for x in v], ctx=ast.Load()), node)
            return ast.copy_location(ast.Constant(value=v), node)
        return self.generic_visit(node)


class _Rename(ast.NodeTransformer):
    def __init__(self, mapping: Dict[str, ast.expr]):
        self.mapping = mapping

    def visit_Name(self, node):
        if node.id in self.mapping:
            new = copy.deepcopy(self.mapping[node.id])
            if isinstance(new, ast.Name):
                new.ctx = node.ctx
            return ast.copy_location(new, node)
        return node


def _opt_consts(o: OptDesc) -> Dict[str, Any]:
    d = {k: o.get(k) for k in ("name", "byte", "bit", "size", "min", "max")}
    d["inverted"] = bool(o.get("inverted", False))
    d["exclusive_of"] = list(o.get("exclusive_of") or [])
    return d


_CONST_NODES = (ast.Constant, ast.Set, ast.List, ast.Tuple, ast.Compare, ast.BoolOp, ast.UnaryOp, ast.And, ast.Or, ast.Not,
                ast.In, ast.NotIn, ast.Is, ast.IsNot, ast.Eq, ast.NotEq, ast.Lt, ast.LtE, ast.Gt, ast.GtE, ast.Load, ast.USub,
                ast.Subscript, ast.Slice)


def _const_test(repo: Repo, e: ast.expr):
    try:
        return repo.fold(e)
    except NotConst:
        pass
    if all(isinstance(n, _CONST_NODES) for n in ast.walk(e)):
        expr = ast.Expression(body=copy.deepcopy(e))
        ast.fix_missing_locations(expr)
        return eval(compile(expr, "<const>", "eval"), {"__builtins__": {}}, {})      # literals and comparison operators only
    raise NotConst(norm(e))


def _simplify(repo: Repo, stmts: List[ast.stmt], notes: List[str]) -> List[ast.stmt]:
    """Fold constant branches, unroll loops over literal lists, drop change-hook plumbing (getattr/callable/callback)."""
    out: List[ast.stmt] = []
    hooks = set()
    # locals bound once in this block to a constant (`index = 3` after the option's fields were written in) are read as the constant
    stores: Dict[str, int] = {}
    for st in stmts:
        for n in ast.walk(st):
            if isinstance(n, ast.Name) and isinstance(n.ctx, (ast.Store, ast.Del)):
                stores[n.id] = stores.get(n.id, 0) + 1
    cenv: Dict[str, ast.expr] = {}
    for st in stmts:
        if isinstance(st, ast.Assign) and len(st.targets) == 1 and isinstance(st.targets[0], ast.Name) and stores.get(st.targets[0].id) == 1 \
                and all(isinstance(n, _CONST_NODES) for n in ast.walk(st.value)):
            try:
                cv = _const_test(repo, st.value)
                if isinstance(cv, int) and not isinstance(cv, bool):
                    cenv[st.targets[0].id] = ast.Constant(value=cv)
            except Exception:
                pass
    if cenv:
        stmts = [_Rename(dict(cenv)).visit(copy.deepcopy(st)) for st in stmts
                 if not (isinstance(st, ast.Assign) and len(st.targets) == 1 and isinstance(st.targets[0], ast.Name) and st.targets[0].id in cenv)]
        for st in stmts:
            ast.fix_missing_locations(st)
    for st in stmts:
        if isinstance(st, ast.If):
            if isinstance(st.test, ast.Call) and norm(st.test.func) == "callable":
                notes.append("change hook not followed: " + norm(st.test))
                continue
            try:
                v = _const_test(repo, st.test)
                out += _simplify(repo, st.body if v else st.orelse, notes)
            except NotConst:
                new = copy.copy(st)
                new.body = _simplify(repo, st.body, notes) or [ast.Pass()]
                new.orelse = _simplify(repo, st.orelse, notes)
                out.append(new)
        elif isinstance(st, ast.For) and isinstance(st.target, ast.Name) and not isinstance(st.iter, (ast.List, ast.Tuple)) \
                and all(isinstance(n, _CONST_NODES) for n in ast.walk(st.iter)):
            try:
                vals = list(_const_test(repo, st.iter))
            except Exception:
                out.append(st)
                continue
            for v in vals:
                body = [_Rename({st.target.id: ast.Constant(value=v)}).visit(copy.deepcopy(b)) for b in st.body]
                out += _simplify(repo, body, notes)
        elif isinstance(st, ast.For) and isinstance(st.iter, (ast.List, ast.Tuple)) and isinstance(st.target, ast.Name) \
                and all(isinstance(x, ast.Constant) for x in st.iter.elts):
            for x in st.iter.elts:
                body = [_Rename({st.target.id: x}).visit(copy.deepcopy(b)) for b in st.body]
                out += _simplify(repo, body, notes)
        elif isinstance(st, ast.Assign) and isinstance(st.value, ast.Call) and norm(st.value.func) == "getattr" \
                and isinstance(st.targets[0], ast.Name):
            hooks.add(st.targets[0].id)
            continue
        elif isinstance(st, ast.Pass):
            continue
        else:
            out.append(st)
    return out


def _expand_descriptor_sets(repo: Repo, stmts: List[ast.stmt], consts: Dict[str, Any], recv: str = "self") -> List[ast.stmt]:
    """`setattr(self, <this option's name>, X)` goes through Option.__set__: inline that method for this option."""
    opt = repo.cls("Option", module="rv.option")
    setfn = opt.methods.get("__set__")
    out: List[ast.stmt] = []
    for st in stmts:
        if isinstance(st, ast.If):
            new = copy.copy(st)
            new.body = _expand_descriptor_sets(repo, st.body, consts, recv)
            new.orelse = _expand_descriptor_sets(repo, st.orelse, consts, recv)
            out.append(new)
            continue
        call = st.value if isinstance(st, ast.Expr) else None
        if isinstance(call, ast.Call) and norm(call.func) == "setattr" and len(call.args) == 3 and norm(call.args[0]) == recv \
                and isinstance(call.args[1], ast.Constant) and call.args[1].value == consts["name"]:
            if setfn is None:
                raise Unsupported("Option.__set__ not found")
            ps = [a.arg for a in setfn.args.args]
            body = [_Inst(ps[0], consts).visit(copy.deepcopy(b)) for b in setfn.body
                    if not (isinstance(b, ast.Expr) and isinstance(b.value, ast.Constant))]
            ren = _Rename({ps[1]: ast.Name(id=recv, ctx=ast.Load()), ps[2]: ast.Name(id="__set_value", ctx=ast.Load())})
            body = [ren.visit(b) for b in body]
            first = ast.Assign(targets=[ast.Name(id="__set_value", ctx=ast.Store())], value=copy.deepcopy(call.args[2]))
            for b in [first] + body:
                ast.copy_location(b, st)
                ast.fix_missing_locations(b)
            out += [first] + body
        else:
            out.append(st)
    return out


def _static_flatten(repo: Repo, stmts: List[ast.stmt]) -> List[ast.stmt]:
    out = []
    for st in stmts:
        if isinstance(st, ast.If):
            try:
                v = repo.fold(st.test)
            except NotConst:
                raise Unsupported(f"non-constant branch: {norm(st.test)}")
            out += _static_flatten(repo, st.body if v else st.orelse)
        else:
            out.append(st)
    return out


def _iterates_options(fn: ast.FunctionDef, st: ast.stmt) -> bool:
    if not (isinstance(st, ast.For) and isinstance(st.target, ast.Name)):
        return False
    it = st.iter
    if isinstance(it, ast.Name):          # declared = self.options.values(); for option in declared
        from ..packed import single_defs
        it = single_defs(fn).get(it.id, it)
    while isinstance(it, ast.Call) and norm(it.func) in ("list", "tuple", "iter") and len(it.args) == 1:
        it = it.args[0]
    return norm(it) == "self.options.values()"


def _loop_over_options(fn: ast.FunctionDef) -> Optional[ast.For]:
    for st in fn.body:
        if _iterates_options(fn, st):
            return st
    return None


def _loops_over_options(fn: ast.FunctionDef) -> List[ast.For]:
    return [st for st in fn.body if _iterates_options(fn, st)]


def _bytemap_var(loop: ast.For) -> Optional[str]:
    """The list the loop indexes with `<option>.byte`."""
    ov = loop.target.id
    from ..packed import once_defs, resolve_names
    ldefs = once_defs(loop.body)          # `index = option.byte; cells[index] |= bits`
    for n in ast.walk(loop):
        if isinstance(n, ast.Subscript) and isinstance(n.value, ast.Name) and not isinstance(n.slice, ast.Slice) \
                and norm(resolve_names(n.slice, ldefs)) == f"{ov}.byte":
            return n.value.id
    return None


class _RenameName(ast.NodeTransformer):
    def __init__(self, old: str, new: str):
        self.old, self.new = old, new

    def visit_Name(self, node):
        if node.id == self.old:
            return ast.copy_location(ast.Name(id=self.new, ctx=node.ctx), node)
        return node


def _relevant(stmts: List[ast.stmt], roots: Tuple[str, ...]) -> List[ast.stmt]:
    """Statements that (transitively) feed a store into one of the `roots` containers; bookkeeping such as the record
    length counter is dropped (decided by R3)."""
    rel = set(roots)
    changed = True
    while changed:
        changed = False
        for st in stmts:
            for n in ast.walk(st):
                if isinstance(n, (ast.Assign, ast.AugAssign)):
                    tg = n.targets if isinstance(n, ast.Assign) else [n.target]
                    roots_hit = False
                    for t in tg:
                        base = t
                        while isinstance(base, (ast.Subscript, ast.Attribute)):
                            base = base.value
                        key = norm(t.value) if isinstance(t, ast.Subscript) else (t.id if isinstance(t, ast.Name) else norm(t))
                        if key in rel or (isinstance(t, ast.Name) and t.id in rel) or (isinstance(base, ast.Name) and base.id in rel):
                            roots_hit = True
                    if roots_hit:
                        for m in ast.walk(n.value):
                            if isinstance(m, ast.Name) and m.id not in rel:
                                rel.add(m.id)
                                changed = True

    def keep(st: ast.stmt) -> bool:
        if isinstance(st, ast.If):
            return any(keep(x) for x in st.body + st.orelse)
        if isinstance(st, (ast.Assign, ast.AugAssign)):
            tg = st.targets if isinstance(st, ast.Assign) else [st.target]
            for t in tg:
                base = t
                while isinstance(base, (ast.Subscript, ast.Attribute)):
                    base = base.value
                key = norm(t.value) if isinstance(t, ast.Subscript) else ""
                if key in rel or (isinstance(base, ast.Name) and base.id in rel):
                    return True
            return False
        return True
    out = []
    for st in stmts:
        if isinstance(st, ast.If):
            new = copy.copy(st)
            new.body = [x for x in _relevant(st.body, tuple(rel))] or [ast.Pass()]
            new.orelse = _relevant(st.orelse, tuple(rel))
            if all(isinstance(x, ast.Pass) for x in new.body) and not new.orelse:
                continue
            out.append(new)
        elif keep(st):
            out.append(st)
    return out


def _bytemap_zero_init(repo: Repo, wfn: ast.FunctionDef, wloop: ast.For) -> bool:
    """Is the byte map all zeros when the writer's loop starts?  (`bytemap = [0] * N` and nothing else before the loop.)"""
    var = _bytemap_var(wloop) or "bytemap"
    from .. import inline
    pre = [st for st in wfn.body if inline.pos(st) < inline.pos(wloop)]
    touching = [st for st in pre if any(isinstance(n, ast.Name) and n.id == var for n in ast.walk(st))]
    if len(touching) != 1 or not isinstance(touching[0], ast.Assign):
        return False
    try:
        v = repo.fold(touching[0].value, ci=repo.cls("Module", module="rv.modules.module"))
    except NotConst:
        return False
    return isinstance(v, (list, tuple, bytes, bytearray)) and len(v) >= 64 and all(x == 0 for x in v)


def pack_unpack(repo: Repo, rep, P: str, rule: str):
    mod = repo.cls("Module", module="rv.modules.module")
    from .. import inline
    wfn = _options_nf(repo, mod, "options_chunks")
    rfn = _options_nf(repo, mod, "load_options")
    rel = mod.file.rel
    rep.func("rv.modules.module.Module.options_chunks ∘ load_options")
    wloop, rloop = _loop_over_options(wfn), _loop_over_options(rfn)
    if wloop is None or rloop is None:
        rep.inconclusive(f"{P}.{rule}", f"{rel}:Module.options_chunks", "", "loop over self.options.values() not found", f"{rel}:{wfn.lineno}")
        return
    # yields of the writer: CHNM options_chnm, CHDT pack("B"*bytes, *bytemap[:bytes])
    n_inst = 0
    for ci, opts in option_classes(repo):
        con = f"{rel}:Module.options_chunks[{ci.name}]"
        zero_init = _bytemap_zero_init(repo, wfn, wloop)
        env: Dict[str, BV] = {f"bytemap[{i}]": (BV.const(0) if zero_init else BV.term(f"initial_bytemap[{i}]", 8)) for i in range(64)}
        ev = BitEval(repo, mod, env)
        try:
            for lp in _loops_over_options(wfn):
                bvar = _bytemap_var(lp) or "bytemap"
                for o in opts:
                    consts = _opt_consts(o)
                    body = [_RenameName(bvar, "bytemap").visit(_Inst(lp.target.id, consts).visit(copy.deepcopy(s))) for s in lp.body]
                    for s in body:
                        ast.fix_missing_locations(s)
                    ev.run(_relevant(_simplify(repo, body, []), ("bytemap",)))
        except Unsupported as e:
            rep.inconclusive(f"{P}.{rule}", con, "", f"writer loop not evaluable: {e}", f"{rel}:{wloop.lineno}")
            continue
        written = {i: ev.env[f"bytemap[{i}]"].truncate(8) for i in range(64)}
        overflow = [i for i in range(64) if any(l != 0 for l in ev.env[f"bytemap[{i}]"].lanes[8:])]
        if overflow:
            rep.violation(f"{P}.{rule}", con, f"bytes {overflow}", f"{ci.name}: packed option bits spill beyond bit 7 of byte(s) {overflow} "
                          "(pack('B') would raise / neighbouring option corrupted)", f"{rel}:{wloop.lineno}")
        # reader
        renv: Dict[str, BV] = {f"bytemap[{i}]": written[i] for i in range(64)}
        ev2 = BitEval(repo, mod, renv)
        try:
            notes: List[str] = []
            for lp in _loops_over_options(rfn):
                bvar = _bytemap_var(lp) or "bytemap"
                for o in opts:
                    consts = _opt_consts(o)
                    body = [_RenameName(bvar, "bytemap").visit(_Inst(lp.target.id, consts).visit(copy.deepcopy(s))) for s in lp.body]
                    body = _expand_descriptor_sets(repo, body, consts)
                    for s in body:
                        ast.fix_missing_locations(s)
                    ev2.run(_simplify(repo, body, notes))
        except Unsupported as e:
            rep.inconclusive(f"{P}.{rule}", f"{rel}:Module.load_options[{ci.name}]", "", f"reader loop not evaluable: {e}", f"{rel}:{rloop.lineno}")
            continue
        for o in opts:
            n_inst += 1
            got = ev2.env.get(f"self.option_values[{o.name!r}]")
            size = _int(o, "size")
            ocon = f"{o.owner.file.rel}:{o.owner.qualname}.{o.name}"
            text = f"{ci.name}.{o.name} byte={o.get('byte')} bit={o.get('bit')} size={size}"
            if got is None:
                # a store through a name this rule does not follow (`values = self.option_values; values[k] = …`) is not "no store"
                other = sorted({norm(t.value) for lp in _loops_over_options(rfn) for n in ast.walk(lp) if isinstance(n, (ast.Assign, ast.AugAssign))
                                for t in (n.targets if isinstance(n, ast.Assign) else [n.target]) if isinstance(t, ast.Subscript)
                                and norm(t.value) not in ("self.option_values", "bytemap")} |
                               {norm(c.func) for lp in _loops_over_options(rfn) for c in ast.walk(lp) if isinstance(c, ast.Call)
                                and norm(c.func).split(".")[-1] in ("setattr", "__setitem__", "update", "setdefault")})
                if other:
                    rep.inconclusive(f"{P}.{rule}", f"{rel}:Module.load_options", text, f"the reader stores through {other}, which this rule does not follow",
                                     f"{rel}:{rloop.lineno}")
                else:
                    rep.violation(f"{P}.{rule}", f"{rel}:Module.load_options", text, "the reader never stores this option", f"{rel}:{rloop.lineno}")
                continue
            lb = low_bits_of_single_term(got)
            if lb is not None and o.get("min") is not None and lb[0] == f"clamp({o.name},{o.get('min')},{o.get('max')})":
                lb = (o.name, max(lb[1], size or 0))        # clamped into the option's own declared bounds: identity on its domain
            partners = set(o.get("exclusive_of") or [])
            if (lb is None or lb[0] != o.name) and partners and o.name in got.deps() and got.deps() - {o.name} <= partners \
                    and any(bits.is_top(l) for l in got.lanes):
                rep.inconclusive(f"{P}.{rule}", f"{rel}:Module.load_options", text,
                                 f"read-back of `{o.name}` depends on its exclusive partner(s) {sorted(partners)}; equal to the stored bit only "
                                 "for files in which the pair is not both on (not decided)", f"{rel}:{rloop.lineno}")
                continue
            if any(d.startswith("initial_bytemap[") for d in got.deps()):
                rep.violation(f"{P}.{rule}", f"{rel}:Module.options_chunks", text,
                              f"the options record is not built from zeros: the byte of `{o.name}` starts from other data and the current "
                              "value is only OR-ed in, so a bit that was set there can never be cleared (after load the option reads back as "
                              f"{got.show(4)})", f"{rel}:{wloop.lineno}")
                continue
            if lb is None or lb[0] != o.name:
                others = sorted(got.deps() - {o.name})
                rep.violation(f"{P}.{rule}", f"{rel}:Module.load_options", text,
                              f"after save/load `{o.name}` reads back as {got.show(9)}"
                              + (f" — it depends on the value of {others}" if others else " — not the bits that were written for it"),
                              f"{rel}:{rloop.lineno}")
            elif lb[1] != size:
                rep.violation(f"{P}.{rule}", f"{rel}:Module.load_options", text,
                              f"only {lb[1]} of the {size} declared bit(s) of `{o.name}` survive save/load", f"{rel}:{rloop.lineno}")
            else:
                rep.ok(f"{P}.{rule}", ocon, text, f"read-back = {o.name}[0..{size - 1}], independent of the other options")
                if len(rep.samples) < 5 and size > 1:
                    rep.sample({"option": text, "options_byte": written[_int(o, "byte")].show(8), "read_back": got.show(size + 1)})
    rep.count(f"{rule}.option_instances", n_inst, 49)


# ------------------------------------------------------------------------------------ R3
def _options_nf(repo: Repo, mod: ClassInfo, name: str) -> ast.FunctionDef:
    """The options writer / reader in normal form; private methods of the Option object called on the loop variable
    (`option._stored_value_from(bytemap)`) are read through."""
    from .. import inline
    fn = inline.normalize(repo, mod, repo.own_method(mod, name), aliases=True)
    try:
        opt = repo.cls("Option", module="rv.option")
    except Exception:
        return fn
    recv = {}
    called = set()
    for lp in [n for n in ast.walk(fn) if isinstance(n, ast.For) and isinstance(n.target, ast.Name)]:
        if "self.options" in norm(lp.iter) and any(isinstance(c, ast.Call) and isinstance(c.func, ast.Attribute) and isinstance(c.func.value, ast.Name)
                                                   and c.func.value.id == lp.target.id and c.func.attr in opt.methods and not c.func.attr.startswith("__")
                                                   for c in ast.walk(lp)):
            recv[lp.target.id] = opt
            called |= {c.func.attr for c in ast.walk(lp) if isinstance(c, ast.Call) and isinstance(c.func, ast.Attribute) and isinstance(c.func.value, ast.Name)
                       and c.func.value.id == lp.target.id and c.func.attr in opt.methods and not c.func.attr.startswith("__")}
    if recv:
        # the codec of one option may live on the Option object (`option.to_field(v)`, public or private): read through
        fn = inline.normalize(repo, mod, repo.own_method(mod, name), receivers=recv, aliases=True, also=tuple(sorted(called)))
    # one-expression properties of the Option object (`option.mask`) read as their expression; 2 ** n as 1 << n
    lvars = {lp.target.id for lp in ast.walk(fn) if isinstance(lp, ast.For) and isinstance(lp.target, ast.Name) and "self.options" in norm(lp.iter)}
    if lvars and opt.getters:
        import copy as _copy

        class PG(ast.NodeTransformer):
            def visit_Attribute(self, node):
                node = self.generic_visit(node)
                if isinstance(node.ctx, ast.Load) and isinstance(node.value, ast.Name) and node.value.id in lvars and node.attr in opt.getters:
                    try:
                        e = inline.as_expression(inline.normalize(repo, opt, opt.getters[node.attr]))
                    except Exception:
                        e = None
                    if e is not None and not any(isinstance(x, (ast.Call, ast.Lambda)) for x in ast.walk(e)):
                        e = _copy.deepcopy(e)
                        for x in ast.walk(e):
                            if isinstance(x, ast.Name) and x.id == "self":
                                x.id = node.value.id
                        return ast.copy_location(e, node)
                return node

            def visit_BinOp(self, node):
                node = self.generic_visit(node)
                if isinstance(node.op, ast.Pow) and isinstance(node.left, ast.Constant) and node.left.value == 2:
                    return ast.copy_location(ast.BinOp(left=ast.Constant(value=1), op=ast.LShift(), right=node.right), node)
                return node
        fn = PG().visit(_copy.deepcopy(fn))
        ast.fix_missing_locations(fn)
    return fn


def _strip_list_copy(e: ast.expr) -> ast.expr:
    while isinstance(e, ast.Call) and norm(e.func) in ("list", "tuple", "iter") and len(e.args) == 1 and not e.keywords:
        e = e.args[0]
    return e


def record_length(repo: Repo, rep, P: str):
    mod = repo.cls("Module", module="rv.modules.module")
    from .. import inline
    wfn = _options_nf(repo, mod, "options_chunks")
    rfn = _options_nf(repo, mod, "load_options")
    rel = mod.file.rel
    from .. import alg, packed
    wcon, rcon = f"{rel}:Module.options_chunks", f"{rel}:Module.load_options"
    wloop = _loop_over_options(wfn)
    ovar = wloop.target.id if wloop is not None else "option"
    # (a) the record length: L = max(L, option.byte + 1) inside the loop, L = 0 before it
    length_var = None
    verdict = None
    _ldefs = packed.once_defs(wloop.body) if wloop is not None else {}
    for n in (ast.walk(wloop) if wloop is not None else []):
        if isinstance(n, ast.Assign) and len(n.targets) == 1 and isinstance(n.targets[0], ast.Name) and isinstance(n.value, ast.Call) \
                and norm(n.value.func) == "max" and len(n.value.args) == 2:
            v = n.targets[0].id
            others = [a for a in n.value.args if norm(a) != v]
            if len(others) == 1 and any(norm(a) == v for a in n.value.args):
                length_var = v
                try:
                    p = alg.to_poly(packed.resolve_names(others[0], _ldefs), lambda e: alg.Poly.sym("byte") if norm(e) == f"{ovar}.byte" else None)
                    verdict = (p == alg.Poly.sym("byte") + 1, norm(n))
                except alg.NotAlgebraic:
                    verdict = (None, norm(n))
    if length_var is None:
        # if option.byte >= L: L = option.byte + 1      (also `> L - 1`, `option.byte + 1 > L`)
        for n in (ast.walk(wloop) if wloop is not None else []):
            if isinstance(n, ast.If) and not n.orelse and len(n.body) == 1 and isinstance(n.body[0], ast.Assign) \
                    and isinstance(n.body[0].targets[0], ast.Name) and isinstance(n.test, ast.Compare) and len(n.test.ops) == 1:
                v = n.body[0].targets[0].id

                def lf(e, v=v):
                    if norm(e) == f"{ovar}.byte":
                        return alg.Poly.sym("byte")
                    if isinstance(e, ast.Name) and e.id == v:
                        return alg.Poly.sym("L")
                    if isinstance(e, ast.Name) and e.id in _ldefs and e.id != v:
                        return alg.to_poly(_ldefs[e.id], lf)          # index = option.byte
                    return None
                try:
                    newv = alg.to_poly(n.body[0].value, lf)
                    d = alg.to_poly(n.test.left, lf) - alg.to_poly(n.test.comparators[0], lf)
                except alg.NotAlgebraic:
                    continue
                op = type(n.test.ops[0])
                base = alg.Poly.sym("byte") - alg.Poly.sym("L")
                # the update happens exactly when byte + 1 > L, i.e. byte - L >= 0
                cond_ok = (op is ast.GtE and d == base) or (op is ast.Gt and d == base + 1) or \
                          (op is ast.LtE and d == -base) or (op is ast.Lt and d == -(base + 1))
                length_var = v
                verdict = (cond_ok and newv == alg.Poly.sym("byte") + 1, norm(n))
    closed_form = False
    if length_var is None:
        # L = max((option.byte + 1 for option in self.options.values()), default=0)
        for n in walk_no_nested(wfn):
            if not (isinstance(n, ast.Assign) and len(n.targets) == 1 and isinstance(n.targets[0], ast.Name) and isinstance(n.value, ast.Call)
                    and norm(n.value.func) == "max" and len(n.value.args) == 1):
                continue
            comp = n.value.args[0]
            dflt = next((k.value for k in n.value.keywords if k.arg == "default"), None)
            if isinstance(comp, ast.BinOp) and isinstance(comp.op, ast.Add):
                # max([0] + [option.byte + 1 for ...])
                for zl, cc in ((comp.left, comp.right), (comp.right, comp.left)):
                    if isinstance(zl, (ast.List, ast.Tuple)) and len(zl.elts) == 1 and isinstance(zl.elts[0], ast.Constant) and dflt is None:
                        comp, dflt = cc, zl.elts[0]
                        break
            if isinstance(comp, (ast.List, ast.Tuple)) and len(comp.elts) == 2 and dflt is None:
                # max([0, *(option.byte + 1 for ...)])
                for zl, cc in ((comp.elts[0], comp.elts[1]), (comp.elts[1], comp.elts[0])):
                    if isinstance(zl, ast.Constant) and isinstance(cc, ast.Starred):
                        comp, dflt = cc.value, zl
                        break
            from ..packed import single_defs as _sd
            it_defs = _sd(wfn)
            if isinstance(comp, (ast.GeneratorExp, ast.ListComp)) \
                    and len(comp.generators) == 1 and not comp.generators[0].ifs \
                    and isinstance(comp.generators[0].target, ast.Name) \
                    and norm(_strip_list_copy(packed.resolve_names(comp.generators[0].iter, it_defs))) in ("self.options.values()",):
                gv = comp.generators[0].target.id
                length_var = n.targets[0].id
                try:
                    p = alg.to_poly(comp.elt, lambda e: alg.Poly.sym("byte") if norm(e) == f"{gv}.byte" else None)
                    verdict = (p == alg.Poly.sym("byte") + 1 and isinstance(dflt, ast.Constant) and dflt.value == 0, norm(n))
                    closed_form = True
                except alg.NotAlgebraic:
                    verdict = (None, norm(n))
    if length_var is None or verdict is None or verdict[0] is None:
        rep.inconclusive(f"{P}.R3", wcon, verdict[1] if verdict else "", "computation of the record length not recognised", f"{rel}:{wfn.lineno}")
    elif not verdict[0]:
        rep.violation(f"{P}.R3", wcon, verdict[1],
                      "the options record must be max(option.byte) + 1 bytes long (highest option byte included)", f"{rel}:{wfn.lineno}")
    else:
        init = [n for n in wfn.body if isinstance(n, ast.Assign) and norm(n.targets[0]) == length_var]
        ok0 = closed_form or (bool(init) and isinstance(init[0].value, ast.Constant) and init[0].value.value == 0)
        payload = packed.find_yield(wfn, b"CHDT")
        if payload is not None:
            # record = bytemap[:used]; pack(fmt, *record)   (copies and slices only: the table and the length keep their names)
            payload = packed.resolve_names(payload, {k: v for k, v in packed.single_defs(wfn).items() if isinstance(v, (ast.Name, ast.Subscript))})
        ptxt = norm(payload) if payload is not None else ""
        uses = payload is not None and any(isinstance(x, ast.Subscript) and isinstance(x.slice, ast.Slice) and x.slice.lower is None
                                           and x.slice.upper is not None and norm(x.slice.upper) == length_var for x in ast.walk(payload))
        if ok0 and uses:
            rep.ok(f"{P}.R3", wcon, f"{verdict[1]}; CHDT = {ptxt}", "the record covers the highest option byte")
        elif payload is None:
            rep.violation(f"{P}.R3", wcon, "yield b'CHDT', ...", "the options record is no longer written", f"{rel}:{wfn.lineno}")
        else:
            rep.inconclusive(f"{P}.R3", wcon, f"{length_var} init {norm(init[0]) if init else '?'}; CHDT = {ptxt}",
                             "the written slice is not bytemap[:length] with length starting at 0", f"{rel}:{wfn.lineno}")
    # (b) reader pads short records
    rs = norm(rfn)
    padded = None
    rloop = _loop_over_options(rfn)
    bvar = _bytemap_var(rloop) if rloop is not None else None
    if rloop is not None and bvar is not None:
        from ..layout import LenEval, Unknown as _Unknown
        pre = [copy.deepcopy(st) for st in rfn.body if inline.pos(st) < inline.pos(rloop)]
        probe = copy.deepcopy(rfn)
        probe.body = pre + [ast.Return(value=ast.Name(id=bvar, ctx=ast.Load()))]
        ast.fix_missing_locations(probe)
        try:
            lo, hi = LenEval(repo, mod, {}).of_function(probe, mod)
            need = max((_int(o, "byte") or 0) for _, opts in option_classes(repo) for o in opts) + 1
            padded = True if lo >= need else (False if hi < need else None)
            pad_text = f"len({bvar}) ∈ [{lo}, {'∞' if hi >= 10 ** 9 else hi}] when the options are decoded; highest option byte {need - 1}"
        except _Unknown as e:
            pad_text = str(e)
    else:
        pad_text = "byte map of the decoding loop not found"
    if padded:
        rep.ok(f"{P}.R3", rcon, "pad to 64 bytes", "short records read as zeros")
    elif padded is False:
        rep.violation(f"{P}.R3", rcon, pad_text, "a short options record is not padded: decoding an option beyond the stored bytes raises IndexError",
                      f"{rel}:{rfn.lineno}")
    else:
        rs = pad_text + " " + rs
        rep.inconclusive(f"{P}.R3", rcon, rs[:160], "padding of short option records to 64 bytes not recognised", f"{rel}:{rfn.lineno}")
    # (c) chunk number
    cp = packed.find_yield(wfn, b"CHNM")
    if cp is not None:
        cp = packed.subst_locals(wfn, cp)
    if cp is not None and isinstance(cp, ast.Call) and len(cp.args) == 2 and norm(cp.args[1]) == "self.options_chnm":
        rep.ok(f"{P}.R3", wcon, "CHNM = options_chnm", nontrivial=False)
    else:
        rep.violation(f"{P}.R3", wcon, norm(cp) if cp is not None else "no CHNM", "options must be written under options_chnm", f"{rel}:{wfn.lineno}")
    for ci, opts in option_classes(repo):
        con = f"{ci.file.rel}:{ci.qualname}"
        try:
            chnk = class_const(repo, ci, "chnk")
            oc = class_const(repo, ci, "options_chnm")
        except (AnchorMissing, NotConst):
            rep.violation(f"{P}.R3", con, "chnk / options_chnm", f"{ci.name} has options but no constant chnk/options_chnm "
                          "(the options chunk is only written under `if module.chnk`)", ci.file.rel)
            continue
        if not chnk:
            rep.violation(f"{P}.R3", con, f"chnk = {chnk!r}", f"{ci.name} has options but a falsy chnk: its options are never written", ci.file.rel)
        elif not (oc < chnk):
            rep.violation(f"{P}.R3", con, f"options_chnm = {oc}, chnk = {chnk}", "options chunk number must be below the CHNK count", ci.file.rel)
        else:
            rep.ok(f"{P}.R3", con, f"options_chnm {oc} < chnk {chnk}")


# ------------------------------------------------------------------------------------ R4
def descriptor_algebra(repo: Repo, rep, P: str):
    opt = repo.cls("Option", module="rv.option")
    rel = opt.file.rel
    g, s = repo.own_method(opt, "__get__"), repo.own_method(opt, "__set__")
    rep.func("rv.option.Option.__get__ / __set__")
    descriptor_eval(repo, rep, P)
    seeding_rule(repo, rep, P)
    # per option declarations
    for ci, opts in option_classes(repo):
        names = {o.name: o for o in opts}
        for o in opts:
            con = f"{o.owner.file.rel}:{o.owner.qualname}.{o.name}"
            where = f"{o.owner.file.rel}:{o.node.lineno}"
            size = _int(o, "size")
            mn, mx = o.get("min"), o.get("max")
            inv = bool(o.get("inverted"))
            if (mn is not None or mx is not None):
                if inv:
                    rep.violation(f"{P}.R4", con, "min/max and inverted", "an option cannot be both bounded and inverted", where)
                if mn is None or mx is None or not (0 <= mn <= mx) or (size is not None and mx > 2**size - 1):
                    rep.violation(f"{P}.R4", con, f"min={mn} max={mx} size={size}", "declared bounds do not fit the option's bit field", where)
                else:
                    rep.ok(f"{P}.R4", con, f"[{mn}, {mx}] ⊆ [0, {2**size - 1}]", "bounds fit the field")
            if inv and size != 1:
                rep.violation(f"{P}.R4", con, f"inverted with size={size}", "only one-bit options can be inverted", where)
            for other in o.get("exclusive_of") or []:
                t = names.get(other)
                if t is None:
                    rep.violation(f"{P}.R4", con, f"exclusive_of={other!r}", "exclusive partner does not exist on this class", where)
                elif _int(t, "size") != 1 or t.get("inverted") or size != 1 or inv:
                    rep.violation(f"{P}.R4", con, f"exclusive_of={other!r}",
                                  "exclusive partners must be plain one-bit flags (storing False must mean logically off)", where)
                elif o.name not in (t.get("exclusive_of") or []):
                    rep.violation(f"{P}.R4", con, f"exclusive_of={other!r}", f"`{other}` does not list `{o.name}` back: the pair can end up both on", where)
                else:
                    rep.ok(f"{P}.R4", con, f"exclusive_of {other}", "symmetric pair of plain flags")
            d = o.get("default")
            dv = d[3] if isinstance(d, tuple) and d and d[0] == "enum" else d
            if isinstance(dv, bool):
                dv = int(dv)
            if isinstance(dv, int) and size is not None and not (0 <= dv <= 2**size - 1):
                rep.violation(f"{P}.R4", con, f"default={d!r} size={size}", "default does not fit the bit field", where)


def _method_instance(repo: Repo, opt: ClassInfo, name: str, consts: Dict[str, Any], renames: Dict[str, str], result: Optional[str]):
    """Statements of Option.<name> flattened, with self.<field> replaced by this option's constants, parameters renamed,
    `return` eliminated into `result`, constant branches folded, loops over literal lists unrolled, change hooks dropped."""
    from .. import inline
    fn = inline.flatten(repo, opt, repo.own_method(opt, name))
    ps = [a.arg for a in fn.args.args]
    body = [b for b in copy.deepcopy(fn.body) if not (isinstance(b, ast.Expr) and isinstance(b.value, ast.Constant))]
    body = [_Inst(ps[0], consts).visit(b) for b in body]
    body = [_Rename({k: ast.Name(id=v, ctx=ast.Load()) for k, v in renames.items()}).visit(b) for b in body]
    body, _ = inline._eliminate_returns(body, result)
    for b in body:
        ast.fix_missing_locations(b)
    notes: List[str] = []
    return _simplify(repo, body, notes), ps


def descriptor_eval(repo: Repo, rep, P: str):
    """Option.__set__ / __get__ evaluated per kind of option in the bit domain: what is stored for an assigned value, what is
    presented for a stored value, and what happens to exclusive partners."""
    opt = repo.cls("Option", module="rv.option")
    rel = opt.file.rel
    s = repo.own_method(opt, "__set__")
    seen = set()
    n = 0
    for ci, opts in option_classes(repo):
        for o in opts:
            consts = _opt_consts(o)
            size, mn, mx, inv = consts["size"], consts["min"], consts["max"], consts["inverted"]
            key = (mn, mx, size, inv, bool(consts["exclusive_of"]))
            if key in seen:
                continue
            seen.add(key)
            n += 1
            text = f"[size={size} min={mn} max={mx} inverted={inv} exclusive={consts['exclusive_of']}] e.g. {ci.name}.{o.name}"
            scon, gcon = f"{rel}:Option.__set__", f"{rel}:Option.__get__"
            skey = f"inst.option_values[{o.name!r}]"
            try:
                sps = [a.arg for a in s.args.args]
                sbody, _ = _method_instance(repo, opt, "__set__", consts, {sps[1]: "inst", sps[2]: "v"}, None)
                gfn = repo.own_method(opt, "__get__")
                gps = [a.arg for a in gfn.args.args]
                gbody, _ = _method_instance(repo, opt, "__get__", consts, {gps[1]: "inst"}, "__got")
                # `if instance is None: return self` is the class-level access
                gbody = [b for b in gbody if not (isinstance(b, ast.If) and norm(b.test) == "inst is None")] + \
                        [x for b in gbody if isinstance(b, ast.If) and norm(b.test) == "inst is None" for x in b.orelse]
                results = {}
                for width in ((1, 8) if (size == 1 and mn is None) else (max(size or 1, 1) + 4,)):
                    ev = BitEval(repo, opt, {"v": BV.term("v", width=width)})
                    for partner in consts["exclusive_of"]:
                        ev.env[f"inst.option_values[{partner!r}]"] = BV.term(f"old_{partner}", width=1)
                    ev.run(sbody)
                    stored = ev.env.get(skey)
                    ev2 = BitEval(repo, opt, {skey: stored} if stored is not None else {})
                    ev2.run(gbody)
                    results[width] = (stored, ev2.env.get("__got"), dict(ev.env))
            except Unsupported as e:
                rep.inconclusive(f"{P}.R4", scon, text, f"descriptor not evaluable for this kind of option: {e}", f"{rel}:{s.lineno}")
                continue
            ok = True
            for width, (stored, got, env) in results.items():
                if stored is None:
                    ok = False
                    rep.violation(f"{P}.R4", scon, text, "the value must be stored under the option's own name", f"{rel}:{s.lineno}")
                    break
                if mn is not None and mx is not None:
                    lb = low_bits_of_single_term(stored)
                    if lb is None or lb[0] != f"clamp(v,{mn},{mx})":
                        ok = False
                        rep.violation(f"{P}.R4", scon, text + f": stored = {stored.show(10)}",
                                      f"a bounded option must store the assigned value clamped into [{mn}, {mx}] (the clamp is taken whenever both "
                                      "bounds are declared, including a bound of 0)", f"{rel}:{s.lineno}")
                elif size == 1:
                    l0 = stored.lanes[0]
                    single = all(l == 0 for l in stored.lanes[1:])
                    if width == 1:
                        want = bits.N("v", 0) if inv else bits.S("v", 0)
                        if not single or l0 != want:
                            ok = False
                            rep.violation(f"{P}.R4", scon, text + f": stored = {stored.show(4)}",
                                          "a one-bit option stores bool(value)" + (", negated when the option is declared inverted" if inv else ""),
                                          f"{rel}:{s.lineno}")
                        elif got is None or got.lanes[0] != bits.S("v", 0) or any(l != 0 for l in got.lanes[1:]):
                            ok = False
                            rep.violation(f"{P}.R4", gcon, text + f": get(set(b)) = {got.show(4) if got is not None else None}",
                                          "reading an option back must give the logical value that was assigned (inverted options present `not stored`)",
                                          f"{rel}:{gfn.lineno}")
                    else:
                        if not single:
                            ok = False
                            rep.violation(f"{P}.R4", scon, text + f": stored = {stored.show(9)}",
                                          "a one-bit option must be coerced to a boolean before it is stored (an assigned 2 would be masked to 0 on save)",
                                          f"{rel}:{s.lineno}")
                else:
                    lb = low_bits_of_single_term(stored)
                    full_clamp = lb is not None and size is not None and lb[0] == f"clamp(v,0,{2 ** size - 1})"
                    if not ((lb is not None and lb[0] == "v" and lb[1] >= (size or 1)) or full_clamp):
                        ok = False
                        rep.violation(f"{P}.R4", scon, text + f": stored = {stored.show(10)}",
                                      f"a {size}-bit option without declared bounds must store the assigned value unchanged", f"{rel}:{s.lineno}")
                for partner in consts["exclusive_of"]:
                    pv = env.get(f"inst.option_values[{partner!r}]")
                    if pv is None or not pv.is_const() or pv.const_value() != 0:
                        ok = False
                        rep.violation(f"{P}.R4", scon, text + f": partner {partner} = {pv.show(3) if pv is not None else None}",
                                      "mutually exclusive options must be switched off when one is set", f"{rel}:{s.lineno}")
                if not ok:
                    break
            if ok:
                rep.ok(f"{P}.R4", scon, text, "stored / presented / partners as declared")
    rep.count("option_setter_kinds", n, 4)


def seeding_rule(repo: Repo, rep, P: str):
    """Module.__init__ seeds every option through its descriptor (so inverted defaults are stored inverted)."""
    from .. import inline
    from ..packed import subst_locals
    mod = repo.cls("Module", module="rv.modules.module")
    init = inline.flatten(repo, mod, repo.own_method(mod, "__init__"))
    rel = mod.file.rel
    kwname = init.args.kwarg.arg if init.args.kwarg else "kw"
    loops = [st for st in ast.walk(init) if isinstance(st, ast.For) and norm(st.iter) in ("self.options.items()", "self.options.values()", "self.options",
                                                                                          "self.options.keys()")]
    direct = [n for st in loops for n in ast.walk(st) if isinstance(n, ast.Assign)
              and any(isinstance(t, ast.Subscript) and norm(t.value) == "self.option_values" for t in n.targets)]
    good = []
    for st in loops:
        tg = st.target
        if isinstance(tg, ast.Tuple) and len(tg.elts) == 2:
            kv, ov = norm(tg.elts[0]), norm(tg.elts[1])
        elif norm(st.iter).endswith(".values()"):
            ov = norm(tg)
            kv = f"{ov}.name"
        else:
            kv = norm(tg)
            ov = f"self.options[{kv}]"
        for c in ast.walk(st):
            if isinstance(c, ast.Call) and norm(c.func) == "setattr" and len(c.args) == 3 and norm(c.args[0]) == "self":
                from ..packed import resolve_in_block
                name = norm(resolve_in_block(c.args[1], st.body))
                vexpr = resolve_in_block(c.args[2], st.body)
                # D[K] if K in D else X   is   D.get(K, X)
                if isinstance(vexpr, ast.IfExp) and isinstance(vexpr.test, ast.Compare) and len(vexpr.test.ops) == 1:
                    tt, a_, b_ = vexpr.test, vexpr.body, vexpr.orelse
                    if isinstance(tt.ops[0], ast.NotIn):
                        a_, b_ = b_, a_
                    if isinstance(tt.ops[0], (ast.In, ast.NotIn)) and isinstance(a_, ast.Subscript) and norm(a_.value) == norm(tt.comparators[0]) \
                            and norm(a_.slice) == norm(tt.left):
                        vexpr = ast.Call(func=ast.Attribute(value=a_.value, attr="get", ctx=ast.Load()), args=[a_.slice, b_], keywords=[])
                val = norm(vexpr).replace(" ", "")
                names_ok = name in (kv, f"{ov}.name")
                vals = {f"{kwname}.get({k},{ov}.default)" for k in (kv, f"{ov}.name")}
                if names_ok and val in vals:
                    good.append(st)
    has_dict = any(isinstance(n, ast.Assign) and any(norm(t) == "self.option_values" for t in n.targets) and isinstance(n.value, (ast.Dict, ast.Call))
                   for n in ast.walk(init))
    if direct:
        rep.violation(f"{P}.R4", f"{rel}:Module.__init__", norm(direct[0]),
                      "option defaults are written straight into option_values, bypassing the Option descriptor: the default of an "
                      "inverted option is stored un-inverted (it reads back as the opposite of its declared default) and bounds/"
                      "exclusivity are not applied", f"{rel}:{direct[0].lineno}")
    elif good and has_dict:
        rep.ok(f"{P}.R4", f"{rel}:Module.__init__", "for k, option in self.options.items(): setattr(self, k, kw.get(k, option.default))",
               "defaults and keywords go through the descriptor")
    elif not loops:
        rep.violation(f"{P}.R4", f"{rel}:Module.__init__", "option seeding loop",
                      "every option must be seeded with setattr(self, name, keyword-or-default) so that the descriptor applies", f"{rel}:{init.lineno}")
    else:
        rep.inconclusive(f"{P}.R4", f"{rel}:Module.__init__", "; ".join(norm(l)[:80] for l in loops), "option seeding loop not recognised",
                         f"{rel}:{init.lineno}")


# ------------------------------------------------------------------------------------ R5
def spec_bounds(repo: Repo, rep, P: str):
    dis, counts, _ = specdiff.diff_all(repo)
    n = 0
    for d in dis:
        if d.category == "option":
            n += 1
            rep.violation(f"{P}.R5", d.construct, f"{d.mtype}.{d.path}",
                          f"option metadata differs from the specification: spec {d.expected!r}, class {d.actual!r}", d.where)
    if n == 0:
        rep.ok(f"{P}.R5", "rv/modules/base/*.py", f"{counts['options']} options", "every declared byte/bit/size/bound/inversion/exclusivity equals the YAML")
    rep.count("options_compared_with_spec", counts["options"], 49)
