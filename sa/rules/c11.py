"""C11 — module options pack into disjoint bits and read back exactly."""

from __future__ import annotations

import ast
import copy
from typing import Any, Dict, List, Optional, Tuple

from .. import bits, specdiff
from ..bits import BV, BitEval, Unsupported, low_bits_of_single_term
from ..classmodel import OptDesc, all_options, class_const, module_classes
from ..model import AnchorMissing, ClassInfo, NotConst, Repo, attr_chain, norm, stmts_of, walk_no_nested

LEVEL = "proof"
EXPLANATION = (
    "for every option-bearing class the declared (byte, bit, size) triples are folded from the generated AST: "
    "bit ranges pairwise disjoint and inside the byte; Module.options_chunks ∘ Module.load_options is "
    "instantiated per option with its constants and evaluated in the bit domain with every option value as an "
    "opaque term — each option's read-back equals its own value masked to `size` bits and depends on no other "
    "option; record length covers the highest option byte; descriptor algebra (inversion round trip, exclusivity "
    "targets, clamp expression, bounds fit the field); declared bounds present on the generated class (spec diff)."
)
DECLINED = []
ASSUMPTIONS = ["Option values are non-negative integers / booleans when packed"]


def run(repo: Repo, rep, tier: str):
    disjointness(repo, rep, "C11")
    option_aliases(repo, rep, "C11")
    pack_unpack(repo, rep, "C11", "R2")
    record_length(repo, rep, "C11")
    descriptor_algebra(repo, rep, "C11")
    # the Option descriptor keeps no per-class memory of values (exclusivity and callbacks are decided per instance)
    from . import c17
    c17.descriptor_self_state(repo, rep, "C11", "R4s", only=("Option",))
    spec_bounds(repo, rep, "C11")


def option_classes(repo: Repo) -> List[Tuple[ClassInfo, List[OptDesc]]]:
    out = []
    for ci in module_classes(repo):
        opts = all_options(repo, ci)
        if opts:
            out.append((ci, opts))
    return out


def _int(o: OptDesc, k: str) -> Optional[int]:
    v = o.get(k)
    if isinstance(v, bool):
        return int(v)
    return v if isinstance(v, int) else None


def option_aliases(repo: Repo, rep, P: str):
    """A class-level `alias = Base.option` puts the same Option object under a second name: ModuleMeta collects it as a
    second option on the same byte/bit (and the constructor applies the alias' default over the real value)."""
    n = 0
    for ci, opts in option_classes(repo):
        names = {o.name for o in opts}
        try:
            mro = repo.mro(ci)
        except AnchorMissing:
            mro = [ci]
        for k in mro:
            for name, val in k.assigns.items():
                if not isinstance(val, (ast.Attribute, ast.Name)) or name in names and norm(val).split(".")[-1] == name:
                    continue
                n += 1
                ref = norm(val).split(".")[-1]
                if ref in names and ref != name:
                    rep.violation(f"{P}.R1", f"{k.file.rel}:{k.qualname}.{name}", f"{name} = {norm(val)}",
                                  f"`{name}` is a second name for option `{ref}`: the class then has two options on one bit of the options "
                                  "record, and a value given for one is overwritten by the default of the other",
                                  f"{k.file.rel}:{k.assign_stmts[name].lineno}" if name in getattr(k, "assign_stmts", {}) else k.file.rel)
    rep.instances["class_level_name_bindings_scanned"] = n
    rep.ok(f"{P}.R1", "rv/modules/**", f"{n} class-level name bindings", "no option is bound under a second name")


# ------------------------------------------------------------------------------------ R1
def disjointness(repo: Repo, rep, P: str):
    classes = option_classes(repo)
    rep.count("option_classes", len(classes), 5)
    total = 0
    for ci, opts in classes:
        con = f"{opts[0].owner.file.rel}:{opts[0].owner.qualname}"
        used: Dict[int, List[Tuple[int, int, str]]] = {}
        for o in opts:
            total += 1
            b, bit, size = _int(o, "byte"), _int(o, "bit"), _int(o, "size")
            where = f"{o.owner.file.rel}:{o.node.lineno}"
            if None in (b, bit, size):
                rep.inconclusive(f"{P}.R1", con, o.name, "byte/bit/size not constant", where)
                continue
            if o.get("name") != o.name:
                rep.violation(f"{P}.R1", con, f"{o.name} = Option(name={o.get('name')!r})",
                              "the option's name= differs from the attribute it is bound to: its value is stored under another key", where)
            if size < 1 or bit < 0 or bit + size > 8 or not (0 <= b < 64):
                rep.violation(f"{P}.R1", con, f"{o.name}: byte={b} bit={bit} size={size}",
                              "option field does not fit inside one byte of the 64-byte options record", where)
                continue
            for (obit, osize, oname) in used.get(b, []):
                if not (bit + size <= obit or obit + osize <= bit):
                    rep.violation(f"{P}.R1", con, f"{o.name} (byte {b} bits {bit}..{bit + size - 1}) / {oname} (bits {obit}..{obit + osize - 1})",
                                  f"options `{o.name}` and `{oname}` of {ci.name} occupy the same bit(s) of options byte {b}", where)
            used.setdefault(b, []).append((bit, size, o.name))
        rep.ok(f"{P}.R1", con, f"{len(opts)} options in bytes {sorted(used)}", "bit ranges pairwise disjoint, each inside its byte")
    rep.count("options", total, 49)


# ------------------------------------------------------------------------------------ R2
class _Inst(ast.NodeTransformer):
    def __init__(self, var: str, consts: Dict[str, Any]):
        self.var = var
        self.consts = consts

    def visit_Attribute(self, node):
        if isinstance(node.value, ast.Name) and node.value.id == self.var and node.attr in self.consts:
            v = self.consts[node.attr]
            if isinstance(v, (list, tuple)):
                return ast.copy_location(ast.List(elts=[ast.Constant(value=x) for x in v], ctx=ast.Load()), node)
            return ast.copy_location(ast.Constant(value=v), node)
        return self.generic_visit(node)


class _Rename(ast.NodeTransformer):
    def __init__(self, mapping: Dict[str, ast.expr]):
        self.mapping = mapping

    def visit_Name(self, node):
        if node.id in self.mapping:
            new = copy.deepcopy(self.mapping[node.id])
            if isinstance(new, ast.Name):
                new.ctx = node.ctx
            return ast.copy_location(new, node)
        return node


def _opt_consts(o: OptDesc) -> Dict[str, Any]:
    d = {k: o.get(k) for k in ("name", "byte", "bit", "size", "min", "max")}
    d["inverted"] = bool(o.get("inverted", False))
    d["exclusive_of"] = list(o.get("exclusive_of") or [])
    return d


_CONST_NODES = (ast.Constant, ast.Set, ast.List, ast.Tuple, ast.Compare, ast.BoolOp, ast.UnaryOp, ast.And, ast.Or, ast.Not,
                ast.In, ast.NotIn, ast.Is, ast.IsNot, ast.Eq, ast.NotEq, ast.Lt, ast.LtE, ast.Gt, ast.GtE, ast.Load, ast.USub)


def _const_test(repo: Repo, e: ast.expr):
    try:
        return repo.fold(e)
    except NotConst:
        pass
    if all(isinstance(n, _CONST_NODES) for n in ast.walk(e)):
        expr = ast.Expression(body=copy.deepcopy(e))
        ast.fix_missing_locations(expr)
        return eval(compile(expr, "<const>", "eval"), {"__builtins__": {}}, {})      # literals and comparison operators only
    raise NotConst(norm(e))


def _simplify(repo: Repo, stmts: List[ast.stmt], notes: List[str]) -> List[ast.stmt]:
    """Fold constant branches, unroll loops over literal lists, drop change-hook plumbing (getattr/callable/callback)."""
    out: List[ast.stmt] = []
    hooks = set()
    for st in stmts:
        if isinstance(st, ast.If):
            if isinstance(st.test, ast.Call) and norm(st.test.func) == "callable":
                notes.append("change hook not followed: " + norm(st.test))
                continue
            try:
                v = _const_test(repo, st.test)
                out += _simplify(repo, st.body if v else st.orelse, notes)
            except NotConst:
                new = copy.copy(st)
                new.body = _simplify(repo, st.body, notes) or [ast.Pass()]
                new.orelse = _simplify(repo, st.orelse, notes)
                out.append(new)
        elif isinstance(st, ast.For) and isinstance(st.iter, (ast.List, ast.Tuple)) and isinstance(st.target, ast.Name) \
                and all(isinstance(x, ast.Constant) for x in st.iter.elts):
            for x in st.iter.elts:
                body = [_Rename({st.target.id: x}).visit(copy.deepcopy(b)) for b in st.body]
                out += _simplify(repo, body, notes)
        elif isinstance(st, ast.Assign) and isinstance(st.value, ast.Call) and norm(st.value.func) == "getattr" \
                and isinstance(st.targets[0], ast.Name):
            hooks.add(st.targets[0].id)
            continue
        elif isinstance(st, ast.Pass):
            continue
        else:
            out.append(st)
    return out


def _expand_descriptor_sets(repo: Repo, stmts: List[ast.stmt], consts: Dict[str, Any], recv: str = "self") -> List[ast.stmt]:
    """`setattr(self, <this option's name>, X)` goes through Option.__set__: inline that method for this option."""
    opt = repo.cls("Option", module="rv.option")
    setfn = opt.methods.get("__set__")
    out: List[ast.stmt] = []
    for st in stmts:
        if isinstance(st, ast.If):
            new = copy.copy(st)
            new.body = _expand_descriptor_sets(repo, st.body, consts, recv)
            new.orelse = _expand_descriptor_sets(repo, st.orelse, consts, recv)
            out.append(new)
            continue
        call = st.value if isinstance(st, ast.Expr) else None
        if isinstance(call, ast.Call) and norm(call.func) == "setattr" and len(call.args) == 3 and norm(call.args[0]) == recv \
                and isinstance(call.args[1], ast.Constant) and call.args[1].value == consts["name"]:
            if setfn is None:
                raise Unsupported("Option.__set__ not found")
            ps = [a.arg for a in setfn.args.args]
            body = [_Inst(ps[0], consts).visit(copy.deepcopy(b)) for b in setfn.body
                    if not (isinstance(b, ast.Expr) and isinstance(b.value, ast.Constant))]
            ren = _Rename({ps[1]: ast.Name(id=recv, ctx=ast.Load()), ps[2]: ast.Name(id="__set_value", ctx=ast.Load())})
            body = [ren.visit(b) for b in body]
            first = ast.Assign(targets=[ast.Name(id="__set_value", ctx=ast.Store())], value=copy.deepcopy(call.args[2]))
            for b in [first] + body:
                ast.copy_location(b, st)
                ast.fix_missing_locations(b)
            out += [first] + body
        else:
            out.append(st)
    return out


def _static_flatten(repo: Repo, stmts: List[ast.stmt]) -> List[ast.stmt]:
    out = []
    for st in stmts:
        if isinstance(st, ast.If):
            try:
                v = repo.fold(st.test)
            except NotConst:
                raise Unsupported(f"non-constant branch: {norm(st.test)}")
            out += _static_flatten(repo, st.body if v else st.orelse)
        else:
            out.append(st)
    return out


def _loop_over_options(fn: ast.FunctionDef) -> Optional[ast.For]:
    for st in fn.body:
        if isinstance(st, ast.For) and norm(st.iter) == "self.options.values()" and isinstance(st.target, ast.Name):
            return st
    return None


def _loops_over_options(fn: ast.FunctionDef) -> List[ast.For]:
    return [st for st in fn.body if isinstance(st, ast.For) and norm(st.iter) == "self.options.values()" and isinstance(st.target, ast.Name)]


def _bytemap_zero_init(repo: Repo, wfn: ast.FunctionDef, wloop: ast.For) -> bool:
    """Is `bytemap` all zeros when the writer's loop starts?  (`bytemap = [0] * N` and nothing else before the loop.)"""
    pre = [st for st in wfn.body if st.lineno < wloop.lineno]
    touching = [st for st in pre if any(isinstance(n, ast.Name) and n.id == "bytemap" for n in ast.walk(st))]
    if len(touching) != 1 or not isinstance(touching[0], ast.Assign):
        return False
    try:
        v = repo.fold(touching[0].value)
    except NotConst:
        return False
    return isinstance(v, (list, tuple, bytes)) and len(v) >= 64 and all(x == 0 for x in v)


def pack_unpack(repo: Repo, rep, P: str, rule: str):
    mod = repo.cls("Module", module="rv.modules.module")
    wfn = repo.own_method(mod, "options_chunks")
    rfn = repo.own_method(mod, "load_options")
    rel = mod.file.rel
    rep.func("rv.modules.module.Module.options_chunks ∘ load_options")
    wloop, rloop = _loop_over_options(wfn), _loop_over_options(rfn)
    if wloop is None or rloop is None:
        rep.inconclusive(f"{P}.{rule}", f"{rel}:Module.options_chunks", "", "loop over self.options.values() not found", f"{rel}:{wfn.lineno}")
        return
    # yields of the writer: CHNM options_chnm, CHDT pack("B"*bytes, *bytemap[:bytes])
    n_inst = 0
    for ci, opts in option_classes(repo):
        con = f"{rel}:Module.options_chunks[{ci.name}]"
        zero_init = _bytemap_zero_init(repo, wfn, wloop)
        env: Dict[str, BV] = {f"bytemap[{i}]": (BV.const(0) if zero_init else BV.term(f"initial_bytemap[{i}]", 8)) for i in range(64)}
        ev = BitEval(repo, mod, env)
        try:
            for lp in _loops_over_options(wfn):
                for o in opts:
                    consts = _opt_consts(o)
                    body = [_Inst(lp.target.id, consts).visit(copy.deepcopy(s)) for s in lp.body]
                    for s in body:
                        ast.fix_missing_locations(s)
                    ev.run(_simplify(repo, body, []))
        except Unsupported as e:
            rep.inconclusive(f"{P}.{rule}", con, "", f"writer loop not evaluable: {e}", f"{rel}:{wloop.lineno}")
            continue
        written = {i: ev.env[f"bytemap[{i}]"].truncate(8) for i in range(64)}
        overflow = [i for i in range(64) if any(l != 0 for l in ev.env[f"bytemap[{i}]"].lanes[8:])]
        if overflow:
            rep.violation(f"{P}.{rule}", con, f"bytes {overflow}", f"{ci.name}: packed option bits spill beyond bit 7 of byte(s) {overflow} "
                          "(pack('B') would raise / neighbouring option corrupted)", f"{rel}:{wloop.lineno}")
        # reader
        renv: Dict[str, BV] = {f"bytemap[{i}]": written[i] for i in range(64)}
        ev2 = BitEval(repo, mod, renv)
        try:
            notes: List[str] = []
            for lp in _loops_over_options(rfn):
                for o in opts:
                    consts = _opt_consts(o)
                    body = [_Inst(lp.target.id, consts).visit(copy.deepcopy(s)) for s in lp.body]
                    body = _expand_descriptor_sets(repo, body, consts)
                    for s in body:
                        ast.fix_missing_locations(s)
                    ev2.run(_simplify(repo, body, notes))
        except Unsupported as e:
            rep.inconclusive(f"{P}.{rule}", f"{rel}:Module.load_options[{ci.name}]", "", f"reader loop not evaluable: {e}", f"{rel}:{rloop.lineno}")
            continue
        for o in opts:
            n_inst += 1
            got = ev2.env.get(f"self.option_values[{o.name!r}]")
            size = _int(o, "size")
            ocon = f"{o.owner.file.rel}:{o.owner.qualname}.{o.name}"
            text = f"{ci.name}.{o.name} byte={o.get('byte')} bit={o.get('bit')} size={size}"
            if got is None:
                rep.violation(f"{P}.{rule}", f"{rel}:Module.load_options", text, "the reader never stores this option", f"{rel}:{rloop.lineno}")
                continue
            lb = low_bits_of_single_term(got)
            if lb is not None and o.get("min") is not None and lb[0] == f"clamp({o.name},{o.get('min')},{o.get('max')})":
                lb = (o.name, max(lb[1], size or 0))        # clamped into the option's own declared bounds: identity on its domain
            partners = set(o.get("exclusive_of") or [])
            if (lb is None or lb[0] != o.name) and partners and o.name in got.deps() and got.deps() - {o.name} <= partners \
                    and any(bits.is_top(l) for l in got.lanes):
                rep.inconclusive(f"{P}.{rule}", f"{rel}:Module.load_options", text,
                                 f"read-back of `{o.name}` depends on its exclusive partner(s) {sorted(partners)}; equal to the stored bit only "
                                 "for files in which the pair is not both on (not decided)", f"{rel}:{rloop.lineno}")
                continue
            if any(d.startswith("initial_bytemap[") for d in got.deps()):
                rep.violation(f"{P}.{rule}", f"{rel}:Module.options_chunks", text,
                              f"the options record is not built from zeros: the byte of `{o.name}` starts from other data and the current "
                              "value is only OR-ed in, so a bit that was set there can never be cleared (after load the option reads back as "
                              f"{got.show(4)})", f"{rel}:{wloop.lineno}")
                continue
            if lb is None or lb[0] != o.name:
                others = sorted(got.deps() - {o.name})
                rep.violation(f"{P}.{rule}", f"{rel}:Module.load_options", text,
                              f"after save/load `{o.name}` reads back as {got.show(9)}"
                              + (f" — it depends on the value of {others}" if others else " — not the bits that were written for it"),
                              f"{rel}:{rloop.lineno}")
            elif lb[1] != size:
                rep.violation(f"{P}.{rule}", f"{rel}:Module.load_options", text,
                              f"only {lb[1]} of the {size} declared bit(s) of `{o.name}` survive save/load", f"{rel}:{rloop.lineno}")
            else:
                rep.ok(f"{P}.{rule}", ocon, text, f"read-back = {o.name}[0..{size - 1}], independent of the other options")
                if len(rep.samples) < 5 and size > 1:
                    rep.sample({"option": text, "options_byte": written[_int(o, "byte")].show(8), "read_back": got.show(size + 1)})
    rep.count(f"{rule}.option_instances", n_inst, 49)


# ------------------------------------------------------------------------------------ R3
def record_length(repo: Repo, rep, P: str):
    mod = repo.cls("Module", module="rv.modules.module")
    wfn = repo.own_method(mod, "options_chunks")
    rfn = repo.own_method(mod, "load_options")
    rel = mod.file.rel
    from .. import alg, packed
    wcon, rcon = f"{rel}:Module.options_chunks", f"{rel}:Module.load_options"
    wloop = _loop_over_options(wfn)
    ovar = wloop.target.id if wloop is not None else "option"
    # (a) the record length: L = max(L, option.byte + 1) inside the loop, L = 0 before it
    length_var = None
    verdict = None
    for n in (ast.walk(wloop) if wloop is not None else []):
        if isinstance(n, ast.Assign) and len(n.targets) == 1 and isinstance(n.targets[0], ast.Name) and isinstance(n.value, ast.Call) \
                and norm(n.value.func) == "max" and len(n.value.args) == 2:
            v = n.targets[0].id
            others = [a for a in n.value.args if norm(a) != v]
            if len(others) == 1 and any(norm(a) == v for a in n.value.args):
                length_var = v
                try:
                    p = alg.to_poly(others[0], lambda e: alg.Poly.sym("byte") if norm(e) == f"{ovar}.byte" else None)
                    verdict = (p == alg.Poly.sym("byte") + 1, norm(n))
                except alg.NotAlgebraic:
                    verdict = (None, norm(n))
    if length_var is None or verdict is None or verdict[0] is None:
        rep.inconclusive(f"{P}.R3", wcon, verdict[1] if verdict else "", "computation of the record length not recognised", f"{rel}:{wfn.lineno}")
    elif not verdict[0]:
        rep.violation(f"{P}.R3", wcon, verdict[1],
                      "the options record must be max(option.byte) + 1 bytes long (highest option byte included)", f"{rel}:{wfn.lineno}")
    else:
        init = [n for n in wfn.body if isinstance(n, ast.Assign) and norm(n.targets[0]) == length_var]
        ok0 = bool(init) and isinstance(init[0].value, ast.Constant) and init[0].value.value == 0
        payload = packed.find_yield(wfn, b"CHDT")
        ptxt = norm(payload) if payload is not None else ""
        uses = payload is not None and any(isinstance(x, ast.Subscript) and isinstance(x.slice, ast.Slice) and x.slice.lower is None
                                           and x.slice.upper is not None and norm(x.slice.upper) == length_var for x in ast.walk(payload))
        if ok0 and uses:
            rep.ok(f"{P}.R3", wcon, f"{verdict[1]}; CHDT = {ptxt}", "the record covers the highest option byte")
        elif payload is None:
            rep.violation(f"{P}.R3", wcon, "yield b'CHDT', ...", "the options record is no longer written", f"{rel}:{wfn.lineno}")
        else:
            rep.inconclusive(f"{P}.R3", wcon, f"{length_var} init {norm(init[0]) if init else '?'}; CHDT = {ptxt}",
                             "the written slice is not bytemap[:length] with length starting at 0", f"{rel}:{wfn.lineno}")
    # (b) reader pads short records
    rs = norm(rfn)
    padded = ("while len(bytemap) < 64:" in rs and "bytemap.append(0)" in rs) or ".ljust(64" in rs or "[0] * (64 - len(" in rs
    if padded:
        rep.ok(f"{P}.R3", rcon, "pad to 64 bytes", "short records read as zeros")
    else:
        rep.inconclusive(f"{P}.R3", rcon, rs[:160], "padding of short option records to 64 bytes not recognised", f"{rel}:{rfn.lineno}")
    # (c) chunk number
    cp = packed.find_yield(wfn, b"CHNM")
    if cp is not None:
        cp = packed.subst_locals(wfn, cp)
    if cp is not None and isinstance(cp, ast.Call) and len(cp.args) == 2 and norm(cp.args[1]) == "self.options_chnm":
        rep.ok(f"{P}.R3", wcon, "CHNM = options_chnm", nontrivial=False)
    else:
        rep.violation(f"{P}.R3", wcon, norm(cp) if cp is not None else "no CHNM", "options must be written under options_chnm", f"{rel}:{wfn.lineno}")
    for ci, opts in option_classes(repo):
        con = f"{ci.file.rel}:{ci.qualname}"
        try:
            chnk = class_const(repo, ci, "chnk")
            oc = class_const(repo, ci, "options_chnm")
        except (AnchorMissing, NotConst):
            rep.violation(f"{P}.R3", con, "chnk / options_chnm", f"{ci.name} has options but no constant chnk/options_chnm "
                          "(the options chunk is only written under `if module.chnk`)", ci.file.rel)
            continue
        if not chnk:
            rep.violation(f"{P}.R3", con, f"chnk = {chnk!r}", f"{ci.name} has options but a falsy chnk: its options are never written", ci.file.rel)
        elif not (oc < chnk):
            rep.violation(f"{P}.R3", con, f"options_chnm = {oc}, chnk = {chnk}", "options chunk number must be below the CHNK count", ci.file.rel)
        else:
            rep.ok(f"{P}.R3", con, f"options_chnm {oc} < chnk {chnk}")


# ------------------------------------------------------------------------------------ R4
def descriptor_algebra(repo: Repo, rep, P: str):
    opt = repo.cls("Option", module="rv.option")
    rel = opt.file.rel
    g, s = repo.own_method(opt, "__get__"), repo.own_method(opt, "__set__")
    rep.func("rv.option.Option.__get__ / __set__")
    gs, ss = norm(g), norm(s)
    # getter: inverted → not value
    if "if self.inverted:" in gs and "return not value" in gs and "value = instance.option_values[self.name]" in gs:
        rep.ok(f"{P}.R4", f"{rel}:Option.__get__", "inverted → not stored", "presents the logical value")
    else:
        rep.violation(f"{P}.R4", f"{rel}:Option.__get__", gs[:200], "inverted options must present `not stored`", f"{rel}:{g.lineno}")
    # setter structure
    vparam = [a.arg for a in s.args.args if a.arg not in ("self",)][1]
    clamp_ok = f"{vparam} = max(self.min, min(self.max, {vparam}))" in ss
    if clamp_ok:
        rep.ok(f"{P}.R4", f"{rel}:Option.__set__", "value = max(self.min, min(self.max, value))", "bounded options are clamped into [min, max]")
    else:
        rep.violation(f"{P}.R4", f"{rel}:Option.__set__", ss[:200], "bounded options must be clamped with max(min, min(max, value))", f"{rel}:{s.lineno}")
    first_if = next((st for st in s.body if isinstance(st, ast.If)), None)
    guard_ok = first_if is not None and norm(first_if.test) in ("None not in {self.min, self.max}", "self.min is not None and self.max is not None")
    if guard_ok:
        rep.ok(f"{P}.R4", f"{rel}:Option.__set__", norm(first_if.test), "clamp taken whenever both bounds are declared (0 is a bound)")
    else:
        rep.violation(f"{P}.R4", f"{rel}:Option.__set__", norm(first_if.test) if first_if else "",
                      "the clamp must be taken whenever both bounds are declared, including a bound of 0", f"{rel}:{s.lineno}")
    inv_store = "if self.inverted:" in ss and f"{vparam} = not {vparam}" in ss and f"{vparam} = bool({vparam})" in ss
    if inv_store:
        rep.ok(f"{P}.R4", f"{rel}:Option.__set__", "size == 1: value = bool(value); inverted: value = not value",
               "get(set(b)) = not(not b) = b for inverted flags")
    else:
        rep.violation(f"{P}.R4", f"{rel}:Option.__set__", ss[:240], "inverted flags must be stored negated (and presented negated)", f"{rel}:{s.lineno}")
    if f"instance.option_values[self.name] = {vparam}" in ss:
        rep.ok(f"{P}.R4", f"{rel}:Option.__set__", "instance.option_values[self.name] = value", nontrivial=False)
    else:
        rep.violation(f"{P}.R4", f"{rel}:Option.__set__", ss[:200], "the value must be stored under the option's own name", f"{rel}:{s.lineno}")
    excl = "for other in self.exclusive_of:" in ss and "instance.option_values[other] = False" in ss
    if excl:
        rep.ok(f"{P}.R4", f"{rel}:Option.__set__", "for other in self.exclusive_of: option_values[other] = False", "exclusive partners are switched off")
    else:
        rep.violation(f"{P}.R4", f"{rel}:Option.__set__", ss[:240], "mutually exclusive options must be switched off when one is set", f"{rel}:{s.lineno}")
    setter_per_option(repo, rep, P, s)
    seeding_rule(repo, rep, P)
    # per option declarations
    for ci, opts in option_classes(repo):
        names = {o.name: o for o in opts}
        for o in opts:
            con = f"{o.owner.file.rel}:{o.owner.qualname}.{o.name}"
            where = f"{o.owner.file.rel}:{o.node.lineno}"
            size = _int(o, "size")
            mn, mx = o.get("min"), o.get("max")
            inv = bool(o.get("inverted"))
            if (mn is not None or mx is not None):
                if inv:
                    rep.violation(f"{P}.R4", con, "min/max and inverted", "an option cannot be both bounded and inverted", where)
                if mn is None or mx is None or not (0 <= mn <= mx) or (size is not None and mx > 2**size - 1):
                    rep.violation(f"{P}.R4", con, f"min={mn} max={mx} size={size}", "declared bounds do not fit the option's bit field", where)
                else:
                    rep.ok(f"{P}.R4", con, f"[{mn}, {mx}] ⊆ [0, {2**size - 1}]", "bounds fit the field")
            if inv and size != 1:
                rep.violation(f"{P}.R4", con, f"inverted with size={size}", "only one-bit options can be inverted", where)
            for other in o.get("exclusive_of") or []:
                t = names.get(other)
                if t is None:
                    rep.violation(f"{P}.R4", con, f"exclusive_of={other!r}", "exclusive partner does not exist on this class", where)
                elif _int(t, "size") != 1 or t.get("inverted") or size != 1 or inv:
                    rep.violation(f"{P}.R4", con, f"exclusive_of={other!r}",
                                  "exclusive partners must be plain one-bit flags (storing False must mean logically off)", where)
                elif o.name not in (t.get("exclusive_of") or []):
                    rep.violation(f"{P}.R4", con, f"exclusive_of={other!r}", f"`{other}` does not list `{o.name}` back: the pair can end up both on", where)
                else:
                    rep.ok(f"{P}.R4", con, f"exclusive_of {other}", "symmetric pair of plain flags")
            d = o.get("default")
            dv = d[3] if isinstance(d, tuple) and d and d[0] == "enum" else d
            if isinstance(dv, bool):
                dv = int(dv)
            if isinstance(dv, int) and size is not None and not (0 <= dv <= 2**size - 1):
                rep.violation(f"{P}.R4", con, f"default={d!r} size={size}", "default does not fit the bit field", where)


def setter_per_option(repo: Repo, rep, P: str, s: ast.FunctionDef):
    """Instantiate Option.__set__ with each option's constants: what is stored as a function of the assigned value."""
    opt = repo.cls("Option", module="rv.option")
    rel = opt.file.rel
    vparam = [a.arg for a in s.args.args if a.arg not in ("self",)][1]
    # statements up to (and excluding) the store
    pre = []
    for st in stmts_of(s):
        if isinstance(st, ast.Assign) and any(isinstance(t, ast.Subscript) and "option_values" in norm(t) for t in st.targets):
            break
        pre.append(st)
    seen = set()
    n = 0
    for ci, opts in option_classes(repo):
        for o in opts:
            consts = {"min": o.get("min"), "max": o.get("max"), "size": _int(o, "size"), "inverted": bool(o.get("inverted")),
                      "name": o.name, "exclusive_of": list(o.get("exclusive_of") or [])}
            key = (consts["min"], consts["max"], consts["size"], consts["inverted"])
            if key in seen:
                continue
            seen.add(key)
            n += 1
            try:
                body = [_Inst("self", consts).visit(copy.deepcopy(x)) for x in pre]
                for x in body:
                    ast.fix_missing_locations(x)
                flat = _static_flatten(repo, body)
            except Unsupported as e:
                rep.inconclusive(f"{P}.R4", f"{rel}:Option.__set__", f"{o.name}: {e}", "setter not reducible for this option", f"{rel}:{s.lineno}")
                continue
            steps = [norm(x).replace(" ", "") for x in flat if isinstance(x, ast.Assign) and norm(x.targets[0]) == vparam]
            others = [norm(x) for x in flat if not (isinstance(x, ast.Assign) and norm(x.targets[0]) == vparam)]
            size, mn, mx, inv = consts["size"], consts["min"], consts["max"], consts["inverted"]
            if mn is not None and mx is not None:
                want = [[f"{vparam}=max({mn},min({mx},{vparam}))"]]
                what = f"clamped into [{mn}, {mx}]"
            elif size == 1:
                want = [[f"{vparam}=bool({vparam})"] + ([f"{vparam}=not{vparam}"] if inv else [])]
                what = "bool()" + (" then negated (stored form of an inverted flag)" if inv else "")
            else:
                want = [[]]
                what = "stored unchanged"
            text = f"[size={size} min={mn} max={mx} inverted={inv}] e.g. {ci.name}.{o.name}: {'; '.join(steps) or '(no transformation)'}"
            ok = steps in want
            if not ok and mn is None and size and size > 1 and len(steps) == 1:
                # a clamp to the full field [0, 2**size − 1] is harmless
                import re
                m = re.match(rf"^{vparam}=max\(0,min\((.+),{vparam}\)\)$", steps[0])
                if m:
                    try:
                        hi = repo.fold(ast.parse(m.group(1), mode="eval").body)
                        ok = hi == 2 ** size - 1
                        if not ok:
                            rep.violation(f"{P}.R4", f"{rel}:Option.__set__", text,
                                          f"a {size}-bit option is clamped to [0, {hi}] although its field holds 0..{2 ** size - 1}: "
                                          f"the representable value(s) above {hi} cannot be set", f"{rel}:{s.lineno}")
                            continue
                    except (NotConst, SyntaxError):
                        pass
            if ok and not others:
                rep.ok(f"{P}.R4", f"{rel}:Option.__set__", text, what)
            else:
                rep.violation(f"{P}.R4", f"{rel}:Option.__set__", text + (f"; also: {others[:2]}" if others else ""),
                              f"for this kind of option the assigned value must be {what}; the setter does something else before storing it",
                              f"{rel}:{s.lineno}")
    rep.count("option_setter_kinds", n, 4)


def seeding_rule(repo: Repo, rep, P: str):
    """Module.__init__ seeds every option through its descriptor (so inverted defaults are stored inverted)."""
    mod = repo.cls("Module", module="rv.modules.module")
    init = repo.own_method(mod, "__init__")
    rel = mod.file.rel
    loops = [st for st in init.body if isinstance(st, ast.For) and norm(st.iter) in ("self.options.items()", "self.options.values()", "self.options")]
    direct = [n for st in loops for n in ast.walk(st) if isinstance(n, ast.Assign)
              and any(isinstance(t, ast.Subscript) and norm(t.value) == "self.option_values" for t in n.targets)]
    good = [st for st in loops if norm(ast.Module(body=st.body, type_ignores=[])).replace(" ", "").replace("\n", ";")
            in ("v=kw.get(k,option.default);setattr(self,k,v)", "setattr(self,k,kw.get(k,option.default))")]
    src = norm(init)
    if direct:
        rep.violation(f"{P}.R4", f"{rel}:Module.__init__", norm(direct[0]),
                      "option defaults are written straight into option_values, bypassing the Option descriptor: the default of an "
                      "inverted option is stored un-inverted (it reads back as the opposite of its declared default) and bounds/"
                      "exclusivity are not applied", f"{rel}:{direct[0].lineno}")
    elif good and "self.option_values = {}" in src:
        rep.ok(f"{P}.R4", f"{rel}:Module.__init__", "for k, option in self.options.items(): setattr(self, k, kw.get(k, option.default))",
               "defaults and keywords go through the descriptor")
    else:
        rep.violation(f"{P}.R4", f"{rel}:Module.__init__", "option seeding loop",
                      "every option must be seeded with setattr(self, name, keyword-or-default) so that the descriptor applies", f"{rel}:{init.lineno}")


# ------------------------------------------------------------------------------------ R5
def spec_bounds(repo: Repo, rep, P: str):
    dis, counts, _ = specdiff.diff_all(repo)
    n = 0
    for d in dis:
        if d.category == "option":
            n += 1
            rep.violation(f"{P}.R5", d.construct, f"{d.mtype}.{d.path}",
                          f"option metadata differs from the specification: spec {d.expected!r}, class {d.actual!r}", d.where)
    if n == 0:
        rep.ok(f"{P}.R5", "rv/modules/base/*.py", f"{counts['options']} options", "every declared byte/bit/size/bound/inversion/exclusivity equals the YAML")
    rep.count("options_compared_with_spec", counts["options"], 49)
