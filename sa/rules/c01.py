"""C01 — project save/load round trip preserves the whole project (codec-table clauses)."""

from __future__ import annotations

import ast
from typing import Any, Dict, List, Optional, Tuple

from .. import codec, docs, links, parity
from ..cfg import CFG
from .. import shape
from ..model import AnchorMissing, NotConst, Repo, attr_chain, norm, walk_no_nested
from . import c12

LEVEL = "other"
EXPLANATION = (
    "writer↔reader codec-table agreement for the project file: every chunk the project writer can emit has a "
    "handler in the reader that is active at that point of the stream, with the same payload shape, struct "
    "format (byte order, widths, count; signedness only where the YAML bounds make both encodings coincide) "
    "and the same attribute on both sides; every handler has a writer row; packed words SFGS/SMII decided in "
    "the bit domain; omission guards agree with the reader-side default; byte-sliced UTF-8 is never handed to a "
    "strict decoder; every pattern/module slot path ends in PEND/SEND; Container.clone is write-then-read. "
    "For scalar pack/unpack pairs with equal formats this is sufficient per field; value equality for arbitrary "
    "projects as a whole is not decided."
)
DECLINED = [
    "equality of values for arbitrary projects taken as a whole (decided per field/table row only)",
    "patterns whose lines/tracks were changed after their data was materialised",
]
ASSUMPTIONS = ["struct.pack/unpack with equal format strings are mutually inverse on the format's domain"]


def shape_params(fn):
    return [a.arg for a in fn.args.args if a.arg != "self"]


def run(repo: Repo, rep, tier: str):
    spec = docs.load_spec(repo)
    sc = docs.spec_chunks(spec)
    secs = parity.sections(repo)
    n_w = n_r = 0
    for name in ("project", "module", "pattern", "clone"):
        sec = secs[name]
        rep.func(f"{sec.reader_cls.fq} ↔ writer[{name}]")
        parity.check_section(repo, rep, "C01", sec, sc)
        n_w += len([w for w in sec.writer if w.kind == "chunk" or (w.kind == "magic" and w.cid in ("PEND", "SEND"))])
        n_r += len(sec.reader)
    rep.count("writer_rows", n_w, 68)
    rep.count("reader_handlers", n_r, 75)
    structural_handlers(repo, rep, "C01", secs)
    c12.pack_pairs(repo, rep, "C01", "R3")
    c12.note_raw_data(repo, rep, "C01")          # identical note cells: cell codec and row-major image (shared with C12)
    c12.pattern_raw_data(repo, rep, "C01")
    omission_defaults(repo, rep, "C01", secs)
    truncation_rule(repo, rep, "C01", secs)
    none_safety(repo, rep, "C01", secs)
    slot_terminators(repo, rep, "C01")
    clone_rule(repo, rep, "C01")
    # controller values and MIDI bindings: one positional entry per attached controller on both sides
    from . import c02
    c02.sibling_writers(repo, rep, "C01")
    from . import c11
    c11.pack_unpack(repo, rep, "C01", "R10")       # options record: options_chunks ∘ load_options per option (shared with C11)
    # modules built through the API own their payload tables (a table shared with a sibling module is saved with the sibling's edits)
    from . import c17
    c17.array_chunk_defaults_rule(repo, rep, "C01", "R9", floor=4)
    rep.sample({"section": "project", "rows": [f"{w.cid}:{w.payload.shape}:{w.payload.fmt.show() if w.payload.fmt else ''}:{w.payload.src}"
                                                for w in secs["project"].writer if w.kind == "chunk"][:8]})


# ----------------------------------------------------------------------------- structural handlers
def structural_handlers(repo: Repo, rep, P: str, secs):
    """Fields whose agreement is not a single pack/unpack row: PDTA→PEND, PPAR, SLNK/SLnK, STYP, CHNM.."""
    # PDTA deferred to PEND
    pr = secs["pattern"].reader
    pdta, pend = pr.get("PDTA"), pr.get("PEND")
    rel = secs["pattern"].reader_cls.file.rel
    if pdta is None or pend is None:
        raise AnchorMissing("PatternReader.process_PDTA/PEND")
    stash = [s for s in pdta.stmts if s.replace(" ", "") == "self._raw_data=data"]
    creates = [s for s in pdta.stmts if s.replace(" ", "") == "self.object=Pattern()"]
    apply_ = [s for s in pend.stmts if s.replace(" ", "") == "self.object.raw_data=self._raw_data"]
    if stash and creates and apply_:
        rep.ok(f"{P}.R2", f"{rel}:PatternReader.process_PDTA/PEND", "self._raw_data = data … self.object.raw_data = self._raw_data",
               "PDTA bytes are applied to raw_data once tracks/lines are known")
    else:
        rep.violation(f"{P}.R2", f"{rel}:PatternReader.process_PDTA/PEND", "; ".join(pdta.stmts + pend.stmts)[:200],
                      "pattern note data (PDTA) is no longer stored and applied to Pattern.raw_data at PEND", pdta.where)
    # the pattern writer reads raw_data
    pw = [w for w in secs["pattern"].writer if w.cid == "PDTA"]
    if pw and pw[0].payload.src == ["self.raw_data"]:
        rep.ok(f"{P}.R2", f"{pw[0].rel}:{pw[0].fn}[PDTA]", "yield b'PDTA', self.raw_data")
    else:
        rep.violation(f"{P}.R2", f"src/python/rv/pattern.py:Pattern.iff_chunks[PDTA]", pw[0].payload.text if pw else "missing",
                      "PDTA must carry Pattern.raw_data", pw[0].where if pw else "")
    # tracks/lines must be read before PEND applies the data: PCHN, PLIN handlers write tracks/lines
    for cid, attr in (("PCHN", "tracks"), ("PLIN", "lines")):
        r = pr.get(cid)
        if r is None or r.targets != [attr]:
            rep.violation(f"{P}.R2", f"{rel}:PatternReader.process_{cid}", str(r.targets if r else None),
                          f"{cid} must load Pattern.{attr} (the data layout at PEND depends on it)", r.where if r else "")
    # PPAR: PatternClone(source=source)
    pc = secs["clone"].reader.get("PPAR")
    if pc is not None and any(shape.keyword(c, "source") is not None or c.args for c in shape.calls_to(pc.node, "PatternClone")):
        rep.ok(f"{P}.R2", f"{pc.rel}:PatternCloneReader.process_PPAR", "PatternClone(source=source)")
    else:
        rep.violation(f"{P}.R2", f"{secs['clone'].reader_cls.file.rel}:PatternCloneReader.process_PPAR",
                      "; ".join(pc.stmts) if pc else "missing", "PPAR must construct the clone with the stored source index",
                      pc.where if pc else "")
    # SLNK / SLnK: handlers extend the same table the writer packs
    mr = secs["module"].reader
    mrc = secs["module"].reader_cls
    for cid, table in (("SLNK", "in_links"), ("SLnK", "in_link_slots")):
        w = [x for x in secs["module"].writer if x.cid == cid and x.payload.shape == "pack"]
        r = mr.get(cid)
        if not w or r is None:
            continue   # reported by R1
        wsrc = [parity.last(s) for s in w[0].payload.src]
        muts = links.function_muts(r.node)
        rt = sorted({m.table for m in muts if m.kind in ("extend", "append")})
        if wsrc == [table] and rt == [table]:
            rep.ok(f"{P}.R2", f"{r.rel}:{r.cls}.process_{cid}", f"{cid}: {table}", "written from and extended into the same table")
        elif not rt and any(isinstance(c_, ast.Call) and any(norm(a_).endswith(f".{table}") or norm(a_) == (shape_params(r.node) or ["data"])[0]
                                                             for a_ in c_.args) and not norm(c_.func).endswith(("unpack", ".extend", ".append", "len"))
                            for c_ in ast.walk(r.node)):
            # the table / the payload is handed to a function that was not read through
            rep.inconclusive(f"{P}.R2", f"{r.rel}:{r.cls}.process_{cid}", f"{cid}: written from {wsrc}; the reader hands the table to a call that is not read through",
                             f"where {cid} is stored is not recognised", r.where)
        else:
            rep.violation(f"{P}.R2", f"{r.rel}:{r.cls}.process_{cid}", f"{cid}: written from {wsrc}, read into {rt}",
                          f"{cid} must carry Module.{table} on both sides", r.where)
    # STYP: class looked up by the decoded type name; flags/name carried over
    styp = mr.get("STYP")
    if styp is not None:
        src = " ".join(styp.stmts)
        missing = []
        if not any(isinstance(n, ast.Subscript) and norm(n.value).split(".")[-1] == "MODULE_CLASSES" for n in ast.walk(styp.node)):
            missing.append("MODULE_CLASSES[<type name>]")
        installs = [n for n in ast.walk(styp.node) if isinstance(n, ast.Assign) and any(norm(t) == "self._object" for t in n.targets)]
        newv = norm(installs[-1].value) if installs else None
        if newv is None:
            missing.append("self._object = <new module>")
        carried = {}
        for fld in ("name", "flags"):
            carried[fld] = any(any(isinstance(t, ast.Attribute) and t.attr == fld and norm(t.value) == newv for t in n.targets)
                               and f"self.object.{fld}" in norm(n.value) for n in ast.walk(styp.node) if isinstance(n, ast.Assign)) or \
                any(shape.keyword(c, fld) is not None and f"self.object.{fld}" in norm(shape.keyword(c, fld)) for c in shape.calls(styp.node))
            if not carried[fld]:
                missing.append(f"<new module>.{fld} = self.object.{fld}")
        if not missing:
            rep.ok(f"{P}.R2", f"{styp.rel}:{styp.cls}.process_STYP", "cls = MODULE_CLASSES[mtype]; flags/name carried over")
        else:
            rep.violation(f"{P}.R2", f"{styp.rel}:{styp.cls}.process_STYP", src[:200],
                          f"STYP handler no longer builds the module from the registry and carries flags/name over (missing {missing})",
                          styp.where)
    # Chunk record: CHNM/CHDT/CHFF/CHFR -> _current_chunk.<same field>
    for cid in ("CHNM", "CHDT", "CHFF", "CHFR"):
        r = mr.get(cid)
        if r is None:
            continue
        want = f"._current_chunk.{cid.lower()}"
        import re as _re
        # the reader's private attribute that holds the block being collected, whatever it is called
        if want in r.targets or any(_re.match(rf"^\._\w+\.{cid.lower()}$", t) for t in r.targets):
            rep.ok(f"{P}.R2", f"{r.rel}:{r.cls}.process_{cid}", f"{cid} → _current_chunk.{cid.lower()}")
        else:
            rep.violation(f"{P}.R2", f"{r.rel}:{r.cls}.process_{cid}", f"{cid} → {r.targets}",
                          f"{cid} must be stored in the current chunk's {cid.lower()} field", r.where)
    # project-level dispatch into section readers
    sv = secs["project"].reader
    for cid, reader in (("PDTA", "PatternReader"), ("PPAR", "PatternCloneReader"), ("SFFF", "ModuleReader")):
        r = sv.get(cid)
        src = " ".join(r.stmts) if r else ""
        if r is not None and any(c.args and norm(c.args[0]) == (shape.params(r.node) or ["data"])[0] for c in shape.calls_to(r.node, "rewind")) \
                and any(c.args and norm(c.args[0]) == "self.f" for c in shape.calls_to(r.node, reader)):
            rep.ok(f"{P}.R1", f"{r.rel}:{r.cls}.process_{cid}", f"rewind; {reader}(self.f…)", "section reader re-reads the opening chunk")
        else:
            rep.violation(f"{P}.R1", f"{secs['project'].reader_cls.file.rel}:SunVoxReader.process_{cid}", src[:160],
                          f"{cid} must rewind and hand the stream to {reader}", r.where if r else "")
    from ..packed import single_defs, resolve_names
    for cid, call in (("PDTA", "attach_pattern(pattern)"), ("PPAR", "attach_pattern(pattern)"), ("PEND", "attach_pattern(None)")):
        r = sv.get(cid)
        attached_ok = False
        if r is not None:
            hdefs = single_defs(r.node)
            for c in shape.calls_to(r.node, "attach_pattern"):
                if len(c.args) != 1:
                    continue
                a = resolve_names(c.args[0], hdefs)
                if cid == "PEND":
                    attached_ok = attached_ok or (isinstance(a, ast.Constant) and a.value is None)
                else:
                    # the object of the section reader that was handed the stream
                    want_reader = "PatternReader" if cid == "PDTA" else "PatternCloneReader"
                    attached_ok = attached_ok or (isinstance(a, ast.Attribute) and a.attr == "object" and isinstance(a.value, ast.Call)
                                                  and norm(a.value.func).split(".")[-1] == want_reader)
        if not attached_ok:
            rep.violation(f"{P}.R1", f"{secs['project'].reader_cls.file.rel}:SunVoxReader.process_{cid}",
                          "; ".join(r.stmts) if r else "missing", f"{cid} must end in {call}", r.where if r else "")
        else:
            rep.ok(f"{P}.R1", f"{r.rel}:{r.cls}.process_{cid}", call)


# ----------------------------------------------------------------------------- R4 omission ↔ default
STRUCTURAL_GUARDS = [
    ("in_project", "context switch: position/layer/visualization are not part of a stand-alone synth"),
    ("module is not None", "empty slot"), ("pattern is not None", "empty slot"),
    ("module is None", "empty slot: terminator only"), ("pattern is None", "empty slot: terminator only"),
    ("len(module.in_links) > 0", "an empty SLNK is written in the else branch"),
    ("not (len(module.in_links) > 0)", "else branch of the SLNK emission"),
    ("module.in_links", "an empty SLNK is written in the else branch"), ("not module.in_links", "else branch of the SLNK emission"),
    ("module.chnk", "decided by C02 R7 / C03 R5"), ("self.module.chnk", "decided by C02"),
    ("ctl.attached(self.module)", "controller attach filter (C02 R2)"),
]


def _is_attach_filter(gd: str) -> bool:
    """The guard is the list of attached controllers itself (`[n for n, c in module.controllers.items() if c.attached(module)]`):
    CVAL/CMID are emitted for attached controllers only — decided by C02 R2."""
    try:
        e = ast.parse(gd, mode="eval").body
    except SyntaxError:
        return False
    while (isinstance(e, ast.UnaryOp) and isinstance(e.op, ast.Not)) or \
            (isinstance(e, ast.Call) and norm(e.func) in ("tuple", "list", "bool", "len") and len(e.args) == 1):
        e = e.operand if isinstance(e, ast.UnaryOp) else e.args[0]
    if isinstance(e, (ast.ListComp, ast.GeneratorExp)) and len(e.generators) == 1:
        g = e.generators[0]
        return norm(g.iter).endswith(".controllers.items()") and len(g.ifs) == 1 and isinstance(g.ifs[0], ast.Call) \
            and isinstance(g.ifs[0].func, ast.Attribute) and g.ifs[0].func.attr == "attached"
    return False


def _is_context_switch(gd: str) -> bool:
    """A guard over the writing context only: built from the `in_project` argument and `self.parent` (its default), e.g.
    `self.parent is not None if in_project is None else in_project`."""
    try:
        e = ast.parse(gd, mode="eval").body
    except SyntaxError:
        return False
    names = {n.id for n in ast.walk(e) if isinstance(n, ast.Name)}
    attrs = {norm(n) for n in ast.walk(e) if isinstance(n, ast.Attribute)}
    calls = [n for n in ast.walk(e) if isinstance(n, ast.Call)]
    return "in_project" in names and names <= {"in_project", "self"} and attrs <= {"self.parent"} and not calls


def omission_defaults(repo: Repo, rep, P: str, secs):
    owners = {
        "project": repo.cls("Project", module="rv.project"),
        "module": repo.cls("Module", module="rv.modules.module"),
        "pattern": repo.cls("Pattern", module="rv.pattern"),
        "clone": repo.cls("PatternClone", module="rv.pattern"),
    }
    n = 0
    for name, owner in owners.items():
        defaults = parity.ctor_defaults(repo, owner)
        for w in secs[name].writer:
            if w.kind != "chunk" or not w.guards:
                continue
            for gd in w.guards:
                from ..guards import canon_text
                cg = canon_text(gd)
                if any(cg == canon_text(s) for s, _ in STRUCTURAL_GUARDS) or _is_attach_filter(gd) or _is_context_switch(gd):
                    continue
                n += 1
                wcon = f"{w.rel}:{w.fn}[{w.cid}]"
                try:
                    ge = ast.parse(gd, mode="eval").body
                except SyntaxError:
                    rep.inconclusive(f"{P}.R4", wcon, gd, "guard not parseable", w.where)
                    continue
                _one_guard(repo, rep, P, wcon, w, ge, gd, defaults, secs, name)
    rep.count("conditional_emissions", n, 6)


def _attr_of(e: ast.AST) -> Optional[str]:
    ch = attr_chain(e)
    if ch and ch[0] in ("self", "module") and len(ch) == 2:
        return ch[1]
    return None


def _with_named_sets(repo: Repo, rel: str, e: ast.expr) -> ast.expr:
    """Module-level names bound to a constant set / tuple (`_IMPLICIT_SLOTS = frozenset({-1, 0})`) written out."""
    import copy
    from .. import inline
    sf = repo.files.get(rel)

    class X(ast.NodeTransformer):
        def visit_Name(self, node):
            if isinstance(node.ctx, ast.Load) and sf is not None and node.id.upper() == node.id:
                d = inline.definition_of(repo, None, sf, node)
                inner = d.args[0] if isinstance(d, ast.Call) and norm(d.func) in ("set", "frozenset", "tuple") and len(d.args) == 1 else d
                if isinstance(inner, (ast.Set, ast.Tuple, ast.List)) and all(isinstance(x, (ast.Constant, ast.UnaryOp)) for x in inner.elts):
                    return copy.deepcopy(d)
            return node

        def visit_Attribute(self, node):
            # self._IMPLICIT_SLOTS / cls._IMPLICIT_SLOTS: a class-level constant set of the file's classes (bound once)
            if isinstance(node.ctx, ast.Load) and isinstance(node.value, ast.Name) and node.value.id in ("self", "cls") and sf is not None \
                    and node.attr.upper() == node.attr and any(c.isalpha() for c in node.attr):
                owners = [k for k in repo.all_classes() if k.file is sf and node.attr in k.assigns]
                if len(owners) == 1:
                    d = owners[0].assigns[node.attr]
                    inner = d.args[0] if isinstance(d, ast.Call) and norm(d.func) in ("set", "frozenset", "tuple") and len(d.args) == 1 else d
                    if isinstance(inner, (ast.Set, ast.Tuple, ast.List)) and all(isinstance(x, (ast.Constant, ast.UnaryOp)) for x in inner.elts):
                        return copy.deepcopy(d)
            return self.generic_visit(node)
    return X().visit(copy.deepcopy(e))


def _simplify_guard(ge: ast.expr) -> ast.expr:
    """not (a == b) is a != b;  not (not x) is x."""
    while isinstance(ge, ast.UnaryOp) and isinstance(ge.op, ast.Not):
        inner = ge.operand
        if isinstance(inner, ast.UnaryOp) and isinstance(inner.op, ast.Not):
            ge = inner.operand
            continue
        if isinstance(inner, ast.Compare) and len(inner.ops) == 1:
            flip = {ast.Eq: ast.NotEq, ast.NotEq: ast.Eq, ast.Is: ast.IsNot, ast.IsNot: ast.Is, ast.Lt: ast.GtE, ast.GtE: ast.Lt, ast.Gt: ast.LtE, ast.LtE: ast.Gt}
            op = flip.get(type(inner.ops[0]))
            if op is not None:
                return ast.Compare(left=inner.left, ops=[op()], comparators=inner.comparators)
        break
    return ge


def _one_guard(repo, rep, P, wcon, w, ge, gd, defaults, secs, secname):
    ge = _simplify_guard(_with_named_sets(repo, w.rel, ge))
    # SLnK: reader reconstructs missing slots at end of file
    if w.cid == "SLnK":
        sv = secs["project"].reader_cls
        eof = sv.methods.get("process_end_of_file")
        from .. import inline
        src = norm(inline.normalize(repo, sv, eof, aliases=True)) if eof else ""
        eofn = inline.normalize(repo, sv, eof, aliases=True) if eof else None
        if eofn is not None and any(m.table == "in_link_slots" and m.kind in ("append", "extend", "setidx") for m in links.function_muts(eofn)):
            from ..guards import canon
            ok_guard = canon(ge) == "exists_notin(module.in_link_slots;[-1, 0])"
            if ok_guard:
                rep.ok(f"{P}.R4", wcon, gd, "omitted only when every slot is 0/-1; the reader rebuilds missing slots at end of file")
            else:
                rep.violation(f"{P}.R4", wcon, gd,
                              "SLnK may be omitted only when all slots are 0 or -1 (that is what the reader's rebuild pass can restore)",
                              w.where)
        else:
            rep.violation(f"{P}.R4", wcon, gd, "SLnK is conditionally omitted but the reader has no reconstruction pass", w.where)
        return
    if w.cid == "STYP":
        from ..guards import canon
        if canon(ge) == canon(ast.parse("self.mtype is not None and self.mtype != 'Output'", mode="eval").body):
            rep.ok(f"{P}.R4", wcon, gd, "omitted for Output only; the reader builds Output for position 0")
        else:
            rep.violation(f"{P}.R4", wcon, gd, "STYP may be omitted for the Output module only", w.where)
        return
    if w.cid in ("CHFF", "CHFR"):
        rep.ok(f"{P}.R4", wcon, gd, "raw chunk passthrough fields", nontrivial=False)
        return
    attr = None
    omitted_value: Any = "<none>"
    kind = None
    if isinstance(ge, ast.Compare) and len(ge.ops) == 1:
        attr = _attr_of(ge.left)
        try:
            c = repo.fold(ge.comparators[0])
        except NotConst:
            c = "<unknown>"
        if isinstance(ge.ops[0], ast.NotEq):
            kind, omitted_value = "neq", c
        elif isinstance(ge.ops[0], ast.IsNot) and c is None:
            kind, omitted_value = "isnot", None
        else:
            kind = "range"
    elif _attr_of(ge) is not None:
        attr, kind = _attr_of(ge), "truthy"
    if attr is None or kind is None:
        rep.inconclusive(f"{P}.R4", wcon, gd, "emission guard not of a recognised form", w.where)
        return
    if kind == "range":
        rep.violation(f"{P}.R4", wcon, gd,
                      f"{w.cid} is omitted for a whole range of values of `{attr}`; after loading, all of them read back as the "
                      "single default", w.where)
        return
    # guard must talk about the attribute that is written
    srcs = [parity.last(s) for s in w.payload.src]
    if attr not in srcs:
        rep.violation(f"{P}.R4", wcon, f"if {gd}: yield {w.cid} from {srcs}",
                      f"the emission guard tests `{attr}` but the chunk carries {srcs}", w.where)
        return
    d = defaults.get(attr, "<missing>")
    if d in ("<unknown>", "<missing>"):
        rep.inconclusive(f"{P}.R4", wcon, gd, f"reader-side default of `{attr}` not constant ({d})", w.where)
        return
    if kind == "truthy":
        if not d:
            rep.ok(f"{P}.R4", wcon, gd, f"omitted when falsy; fresh object holds {d!r}")
        else:
            rep.violation(f"{P}.R4", wcon, gd, f"omitted when falsy but a freshly loaded object holds {d!r}", w.where)
    else:
        if d == omitted_value and type(d) is type(omitted_value):
            rep.ok(f"{P}.R4", wcon, gd, f"omitted exactly when `{attr}` == {omitted_value!r} = the reader-side default")
        else:
            rep.violation(f"{P}.R4", wcon, gd,
                          f"{w.cid} is omitted when `{attr}` is {omitted_value!r}, but an object that never sees the chunk holds "
                          f"{d!r}: that value does not survive a round trip", w.where)


# ----------------------------------------------------------------------------- R5
def truncation_rule(repo: Repo, rep, P: str, secs, only_sections=("project", "module", "pattern")):
    n = 0
    for name in only_sections:
        for w in secs[name].writer:
            if w.kind != "chunk" or w.payload.shape not in ("cstring", "fixedstring"):
                continue
            n += 1
            r = secs[name].reader.get(w.cid)
            wcon = f"{w.rel}:{w.fn}[{w.cid}]"
            if w.payload.truncation:
                if r is not None and r.strict_decode:
                    rep.violation(f"{P}.R5", wcon, w.payload.text,
                                  f"{w.cid}: the UTF-8 bytes are cut at a byte offset ({w.payload.truncation}); a name whose "
                                  "encoding straddles the limit leaves a partial code point that the strict decoder in "
                                  f"{r.cls}.process_{w.cid} rejects — the saved file cannot be loaded again", w.where)
                else:
                    rep.ok(f"{P}.R5", wcon, w.payload.text, "byte-sliced, but the reader decodes leniently")
            else:
                rep.ok(f"{P}.R5", wcon, w.payload.text, "no raw byte-slice of encoded text reaches a strict decoder")
            if w.payload.shape == "fixedstring" and w.payload.length is not None:
                # truncation limit and padding width must agree
                txt = w.payload.text
                import re
                cuts = [int(x) for x in re.findall(r"\[:(\d+)\]", txt)]
                if cuts and any(c != w.payload.length for c in cuts):
                    rep.violation(f"{P}.R5", wcon, txt, f"truncation limit {cuts} and padding width {w.payload.length} differ", w.where)
    rep.count("text_fields", n, 5)


# ----------------------------------------------------------------------------- R8
def none_safety(repo: Repo, rep, P: str, secs):
    """An unguarded text field is encoded unconditionally: None must not be able to flow into it from library code."""
    owners = {"project": repo.cls("Project", module="rv.project"), "module": repo.cls("Module", module="rv.modules.module"),
              "pattern": repo.cls("Pattern", module="rv.pattern")}
    n = 0
    for secname, owner in owners.items():
        for w in secs[secname].writer:
            if w.kind != "chunk" or w.payload.shape not in ("cstring", "fixedstring", "text"):
                continue
            attr = next((parity.last(x) for x in w.payload.src), None)
            if attr is None:
                continue
            guarded = any(attr in gd for gd in w.guards)
            if guarded:
                continue
            n += 1
            wcon = f"{w.rel}:{w.fn}[{w.cid}]"
            init = owner.methods.get("__init__")
            assign = None
            if init is not None:
                for st in walk_no_nested(init):
                    if isinstance(st, ast.Assign) and any(norm(t) == f"self.{attr}" for t in st.targets):
                        assign = st
            from_kw = assign is not None and isinstance(assign.value, ast.Call) and norm(assign.value.func) in ("kw.get", "kwargs.get")
            none_filtered = False
            if init is not None:
                src = norm(init)
                none_filtered = f"{attr} is None" in src or f"{attr} is not None" in src or (assign is not None and " or " in norm(assign.value))
            if not from_kw or none_filtered:
                rep.ok(f"{P}.R8", wcon, f"self.{attr} = {norm(assign.value) if assign is not None else '(class default)'}",
                       "None cannot arrive through a constructor keyword" if not from_kw else "constructor replaces None by the default")
                continue
            # constructor takes the keyword verbatim: every library call site passing it must pass a non-None value
            bad = []
            for rel, sf in sorted(repo.files.items()):
                if not sf.modname.startswith("rv") or sf.modname.startswith("rv.tools"):
                    continue
                for fn in [x for x in ast.walk(sf.tree) if isinstance(x, (ast.FunctionDef, ast.AsyncFunctionDef))]:
                    defaults = {}
                    a = fn.args
                    pos = a.posonlyargs + a.args
                    for arg, d in zip(pos[len(pos) - len(a.defaults):], a.defaults):
                        defaults[arg.arg] = d
                    for arg, d in zip(a.kwonlyargs, a.kw_defaults):
                        if d is not None:
                            defaults[arg.arg] = d
                    for c in walk_no_nested(fn):
                        if isinstance(c, ast.Call):
                            for kw in c.keywords:
                                if kw.arg == attr:
                                    v = kw.value
                                    is_none = (isinstance(v, ast.Constant) and v.value is None) or \
                                        (isinstance(v, ast.Name) and v.id in defaults and isinstance(defaults[v.id], ast.Constant)
                                         and defaults[v.id].value is None
                                         and not any(isinstance(t, ast.If) and f"{v.id} is None" in norm(t.test) for t in walk_no_nested(fn)))
                                    if is_none:
                                        bad.append((rel, fn.name, c))
            if bad:
                for rel, fname, c in bad:
                    rep.violation(f"{P}.R8", f"{rel}:{fname}", norm(c)[:120],
                                  f"`{attr}=None` is passed on to a constructor that stores the keyword verbatim; {w.cid} is written with "
                                  f"`{attr}.encode(...)` unconditionally, so the project can no longer be saved (AttributeError)",
                                  f"{rel}:{c.lineno}")
            else:
                rep.ok(f"{P}.R8", wcon, f"self.{attr} = {norm(assign.value)}", "no library call site passes None for this keyword")
    rep.count("unguarded_text_fields", n, 2)


# ----------------------------------------------------------------------------- R6
def slot_terminators(repo: Repo, rep, P: str):
    from .. import inline
    proj = repo.cls("Project", module="rv.project")
    fn = inline.flatten(repo, proj, repo.own_method(proj, "chunks"))
    rel = proj.file.rel
    construct = f"{rel}:Project.chunks"
    found = 0
    for st in fn.body:
        if not isinstance(st, ast.For):
            continue
        it = norm(st.iter)
        term = "PEND" if "self.patterns" in it else "SEND" if "self.modules" in it else None
        if term is None:
            continue
        found += 1
        g = CFG(st, loop_body=True)
        ends = [g.exit, g.break_exit, g.ret_exit]
        paths = g.paths(g.entry, ends, max_visits=2, limit=20000, labels_excluded={"exc", "reraise", "nomatch"})
        if paths is None:
            # fall back to post-dominance
            rep.inconclusive(f"{P}.R6", construct, f"for … in {it}", "too many paths in the slot loop body", f"{rel}:{st.lineno}")
            continue
        bad = None
        for path in paths:
            ys = []
            for nid, lab in path:
                n = g.nodes[nid]
                if n.kind == "stmt" and isinstance(n.ast, ast.Expr) and isinstance(n.ast.value, ast.Yield):
                    v = n.ast.value.value
                    if isinstance(v, ast.Tuple) and isinstance(v.elts[0], ast.Constant) and isinstance(v.elts[0].value, bytes):
                        ys.append(v.elts[0].value.decode().strip())
                    elif isinstance(v, (ast.Name, ast.Attribute)):
                        # a named constant chunk: `yield _PATTERN_END` with `_PATTERN_END = (b"PEND", b"")`
                        try:
                            cv = repo.fold(v, ci=proj)
                            if isinstance(cv, tuple) and len(cv) == 2 and isinstance(cv[0], bytes):
                                ys.append(cv[0].decode().strip())
                            else:
                                ys.append("?")
                        except NotConst:
                            ys.append("?")
                elif n.kind == "stmt" and isinstance(n.ast, ast.Expr) and isinstance(n.ast.value, ast.YieldFrom):
                    ys.append("*")
            if not ys or ys[-1] != term or ys.count(term) != 1:
                bad = (ys, path)
                break
        if bad:
            tests = [f"{norm(g.nodes[n].ast)}={lab}" for n, lab in bad[1] if g.nodes[n].kind == "test"]
            rep.violation(f"{P}.R6", construct, f"for … in {it}: path [{', '.join(tests[:4])}] yields {bad[0][-3:]}",
                          f"a path through one slot iteration does not end in exactly one {term}: the next slot's chunks "
                          "are parsed as part of this one (or the empty slot disappears)", f"{rel}:{st.lineno}")
        else:
            rep.ok(f"{P}.R6", construct, f"for … in {it}", f"all {len(paths)} paths through one slot end in {term}")
    rep.count("slot_loops", found, 2)
    # the two loops appear in the order patterns, modules and iterate every slot
    loops = [norm(s.iter) for s in fn.body if isinstance(s, ast.For) and ("self.patterns" in norm(s.iter) or "self.modules" in norm(s.iter))]
    full = {"self.patterns": "P", "enumerate(self.patterns)": "P", "self.modules": "M", "enumerate(self.modules)": "M"}
    kinds = [full.get(x) for x in loops]
    if kinds == ["P", "M"]:
        rep.ok(f"{P}.R6", construct, "; ".join(loops), "all pattern slots, then all module slots")
    elif None in kinds:
        rep.inconclusive(f"{P}.R6", construct, "; ".join(loops), "a slot loop iterates something other than the complete slot list",
                         f"{rel}:{fn.lineno}")
    else:
        rep.violation(f"{P}.R6", construct, "; ".join(loops), "the slot loops must iterate every pattern and then every module position",
                      f"{rel}:{fn.lineno}")


# ----------------------------------------------------------------------------- R7
def container_clone_ok(repo: Repo) -> Tuple[str, List[str]]:
    """('ok' | 'wrong' | 'unknown', detail): Container.clone is write_to(buffer); buffer.seek(0); return read_sunvox_file(buffer)
    over one buffer, decided by the buffer typestate of sa/bufstate.py."""
    from .. import bufstate
    cont = repo.cls("Container", module="rv.container")
    verdict, val, events = bufstate.clone_verdict(repo, cont, "clone")
    if verdict == "ok" and val != bufstate.Loaded("self"):
        return "wrong", [f"clone returns {val}, not the container that was loaded"] + events
    if verdict == "wrong":
        return "wrong", [val.reason] + events
    return verdict, events


def clone_rule(repo: Repo, rep, P: str):
    cont = repo.cls("Container", module="rv.container")
    rel = cont.file.rel
    fn = repo.own_method(cont, "clone")
    verdict, calls = container_clone_ok(repo)
    if verdict == "ok":
        rep.ok(f"{P}.R7", f"{rel}:Container.clone", "; ".join(calls)[:160], "clone = save then load (buffer typestate: written, rewound, loaded)")
    elif verdict == "wrong":
        rep.violation(f"{P}.R7", f"{rel}:Container.clone", "; ".join(calls[1:])[:160],
                      "Container.clone must be write-then-read of the same buffer: " + calls[0], f"{rel}:{fn.lineno}")
    else:
        rep.inconclusive(f"{P}.R7", f"{rel}:Container.clone", "; ".join(calls)[:200], "clone is not of a recognised save-and-load shape",
                         f"{rel}:{fn.lineno}")
    wt = repo.own_method(cont, "write_to")
    src = norm(wt)
    fparam = (shape.params(wt) or ["file"])[0]
    wt_ok = False
    for lp in shape.for_loops_over(wt, "chunks"):
        if norm(lp.iter) != "self.chunks()":
            continue
        tnames = [norm(e) for e in lp.target.elts] if isinstance(lp.target, ast.Tuple) else None
        for c in shape.calls_to(lp, "write_chunk"):
            rest = c.args[1:]
            if c.args and norm(c.args[0]) == fparam and (
                    (len(rest) == 1 and isinstance(rest[0], ast.Starred) and norm(rest[0].value) == norm(lp.target)) or
                    (tnames is not None and [norm(a) for a in rest] == tnames)):
                wt_ok = True
    if wt_ok:
        rep.ok(f"{P}.R7", f"{rel}:Container.write_to", "for chunk in self.chunks(): write_chunk(file, *chunk)")
    else:
        rep.violation(f"{P}.R7", f"{rel}:Container.write_to", src[:160], "write_to must write every chunk of chunks()", f"{rel}:{wt.lineno}")
