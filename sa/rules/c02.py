"""C02 — every module type survives a .sunsynth round trip and Module.clone() (structural clauses)."""

from __future__ import annotations

import ast
import re
import struct
from typing import Any, Dict, List, Optional, Tuple

from .. import chnm, codec, docs, parity, inline, guards, shape
from . import c14
from ..cfg import CFG
from ..classmodel import all_controllers, all_options, class_const, module_classes
from ..guards import canon_text
from ..model import AnchorMissing, ClassInfo, NotConst, Repo, attr_chain, norm, stmts_of, walk_no_nested

LEVEL = "other"
EXPLANATION = (
    "sibling and writer/reader pair analysis for the stand-alone synth path: the empty-synth refusal dominates "
    "all output; the per-module tail of Project.chunks and Synth.chunks are compared as normalised row "
    "sequences (CVAL over the attached-controller list, CMID over the same list, CHNK + specialised chunks, "
    "SEND); for every module class the set of chunk numbers it can write is contained in what its load_chunk "
    "dispatches, each number loading into the attribute it was written from; array-chunk codec constants "
    "(type, element size, length, struct field order); unit controllers are loaded before dependants; "
    "Module.clone is write-then-read; drawn waveform sign extension and omission/default agreement; module "
    "header rows of C01 re-checked against ModuleReader. Value equality for arbitrary payloads is not decided."
)
DECLINED = ["value equality for arbitrary payload contents (decided as table/field/format agreement only)"]
ASSUMPTIONS = ["struct.pack/unpack with equal formats are inverse", "ModuleMeta numbers controllers in definition order (C13)"]


def run(repo: Repo, rep, tier: str):
    empty_synth_guard(repo, rep, "C02")
    sibling_writers(repo, rep, "C02")
    chnm_pairing(repo, rep, "C02")
    array_constants(repo, rep, "C02")
    unit_before_dependant(repo, rep, "C02")
    clone_rule(repo, rep, "C02")
    drawn_waveforms(repo, rep, "C02")
    header_rows(repo, rep, "C02")
    from . import c10, c11, c05
    c05.raw_inverse_paths(repo, rep, "C02", "R8")
    c10.inverse_pairs(repo, rep, "C02", "R8")
    c11.pack_unpack(repo, rep, "C02", "R9")
    from . import c12
    c12.pack_pairs(repo, rep, "C02", "R10", which=("SMII",))


# ------------------------------------------------------------------------------------ R1
def empty_synth_guard(repo: Repo, rep, P: str):
    synth = repo.cls("Synth", module="rv.synth")
    fn = _writer_nf(repo, synth, "chunks")
    rel = synth.file.rel
    construct = f"{rel}:Synth.chunks"
    rep.func("rv.synth.Synth.chunks")
    g = CFG(fn)
    yields = [n for n in g.nodes if n.kind == "stmt" and n.ast is not None
              and any(isinstance(x, (ast.Yield, ast.YieldFrom)) for x in ast.walk(n.ast))]
    tests = [n for n in g.nodes if n.kind == "test" and norm(n.ast) in ("self.module is None", "not self.module", "self.module == None")]
    raises = [n for n in g.nodes if n.kind == "stmt" and isinstance(n.ast, ast.Raise) and n.ast.exc is not None and "EmptySynthError" in norm(n.ast.exc)]
    if not tests or not raises:
        rep.violation(f"{P}.R1", construct, "if self.module is None: raise EmptySynthError(...)",
                      "a synth without a module is no longer refused", f"{rel}:{fn.lineno}")
        return
    t, r = tests[0], raises[0]
    dom = g.dominators()
    true_succ = [m for m, lab in g.succ[t.id] if lab == "true"]
    ok_raise = r.id in true_succ or (true_succ and r.id in g.reachable(true_succ[0]))
    undominated = [y for y in yields if t.id not in dom.get(y.id, set())]
    leaking = [y for y in yields if true_succ and y.id in g.reachable(true_succ[0])]
    if ok_raise and not undominated and not leaking:
        rep.ok(f"{P}.R1", construct, "if self.module is None: raise EmptySynthError", f"dominates all {len(yields)} yields; nothing is written before refusing")
    else:
        bad = (undominated or leaking)[0]
        rep.violation(f"{P}.R1", construct, f"{bad.text()}",
                      "a chunk can be emitted before / despite the empty-synth refusal: a broken file is written", f"{rel}:{bad.lineno}")
    rep.count("synth_yields", len(yields), 7)


# ------------------------------------------------------------------------------------ R2
def _norm_recv(text: str) -> str:
    text = re.sub(r"\bself\.module\b", "M", text)
    text = re.sub(r"\bmodule\b", "M", text)
    text = re.sub(r"\bmod\b", "M", text)
    return text


def _attached_list(e: ast.AST) -> Optional[Tuple[str, str]]:
    """(iterated expression, condition) of a comprehension selecting attached controllers."""
    for n in ast.walk(e):
        # {name: ctl for name, ctl in M.controllers.items() if ctl.attached(M)}: the same selection, kept as a mapping (insertion order)
        if isinstance(n, ast.DictComp) and len(n.generators) == 1 and isinstance(n.generators[0].target, ast.Tuple) \
                and len(n.generators[0].target.elts) == 2 and norm(n.key) == norm(n.generators[0].target.elts[0]) \
                and norm(n.value) == norm(n.generators[0].target.elts[1]) and norm(n.generators[0].iter).endswith(".controllers.items()") \
                and len(n.generators[0].ifs) == 1 and isinstance(n.generators[0].target.elts[1], ast.Name):
            g = n.generators[0]
            cond = re.sub(rf"\b{re.escape(g.target.elts[1].id)}\b", "c", _norm_recv(norm(g.ifs[0])))
            return _norm_recv(norm(g.iter)), cond
        if isinstance(n, (ast.ListComp, ast.GeneratorExp)) and len(n.generators) == 1:
            g = n.generators[0]
            if norm(g.iter).endswith(".controllers.items()") and len(g.ifs) == 1:
                cond = _norm_recv(norm(g.ifs[0]))
                if isinstance(g.target, ast.Name):
                    cond = cond.replace(f"{g.target.id}[1]", "c")           # `for item in …items() if item[1].attached(…)`
                if isinstance(g.target, ast.Tuple) and len(g.target.elts) == 2 and isinstance(g.target.elts[1], ast.Name):
                    cond = re.sub(rf"\b{re.escape(g.target.elts[1].id)}\b", "c", cond)     # the controller variable's name is immaterial
                return _norm_recv(norm(g.iter)), cond
    # every controller, attached or not: a comprehension over the whole table without a condition
    for n in ast.walk(e):
        if isinstance(n, (ast.ListComp, ast.GeneratorExp)) and len(n.generators) == 1 and not n.generators[0].ifs:
            it = norm(n.generators[0].iter)
            if it.endswith((".controllers", ".controllers.items()", ".controllers.keys()", ".controllers.values()")):
                return _norm_recv(it), None
    if isinstance(e, (ast.Attribute, ast.Call)) and norm(e).endswith((".controllers", ".controllers.items()", ".controllers.keys()", ".controllers.values()")):
        return _norm_recv(norm(e)), None
    return None


def _carried_list(fn: ast.FunctionDef) -> Optional[str]:
    """The CVAL loop iterates a local whose value can come out of a container that lives across iterations of the enclosing
    per-module loop (bound before that loop, read and filled inside it): text of the read.  The list of attached controllers is a
    fact about one module object at one time; a value remembered from another iteration is some other module's list."""
    parents: Dict[int, ast.AST] = {}
    for n in ast.walk(fn):
        for c in ast.iter_child_nodes(n):
            parents[id(c)] = n
    for lp in [n for n in ast.walk(fn) if isinstance(n, ast.For)]:
        if not (isinstance(lp.iter, ast.Name) and any(isinstance(y, ast.Yield) and isinstance(y.value, ast.Tuple) and y.value.elts
                                                      and isinstance(y.value.elts[0], ast.Constant) and y.value.elts[0].value == b"CVAL"
                                                      for y in ast.walk(lp))):
            continue
        outer = parents.get(id(lp))
        while outer is not None and not isinstance(outer, (ast.For, ast.While)):
            outer = parents.get(id(outer))
        if outer is None:
            continue
        nm = lp.iter.id
        inside = {id(x) for x in ast.walk(outer)}
        for a in ast.walk(outer):
            if not (isinstance(a, ast.Assign) and any(isinstance(t, ast.Name) and t.id == nm for t in a.targets)):
                continue
            for x in ast.walk(a.value):
                box = None
                if isinstance(x, ast.Call) and isinstance(x.func, ast.Attribute) and x.func.attr in ("get", "setdefault", "pop") and isinstance(x.func.value, ast.Name):
                    box = x.func.value.id
                elif isinstance(x, ast.Subscript) and isinstance(x.ctx, ast.Load) and isinstance(x.value, ast.Name):
                    box = x.value.id
                if box is None:
                    continue
                binds = [b for b in ast.walk(fn) if isinstance(b, ast.Assign) and any(isinstance(t, ast.Name) and t.id == box for t in b.targets)]
                if binds and all(id(b) not in inside for b in binds) and all(
                        isinstance(b.value, (ast.Dict, ast.List)) or (isinstance(b.value, ast.Call) and norm(b.value.func).split(".")[-1] in
                                                                      ("dict", "defaultdict", "OrderedDict", "list", "WeakKeyDictionary"))
                        for b in binds):
                    return norm(x)
    return None


def tail_descriptor(rows: List[codec.WRow], fn: Optional[ast.FunctionDef] = None) -> Dict[str, Any]:
    from ..packed import subst_locals
    d: Dict[str, Any] = {"order": []}
    if fn is not None:
        d["cval_carried"] = _carried_list(fn)
    slot_present = {canon_text("module is not None"), canon_text("not (module is None)"), canon_text("module"),
                    canon_text("self.module is not None"), canon_text("M is not None")}
    slot_empty = {canon_text("module is None"), canon_text("not module"), canon_text("not (module is not None)")}

    def tail_guards(gs):
        return [g for g in gs if canon_text(g) not in slot_present]
    for r in rows:
        # rows on the empty-slot path (`if module is None: yield SEND`) are not part of a module's tail
        if any(canon_text(g) in slot_empty for g in r.guards):
            continue
        if fn is not None and r.kind == "chunk" and r.cid == "CMID" and r.payload_expr is not None:
            from ..packed import fuse_comprehensions
            r.payload_expr = fuse_comprehensions(subst_locals(fn, r.payload_expr))
        if r.kind == "magic" and r.cid == "SEND":
            d["order"].append("SEND")
            continue
        if r.kind == "chunk" and r.cid in ("CVAL", "CMID", "CHNK", "SEND"):
            d["order"].append(r.cid)
            p = r.payload
            if r.cid == "CVAL":
                d["cval_fmt"] = p.fmt.show() if p.fmt else None
                d["cval_src"] = _norm_recv(norm(p.args[0])) if p.args else None
                loop = r.loops[-1] if r.loops else ""
                try:
                    it = ast.parse(loop.split(" in ", 1)[1], mode="eval").body
                    if fn is not None:
                        it = subst_locals(fn, it)
                    d["cval_list"] = _attached_list(it)
                    d["cval_var"] = loop.split(" in ", 1)[0][4:]
                    if d["cval_list"] is None and norm(it).endswith(".controllers.items()"):
                        # for n, c in M.controllers.items(): if c.attached(M): …   (the selection written as a guard of the loop body)
                        tv = [x.strip(" ()") for x in d["cval_var"].split(",")]
                        if len(tv) == 2:
                            for g_ in r.guards:
                                gt = _norm_recv(g_)
                                if re.fullmatch(rf"{re.escape(tv[1])}\.attached\(M\)", gt):
                                    d["cval_list"] = (_norm_recv(norm(it)), "c.attached(M)")
                    first = d["cval_var"].split(",")[0].strip().strip("(")
                    if first.isidentifier() and d["cval_src"]:
                        d["cval_src"] = re.sub(rf"\b{re.escape(first)}\b", "name", d["cval_src"])      # the loop variable's name is immaterial
                except (IndexError, SyntaxError):
                    d["cval_list"] = None
                d["cval_extra_guards"] = [_norm_recv(g) for g in tail_guards(r.guards)]
            elif r.cid == "CMID":
                d["cmid_list"] = _attached_list(r.payload_expr)
                d["cmid_elem"] = None
                for n in ast.walk(r.payload_expr):
                    if isinstance(n, (ast.GeneratorExp, ast.ListComp)) and "cmid_data" in norm(n.elt):
                        d["cmid_elem"] = re.sub(r"\[.*?\]", "[name]", _norm_recv(norm(n.elt)))
                        d["cmid_filter"] = [norm(i) for g in n.generators for i in g.ifs] + (["nested"] if len(n.generators) > 1 else [])
                d["cmid_join"] = norm(r.payload_expr).startswith("b''.join(")
            elif r.cid == "CHNK":
                d["chnk_fmt"] = p.fmt.show() if p.fmt else None
                d["chnk_src"] = _norm_recv(norm(p.args[0])) if p.args else None
                d["chnk_guard"] = [canon_text(_norm_recv(g)) for g in tail_guards(r.guards)]
        elif r.kind == "delegate" and "specialized_iff_chunks" in r.delegate:
            d["order"].append("SPECIAL")
            d["special_guard"] = [canon_text(_norm_recv(g)) for g in tail_guards(r.guards)]
    return d


def sibling_writers(repo: Repo, rep, P: str):
    proj = repo.cls("Project", module="rv.project")
    synth = repo.cls("Synth", module="rv.synth")
    prows = [r for r in codec.writer_rows(repo, proj, repo.own_method(proj, "chunks")) if any("self.modules" in l for l in r.loops)]
    srows = codec.writer_rows(repo, synth, repo.own_method(synth, "chunks"))
    pd, sd = tail_descriptor(prows, _writer_nf(repo, proj, "chunks")), tail_descriptor(srows, _writer_nf(repo, synth, "chunks"))
    pcon, scon = f"{proj.file.rel}:Project.chunks", f"{synth.file.rel}:Synth.chunks"
    rep.func("rv.project.Project.chunks[module tail] ~ rv.synth.Synth.chunks")
    want_order = ["CVAL", "CMID", "CHNK", "SPECIAL", "SEND"]
    want_list = ("M.controllers.items()", "c.attached(M)")
    simple_guard = re.compile(r"(not )?M\.\w+( (==|!=|>|<|>=|<=) -?\d+)?")

    def classify(k: str, d: Dict[str, Any]) -> str:
        """'ok' | 'wrong' (a recognised form that is not the required one) | 'unknown' (not a form this rule reads)."""
        v = d.get(k)
        if k == "order":
            if v == want_order:
                return "ok"
            return "wrong" if sorted(v) == sorted(want_order) or (len(v) > len(want_order) and set(v) == set(want_order)) else "unknown"
        if k in ("cval_fmt", "chnk_fmt"):
            want = "<i" if k == "cval_fmt" else "<I"
            return "ok" if v == want else "wrong" if isinstance(v, str) else "unknown"
        if k == "cval_src":
            if (v or "").startswith("M.get_raw("):
                return "ok"
            return "wrong" if isinstance(v, str) and re.fullmatch(r"(M\.[\w.]+(\(.*\)|\[.*\])?|getattr\(M, .*\))", v) else "unknown"
        if k == "cval_list":
            if v == want_list:
                return "ok"
            return "wrong" if isinstance(v, tuple) and len(v) == 2 and v[0] in ("M.controllers.items()", "M.controllers", "M.controllers.keys()",
                                                                                 "M.controllers.values()") else "unknown"
        if k == "cmid_list":
            if v is not None and v == d.get("cval_list") and d.get("cmid_join"):
                return "ok"
            if v is None or d.get("cval_list") is None or not d.get("cmid_join"):
                return "unknown"
            return "wrong"
        if k == "cmid_elem":
            if v == "M.controller_midi_maps[name].cmid_data":
                return "ok"
            return "wrong" if isinstance(v, str) and re.fullmatch(r"M\.[\w.]+\[name\](\.\w+)*", v) else "unknown"
        if k == "chnk_src":
            return "ok" if v == "M.chnk" else "wrong" if isinstance(v, str) and re.fullmatch(r"M\.[\w.]+", v) else "unknown"
        if k in ("chnk_guard", "special_guard"):
            if v == ["M.chnk"]:
                return "ok"
            if v is None:
                return "unknown"
            return "wrong" if all(simple_guard.fullmatch(g) for g in v) else "unknown"
        return "unknown"
    keys = ["order", "cval_fmt", "cval_src", "cval_list", "cmid_list", "cmid_elem", "chnk_fmt", "chnk_src", "chnk_guard", "special_guard"]
    why = {
        "order": "the {name} module tail must be CVAL*, CMID, CHNK, specialised chunks, SEND",
        "cval_fmt": "controller values are 32-bit little-endian",
        "cval_src": "stored controller values must come from get_raw",
        "cval_list": "one CVAL per ATTACHED controller, in controller order",
        "cmid_list": "{name} writer: the CMID block must have one 8-byte entry per CVAL, i.e. be joined over the SAME controller list; "
                     "otherwise bindings shift to other controllers on load",
        "cmid_elem": "CMID entries must be controller_midi_maps[name].cmid_data",
        "chnk_fmt": "CHNK and the specialised chunks must be written together, under `if module.chnk`",
        "chnk_src": "CHNK and the specialised chunks must be written together, under `if module.chnk`",
        "chnk_guard": "CHNK and the specialised chunks must be written together, under `if module.chnk`",
        "special_guard": "CHNK and the specialised chunks must be written together, under `if module.chnk`",
    }
    verdicts: Dict[str, Dict[str, str]] = {}
    for name, d, con in (("in-project", pd, pcon), ("stand-alone", sd, scon)):
        vd = verdicts[name] = {k: classify(k, d) for k in keys}
        for k in keys:
            shown = f"{k}: {d.get(k)}" + (f" / CVAL iterates {d.get('cval_list')}" if k == "cmid_list" else "")
            if vd[k] == "ok":
                rep.ok(f"{P}.R2", con, shown[:160], "module tail: required form")
            elif vd[k] == "wrong":
                rep.violation(f"{P}.R2", con, shown[:200], why[k].format(name=name), con.split(":")[0])
            else:
                rep.inconclusive(f"{P}.R2", con, shown[:200], f"module tail: {k} is not of a form this rule reads", con.split(":")[0])
        if d.get("cval_carried"):
            rep.violation(f"{P}.R2", con, f"CVAL list read from {d.get('cval_carried')}",
                          f"{name} writer: the list of controllers to store can come from a container that is kept across the modules of the loop "
                          f"({d.get('cval_carried')}): attachment is a fact about one module object, so another module's list decides which "
                          "values are written", con.split(":")[0])
        if d.get("cmid_filter"):
            rep.violation(f"{P}.R2", con, f"CMID entries filtered by {d.get('cmid_filter')}",
                          f"{name} writer: CMID entries are positional (entry i belongs to the i-th stored controller); skipping an entry "
                          "shifts every later binding to an earlier controller on load", con.split(":")[0])
    # the two siblings agree (on what was read on both sides; an unread side is reported above)
    diffs = [(k, pd.get(k), sd.get(k)) for k in keys if pd.get(k) != sd.get(k)
             and "unknown" not in (verdicts["in-project"][k], verdicts["stand-alone"][k])]
    if diffs:
        k, a, b = diffs[0]
        rep.violation(f"{P}.R2", scon, f"{k}: in-project {a} / stand-alone {b}",
                      "the stand-alone synth writer and the in-project module writer disagree; a module saved one way does "
                      "not load like the same module saved the other way", synth.file.rel)
    else:
        rep.ok(f"{P}.R2", scon, "stand-alone tail ≡ in-project tail", "sibling writers agree on all compared fields")
    rep.sample({"in_project_tail": {k: pd.get(k) for k in keys}, "stand_alone_tail": {k: sd.get(k) for k in keys}})
    # frozen difference: Synth.chunks recomputes attachment first
    sfn = _writer_nf(repo, synth, "chunks")
    p_rc = [inline.pos(n) for n in ast.walk(sfn) if (isinstance(n, ast.Attribute) and n.attr == "recompute_controller_attachment")
            or (isinstance(n, ast.Constant) and n.value == "recompute_controller_attachment")]
    # the call itself (a getattr-bound local is called later than it is looked up)
    calls_rc = [inline.pos(c) for c in ast.walk(sfn) if isinstance(c, ast.Call) and
                ((isinstance(c.func, ast.Attribute) and c.func.attr == "recompute_controller_attachment") or
                 (isinstance(c.func, ast.Name) and any(isinstance(a, ast.Assign) and isinstance(a.targets[0], ast.Name) and a.targets[0].id == c.func.id
                                                       and "recompute_controller_attachment" in norm(a.value) for a in ast.walk(sfn))) or
                 (isinstance(c.func, ast.Call) and "recompute_controller_attachment" in norm(c.func)))]
    p_att = [inline.pos(c) for c in ast.walk(sfn) if isinstance(c, ast.Call) and isinstance(c.func, ast.Attribute) and c.func.attr == "attached"]
    if p_rc:
        first_rc = min(calls_rc) if calls_rc else min(p_rc)
        if p_att and first_rc < min(p_att):
            rep.ok(f"{P}.R2", scon, "recompute_controller_attachment() before the attached filter", "frozen difference (idempotent re-derivation)",
                   nontrivial=False)
        elif not p_att:
            rep.inconclusive(f"{P}.R2", scon, "recompute_controller_attachment", "the attached filter was not found in the synth writer", synth.file.rel)
        else:
            rep.violation(f"{P}.R2", scon, "recompute after the filter", "attachment must be re-derived before it is consulted", synth.file.rel)
    synth_header_context(repo, rep, P, "R2")
    # reader side: CMID entries are applied in the order of the controller list
    cmid_reader_rule(repo, rep, P, "R2")
    cmid_record_pair(repo, rep, P, "R2")


def cmid_record_pair(repo: Repo, rep, P: str, rule: str):
    """ControllerMidiMap.cmid_data getter ∘ setter is the identity on every field (bit domain, any format strings)."""
    from .. import packed
    cm = repo.cls("ControllerMidiMap", module="rv.cmidmap")
    rep.func("rv.cmidmap.ControllerMidiMap.cmid_data (getter ∘ setter)")
    packed.struct_accessor_pair(repo, rep, P, rule, cm, "cmid_data",
                                {"message_type": 8, "channel": 8, "slope": 8, "message_parameter": 16})


def synth_header_context(repo: Repo, rep, P: str, rule: str):
    """Synth.chunks writes the module header in the stand-alone context: `iff_chunks(in_project=False)`.  Without the
    argument the module decides from its own parent, and a module attached to a project puts the in-project-only chunks
    (SXXX/SYYY/SZZZ/SVPR …) into the .sunsynth."""
    synth = repo.cls("Synth", module="rv.synth")
    fn = _writer_nf(repo, synth, "chunks")
    scon = f"{synth.file.rel}:Synth.chunks"
    calls = [c for c in walk_no_nested(fn) if isinstance(c, ast.Call) and isinstance(c.func, ast.Attribute) and c.func.attr == "iff_chunks"]
    if not calls:
        rep.violation(f"{P}.{rule}", scon, "iff_chunks(...)", "the synth writer no longer emits the module header through Module.iff_chunks",
                      f"{synth.file.rel}:{fn.lineno}")
        return
    for c in calls:
        arg = next((k.value for k in c.keywords if k.arg == "in_project"), c.args[0] if c.args else None)
        where = f"{synth.file.rel}:{c.lineno}"
        if arg is None:
            rep.violation(f"{P}.{rule}", scon, norm(c), "the synth writer must emit the module header with in_project=False "
                          "(without it a module that belongs to a project writes its in-project-only chunks into the .sunsynth)", where)
            continue
        try:
            v = repo.fold(arg, ci=synth)
        except NotConst:
            rep.inconclusive(f"{P}.{rule}", scon, norm(c), "in_project argument is not constant", where)
            continue
        if v is False:
            rep.ok(f"{P}.{rule}", scon, norm(c), "stand-alone context", nontrivial=False)
        else:
            rep.violation(f"{P}.{rule}", scon, norm(c), "the synth writer must emit the module header with in_project=False", where)
    context_switch_rule(repo, rep, P, rule)


_PARENT = object()


def _tt_eval(e: ast.expr, env: Dict[str, Any]):
    """Value of a small boolean expression over names / `self.parent` bound in env (None, True, False or an opaque object)."""
    if isinstance(e, ast.Constant):
        return e.value
    if isinstance(e, ast.Name):
        if e.id in env:
            return env[e.id]
        raise NotConst(e.id)
    if isinstance(e, ast.Attribute):
        t = norm(e)
        if t in env:
            return env[t]
        raise NotConst(t)
    if isinstance(e, ast.UnaryOp) and isinstance(e.op, ast.Not):
        return not _tt_eval(e.operand, env)
    if isinstance(e, ast.BoolOp):
        v = None
        for x in e.values:
            v = _tt_eval(x, env)
            if isinstance(e.op, ast.And) and not v:
                return v
            if isinstance(e.op, ast.Or) and v:
                return v
        return v
    if isinstance(e, ast.IfExp):
        return _tt_eval(e.body if _tt_eval(e.test, env) else e.orelse, env)
    if isinstance(e, ast.Compare) and len(e.ops) == 1:
        a, b = _tt_eval(e.left, env), _tt_eval(e.comparators[0], env)
        op = e.ops[0]
        if isinstance(op, ast.Is):
            return a is b
        if isinstance(op, ast.IsNot):
            return a is not b
        if isinstance(op, ast.Eq):
            return a == b
        if isinstance(op, ast.NotEq):
            return a != b
        if isinstance(op, ast.In):
            return a in b
        if isinstance(op, ast.NotIn):
            return a not in b
    if isinstance(e, (ast.Tuple, ast.List, ast.Set)):
        return tuple(_tt_eval(x, env) for x in e.elts)
    if isinstance(e, ast.Call) and norm(e.func) == "bool" and len(e.args) == 1:
        return bool(_tt_eval(e.args[0], env))
    raise NotConst(norm(e))


def context_switch_rule(repo: Repo, rep, P: str, rule: str):
    """Module.iff_chunks(in_project): the in-project-only chunks are emitted exactly when the caller says so — in_project=True
    emits them, in_project=False never does (whatever the module's parent is), None falls back to `self.parent is not None`.
    The emission tests are evaluated on all six combinations of (in_project, parent) after writing the locals they read in terms
    of the argument (a truth table; no repository code runs)."""
    mod = repo.cls("Module", module="rv.modules.module")
    fn = inline.normalize(repo, mod, repo.own_method(mod, "iff_chunks", raw=True))
    con = f"{mod.file.rel}:Module.iff_chunks"
    params = [a.arg for a in fn.args.args if a.arg != "self"]
    if not params:
        rep.inconclusive(f"{P}.{rule}", con, "", "iff_chunks takes no context argument", f"{mod.file.rel}:{fn.lineno}")
        return
    cp = params[0]
    env: Dict[str, ast.expr] = {}

    def sub(e: ast.expr) -> ast.expr:
        return _resolve(e, env, depth=1) if env else e
    found = 0
    for st in fn.body:
        if isinstance(st, ast.Assign) and len(st.targets) == 1 and isinstance(st.targets[0], ast.Name):
            env[st.targets[0].id] = sub(st.value)
            continue
        if isinstance(st, ast.If) and not st.orelse and len(st.body) == 1 and isinstance(st.body[0], ast.Assign) \
                and len(st.body[0].targets) == 1 and isinstance(st.body[0].targets[0], ast.Name):
            nm = st.body[0].targets[0].id
            old = env.get(nm, ast.Name(id=nm, ctx=ast.Load()))
            env[nm] = ast.IfExp(test=sub(st.test), body=sub(st.body[0].value), orelse=old)
            continue
        if isinstance(st, ast.If) and any(isinstance(y, (ast.Yield, ast.YieldFrom)) for y in ast.walk(st)):
            t = sub(st.test)
            names = {n.id for n in ast.walk(t) if isinstance(n, ast.Name)}
            attrs = {norm(n) for n in ast.walk(t) if isinstance(n, ast.Attribute)}
            if cp not in names or not names <= {cp, "self", "bool"} or not attrs <= {"self.parent"}:
                continue
            found += 1
            ids = sorted({norm(y.value.elts[0]) for y in ast.walk(st) if isinstance(y, ast.Yield) and isinstance(y.value, ast.Tuple) and y.value.elts})
            bad = None
            try:
                for arg in (None, True, False):
                    for parent in (None, _PARENT):
                        got = bool(_tt_eval(t, {cp: arg, "self.parent": parent}))
                        want = arg if arg is not None else (parent is not None)
                        if got != want and bad is None:
                            bad = (arg, parent is not None, got)
            except NotConst as e:
                rep.inconclusive(f"{P}.{rule}", con, norm(t)[:120], f"context test not evaluable: {e}", f"{mod.file.rel}:{st.lineno}")
                continue
            if bad is None:
                rep.ok(f"{P}.{rule}", con, f"if {norm(t)[:80]}: {', '.join(ids)[:60]}", "emitted iff the caller's context says in-project (None: has a parent)")
            else:
                rep.violation(f"{P}.{rule}", con, f"if {norm(t)[:100]}: {', '.join(ids)[:60]}",
                              f"with {cp}={bad[0]} and the module {'attached to a project' if bad[1] else 'free-standing'} the in-project-only chunks are "
                              f"{'written' if bad[2] else 'left out'}: the caller's explicit context is overridden (a .sunsynth of an attached module "
                              "gets SXXX/SYYY/SZZZ/SVPR)", f"{mod.file.rel}:{st.lineno}")
    if not found:
        rep.inconclusive(f"{P}.{rule}", con, "", "no emission test over the context argument found", f"{mod.file.rel}:{fn.lineno}")


def _writer_nf(repo: Repo, ci, name: str) -> ast.FunctionDef:
    """A container's writer in normal form, with the module's helper generators (`self.module._controller_chunks()`) read through."""
    mod_k = repo.cls("Module", module="rv.modules.module")
    return inline.normalize(repo, ci, repo.own_method(ci, name, raw=True), aliases=True, receivers={"module": mod_k, "self.module": mod_k})


def _resolve(e: ast.expr, defs: Dict[str, ast.expr], depth: int = 5) -> ast.expr:
    import copy

    class Sub(ast.NodeTransformer):
        def visit_Name(self, node):
            if isinstance(node.ctx, ast.Load) and node.id in defs and depth > 0:
                return _resolve(defs[node.id], defs, depth - 1)
            return node
    return Sub().visit(copy.deepcopy(e))


def _once_defs(stmts) -> Dict[str, ast.expr]:
    """name -> rhs for names assigned exactly once at the top level of a statement list."""
    cnt: Dict[str, int] = {}
    rhs: Dict[str, ast.expr] = {}
    for st in stmts:
        for n in ast.walk(st):
            if isinstance(n, ast.Name) and isinstance(n.ctx, ast.Store):
                cnt[n.id] = cnt.get(n.id, 0) + 1
        if isinstance(st, ast.Assign) and len(st.targets) == 1 and isinstance(st.targets[0], ast.Name):
            rhs[st.targets[0].id] = st.value
    return {k: v for k, v in rhs.items() if cnt.get(k) == 1}


def cmid_reader_rule(repo: Repo, rep, P: str, rule: str):
    """Module.load_cmid: entry i (8 bytes at offset 8*i) goes to the i-th controller of the *complete* controller
    table.  The CMID chunk precedes the options chunk, so the sequence must not depend on attachment state."""
    from .. import alg
    mod = repo.cls("Module", module="rv.modules.module")
    lc = inline.split_rebinds(inline.normalize(repo, mod, repo.own_method(mod, "load_cmid")))
    con = f"{mod.file.rel}:Module.load_cmid"
    where = f"{mod.file.rel}:{lc.lineno}"
    data = [a.arg for a in lc.args.args if a.arg != "self"]
    fdefs = _once_defs(lc.body)
    fconsts = {k: v.value for k, v in fdefs.items() if isinstance(v, ast.Constant) and isinstance(v.value, int) and not isinstance(v.value, bool)}
    loops = [n for n in walk_no_nested(lc) if isinstance(n, ast.For)]
    if len(loops) != 1 or not data:
        rep.inconclusive(f"{P}.{rule}", con, norm(lc)[:120], f"{len(loops)} loops; expected one loop over the controllers", where)
        return
    lp = loops[0]
    it = _resolve(lp.iter, fdefs)
    offset_mode = False
    if isinstance(it, ast.Call) and norm(it.func) == "zip" and len(it.args) == 2 and isinstance(lp.target, ast.Tuple) and len(lp.target.elts) == 2:
        # the offsets may be written first: zip(range(0, n, 8), names) is the same pairing as zip(names, range(0, n, 8))
        def _is_offsets(a):
            return isinstance(a, ast.Call) and norm(a.func) in ("range", "count", "itertools.count")
        if _is_offsets(it.args[0]) and not _is_offsets(it.args[1]):
            import copy as _copy
            it = ast.copy_location(ast.Call(func=it.func, args=[it.args[1], it.args[0]], keywords=[]), it)
            lp = _copy.copy(lp)
            lp.target = ast.copy_location(ast.Tuple(elts=[lp.target.elts[1], lp.target.elts[0]], ctx=ast.Store()), lp.target)
        # islice(<controllers>, len(data) // 8): the names of the complete records only — pairing stops there, as it does
        # when the offsets stop before a partial record
        a0 = it.args[0]
        if isinstance(a0, ast.Call) and norm(a0.func) in ("islice", "itertools.islice") and len(a0.args) == 2 and data:
            bound = a0.args[1]
            if isinstance(bound, ast.BinOp) and isinstance(bound.op, ast.FloorDiv) and norm(bound.left) == f"len({data[0]})":
                try:
                    bsz = repo.fold(bound.right, ci=mod)
                except Exception:
                    bsz = None
                if bsz == 8:
                    it = ast.copy_location(ast.Call(func=it.func, args=[a0.args[0], it.args[1]], keywords=[]), it)
    if isinstance(it, ast.Call) and norm(it.func) == "zip" and len(it.args) == 2 and isinstance(lp.target, ast.Tuple) and len(lp.target.elts) == 2 \
            and isinstance(it.args[1], ast.Call) and norm(it.args[1].func) in ("count", "itertools.count") and data:
        # for name, offset in zip(<controllers>, count(0, 8)): one offset per controller, 8 apart
        ca = it.args[1].args
        try:
            c0 = repo.fold(ca[0], ci=mod) if ca else 0
            c1 = repo.fold(ca[1], ci=mod) if len(ca) > 1 else 1
        except Exception:
            c0 = c1 = None
        if (c0, c1) != (0, 8):
            if c0 is None:
                rep.inconclusive(f"{P}.{rule}", con, norm(it.args[1]), "offset sequence not constant", where)
            else:
                rep.violation(f"{P}.{rule}", con, norm(it.args[1]), "CMID records start at offset 0 and are 8 bytes apart", f"{mod.file.rel}:{lp.lineno}")
            return
        offset_mode = True
        seq = it.args[0]
        start = "0"
        lp_target_i, lp_target_name = lp.target.elts[1], lp.target.elts[0]
    elif isinstance(it, ast.Call) and norm(it.func) == "zip" and len(it.args) == 2 and isinstance(lp.target, ast.Tuple) and len(lp.target.elts) == 2 \
            and isinstance(it.args[1], ast.Call) and norm(it.args[1].func) == "range" and data:
        # for name, offset in zip(<controllers>, range(0, stop, 8))
        r = it.args[1].args
        L = alg.Poly.sym("L")

        def rleaf(e):
            if isinstance(e, ast.Call) and norm(e.func) == "len" and len(e.args) == 1 and norm(e.args[0]) == data[0]:
                return L
            if isinstance(e, ast.Call) and norm(e.func) == "len" and len(e.args) == 1 and norm(e.args[0]) in ("self.controllers", "self.controllers.keys()"):
                return alg.Poly.sym("N")
            if isinstance(e, ast.Name) and e.id in fconsts:
                return alg.Poly.const(fconsts[e.id])
            if isinstance(e, (ast.Name, ast.Attribute)):
                try:
                    c = repo.fold(e, ci=mod)
                    if isinstance(c, int) and not isinstance(c, bool):
                        return alg.Poly.const(c)
                except Exception:
                    pass
            return None
        try:
            r0 = alg.to_poly(r[0], rleaf) if len(r) > 1 else alg.Poly.const(0)
            stop = alg.to_poly(r[1] if len(r) > 1 else r[0], rleaf)
            step = alg.to_poly(r[2], rleaf) if len(r) > 2 else alg.Poly.const(1)
        except (alg.NotAlgebraic, IndexError) as e:
            rep.inconclusive(f"{P}.{rule}", con, norm(lp.iter), f"offset range not affine: {e}", where)
            return
        if not (r0 == alg.Poly.const(0) and step == alg.Poly.const(8)):
            rep.violation(f"{P}.{rule}", con, norm(it.args[1]), "CMID records start at offset 0 and are 8 bytes apart", f"{mod.file.rel}:{lp.lineno}")
            return
        slack = stop - L
        if stop == alg.Poly.sym("N") * alg.Poly.const(8):
            slack = alg.Poly.const(0)          # one offset per controller of the table: the length test on the slice skips records the data does not hold
        if not slack.is_const():
            rep.inconclusive(f"{P}.{rule}", con, norm(it.args[1]), "range stop is not len(data) + constant", where)
            return
        k = slack.const_value()
        if k <= -8:
            rep.violation(f"{P}.{rule}", con, norm(it.args[1]),
                          f"offsets stop at len(data) {int(k)}: the last complete 8-byte record (offset len − 8) is never decoded, so the "
                          "binding of the last stored controller is lost", f"{mod.file.rel}:{lp.lineno}")
            return
        if k > -7:
            rep.info(f"{P}.{rule}", con, norm(it.args[1]), "a trailing partial record reaches the decoder (not decided)")
        offset_mode = True
        seq = it.args[0]
        start = "0"
        lp_target_i, lp_target_name = lp.target.elts[1], lp.target.elts[0]
    elif not (isinstance(it, ast.Call) and norm(it.func) == "enumerate" and it.args and isinstance(lp.target, ast.Tuple) and len(lp.target.elts) == 2):
        rep.inconclusive(f"{P}.{rule}", con, norm(lp.iter), "loop is not `for i, name in enumerate(...)`", where)
        return
    else:
        seq = it.args[0]
        start = norm(it.args[1]) if len(it.args) > 1 else next((norm(k.value) for k in it.keywords if k.arg == "start"), "0")
        lp_target_i, lp_target_name = lp.target.elts[0], lp.target.elts[1]
    while isinstance(seq, ast.Call) and norm(seq.func) in ("list", "tuple", "iter") and len(seq.args) == 1:
        seq = seq.args[0]
    seqt = norm(seq)
    ivar = norm(lp_target_i)
    nvar_node = lp_target_name
    if seqt in ("self.controllers", "self.controllers.keys()") and isinstance(nvar_node, ast.Name):
        nvar = nvar_node.id
    elif seqt == "self.controllers.items()" and isinstance(nvar_node, ast.Tuple) and isinstance(nvar_node.elts[0], ast.Name):
        nvar = nvar_node.elts[0].id
    elif "attached" in seqt or any(isinstance(x, ast.comprehension) and x.ifs for x in ast.walk(seq)):
        rep.violation(f"{P}.{rule}", con, f"enumerate({seqt[:100]})",
                      "CMID entries are matched against a filtered controller sequence; the chunk is read before the options that decide "
                      "which controllers are attached, so bindings of later-attached (user-defined) controllers are dropped or shifted",
                      f"{mod.file.rel}:{lp.lineno}")
        return
    else:
        rep.inconclusive(f"{P}.{rule}", con, f"enumerate({seqt[:100]})", "controller sequence not recognised", f"{mod.file.rel}:{lp.lineno}")
        return
    if start != "0":
        rep.violation(f"{P}.{rule}", con, norm(lp.iter), f"entry numbering starts at {start}, the writers start at 0", f"{mod.file.rel}:{lp.lineno}")
        return
    ldefs = _once_defs(lp.body)
    # every store into controller_midi_maps[name]
    stores = []
    for n in ast.walk(lp):
        if isinstance(n, ast.Assign) and len(n.targets) == 1:
            t = n.targets[0]
            if isinstance(t, ast.Attribute) and t.attr == "cmid_data" and norm(t.value) == f"self.controller_midi_maps[{nvar}]":
                stores.append((n, n.value))
            elif isinstance(t, ast.Subscript) and norm(t) == f"self.controller_midi_maps[{nvar}]" and isinstance(n.value, ast.Call) and n.value.args:
                stores.append((n, n.value.args[0]))
    if not stores:
        rep.violation(f"{P}.{rule}", con, norm(lp)[:140], "the CMID record is never stored into controller_midi_maps[name]", f"{mod.file.rel}:{lp.lineno}")
        return

    def leaf(e):
        if isinstance(e, ast.Name) and e.id == ivar:
            return alg.Poly.sym("i")
        if isinstance(e, ast.Name) and e.id in fconsts:
            return alg.Poly.const(fconsts[e.id])          # record_size = 8
        if isinstance(e, (ast.Name, ast.Attribute)):
            try:
                c = repo.fold(e, ci=mod)
                if isinstance(c, int) and not isinstance(c, bool):
                    return alg.Poly.const(c)
            except Exception:
                pass
        return None
    for st, val in stores:
        v = _resolve(val, ldefs)
        while isinstance(v, ast.Call) and norm(v.func) in ("bytes", "bytearray", "memoryview") and len(v.args) == 1:
            v = v.args[0]
        if not (isinstance(v, ast.Subscript) and isinstance(v.slice, ast.Slice) and norm(v.value) == data[0]
                and v.slice.lower is not None and v.slice.upper is not None and v.slice.step is None):
            rep.inconclusive(f"{P}.{rule}", con, norm(st), "stored record is not a slice of the chunk data", f"{mod.file.rel}:{st.lineno}")
            continue
        try:
            lo, hi = alg.to_poly(v.slice.lower, leaf), alg.to_poly(v.slice.upper, leaf)
        except alg.NotAlgebraic as e:
            rep.inconclusive(f"{P}.{rule}", con, norm(st), f"slice bounds not affine: {e}", f"{mod.file.rel}:{st.lineno}")
            continue
        unit = alg.Poly.sym("i") if offset_mode else alg.Poly.sym("i") * 8
        if lo == unit and hi - lo == alg.Poly.const(8):
            rep.ok(f"{P}.{rule}", con, f"controller_midi_maps[{nvar}] ← {data[0]}[8·i : 8·i+8] over {seqt}", "8-byte entries in controller order")
        else:
            rep.violation(f"{P}.{rule}", con, norm(st),
                          f"entry i is read from [{lo} : {hi}] instead of [8·i : 8·i+8]", f"{mod.file.rel}:{st.lineno}")


# ------------------------------------------------------------------------------------ R3
def writer_numbers_for(repo: Repo, ci: ClassInfo):
    w = chnm.WriterNumbers(repo, ci)
    return w.run(), w.problems


def specialised_classes(repo: Repo) -> List[ClassInfo]:
    out = []
    for ci in module_classes(repo):
        if "specialized_iff_chunks" in ci.methods or "load_chunk" in ci.methods or all_options(repo, ci):
            out.append(ci)
    return out


def chnm_pairing(repo: Repo, rep, P: str):
    classes = specialised_classes(repo)
    rep.count("classes_with_specialised_chunks", len(classes), 11)
    total = 0
    for ci in classes:
        rel = ci.file.rel
        construct = f"{rel}:{ci.qualname}"
        rep.func(f"{ci.fq}.specialized_iff_chunks / load_chunk")
        try:
            nums, problems = writer_numbers_for(repo, ci)
        except AnchorMissing as e:
            rep.inconclusive(f"{P}.R3", construct, "", str(e), rel)
            continue
        for msg, node in problems:
            rep.inconclusive(f"{P}.R3", construct, msg, "writer construct not modelled", f"{rel}:{getattr(node, 'lineno', 0)}")
        for n in nums:
            ks = sorted({n.lo, n.hi, min(n.hi, n.lo + n.step)})
            for k in ks:
                total += 1
                tgt, node = chnm.reader_target(repo, ci, k)
                text = f"chunk {k:#x}: written from `{n.field}` by {n.fn}"
                where = f"{rel}:{getattr(n.node, 'lineno', 0)}"
                if tgt.startswith("?"):
                    rep.inconclusive(f"{P}.R3", construct, text, "reader dispatch not followed: " + tgt[1:], where)
                elif tgt == "":
                    rep.violation(f"{P}.R3", construct, text,
                                  f"{ci.name} writes chunk number {k:#x} but its load_chunk does not dispatch it: the data is lost on load", where)
                elif tgt != n.field and not re.fullmatch(r"\w+(\[\w+\])?", n.field):
                    rep.inconclusive(f"{P}.R3", construct, text + f"; loaded into `{tgt}`",
                                     "the written payload is a computed value: which attribute it serialises is not recognised", where)
                elif tgt != n.field:
                    rep.violation(f"{P}.R3", construct, text + f"; loaded into `{tgt}`",
                                  f"{ci.name}: chunk {k:#x} is written from `{n.field}` but loaded into `{tgt}`", where)
                else:
                    rep.ok(f"{P}.R3", construct, text, f"load_chunk → `{tgt}`")
        # reverse: every number load_chunk dispatches into public state is written by the class
        r = repo.lookup(ci, "load_chunk")
        if r is not None and r[1] == "method" and r[0].name != "Module":
            consts = set()
            for node in ast.walk(r[2]):
                if isinstance(node, ast.Compare):
                    for c in [node.left] + list(node.comparators):
                        try:
                            v = repo.fold(c, ci=ci, sf=r[0].file)
                            if isinstance(v, int) and not isinstance(v, bool) and 0 <= v < 0x400:
                                consts.add(v)
                        except NotConst:
                            pass
            covered = lambda k: any(n.lo <= k <= n.hi and (k - n.lo) % n.step == 0 for n in nums)
            for k in sorted(consts):
                tgt, node = chnm.reader_target(repo, ci, k)
                if not tgt or tgt.startswith("?") or tgt.startswith("_") or covered(k):
                    continue
                # parity-dispatched families (sampler): a constant that only bounds a family is not a number of its own
                if any(n.lo <= k + 1 <= n.hi or n.lo <= k - 1 <= n.hi for n in nums if n.step > 1) and tgt in ("sample_meta", "sample_data"):
                    continue
                if problems:
                    rep.inconclusive(f"{P}.R3", construct, f"chunk {k:#x} → `{tgt}`",
                                     "no writer found for this chunk number, but part of the writer was not modelled", f"{rel}:{getattr(node, 'lineno', 0)}")
                    continue
                rep.violation(f"{P}.R3", construct, f"chunk {k:#x} → `{tgt}`",
                              f"{ci.name}.load_chunk loads chunk number {k:#x} into `{tgt}`, but the class never writes that chunk: "
                              f"`{tgt}` is dropped on save and comes back as its default", f"{rel}:{getattr(node, 'lineno', 0)}")
        # options: generated option list non-empty ⇒ options number is written and dispatched
        if all_options(repo, ci):
            fields = {n.field for n in nums}
            if "options" not in fields and problems:
                rep.inconclusive(f"{P}.R3", construct, "super().specialized_iff_chunks()",
                                 "options writer not found, but part of the writer was not modelled", rel)
            elif "options" not in fields:
                rep.violation(f"{P}.R3", construct, "super().specialized_iff_chunks()",
                              f"{ci.name} has options but its specialised writer never reaches Module.options_chunks "
                              "(missing super() call): options are not saved", rel)
            try:
                k = class_const(repo, ci, "options_chnm")
                tgt, _ = chnm.reader_target(repo, ci, k)
                if tgt is None or (tgt or "").startswith("?"):
                    rep.inconclusive(f"{P}.R3", construct, f"options_chnm = {k}",
                                     f"what {ci.name}.load_chunk does with chunk {k} was not followed ({tgt})", rel)
                elif tgt != "options":
                    rep.violation(f"{P}.R3", construct, f"options_chnm = {k}",
                                  f"{ci.name}.load_chunk does not hand chunk {k} to load_options", rel)
            except (AnchorMissing, NotConst):
                rep.inconclusive(f"{P}.R3", construct, "options_chnm", "not constant", rel)
    rep.count("chunk_numbers_checked", total, 39)
    # Module.specialized_iff_chunks: options or the (None, None) placeholder
    mod = repo.cls("Module", module="rv.modules.module")
    sic = inline.nest_guard_clauses(repo.own_method(mod, "specialized_iff_chunks"))
    src = norm(sic)
    gsic = CFG(sic)
    dsic = gsic.dominators()
    emits = [n for n in gsic.nodes if n.kind == "stmt" and isinstance(n.ast, ast.Expr) and isinstance(n.ast.value, ast.YieldFrom)
             and norm(n.ast.value.value) == "self.options_chunks()"]
    if emits and all(c14._facts(c14._dominating_conditions(gsic, dsic, n.id)) <= {"self.options", "nonempty(self.options)"} for n in emits):
        rep.ok(f"{P}.R3", f"{mod.file.rel}:Module.specialized_iff_chunks", "if self.options: yield from self.options_chunks()")
    else:
        rep.violation(f"{P}.R3", f"{mod.file.rel}:Module.specialized_iff_chunks", src[:120], "base writer no longer emits the options chunk",
                      mod.file.rel)


def chnm_below_chnk(repo: Repo, rep, P: str, rule: str):
    """C03 R5: every module-specific chunk number is below the declared CHNK count."""
    n = 0
    for ci in specialised_classes(repo):
        rel = ci.file.rel
        construct = f"{rel}:{ci.qualname}"
        try:
            nums, problems = writer_numbers_for(repo, ci)
        except AnchorMissing:
            continue
        if not nums:
            continue
        mx = max(x.hi for x in nums)
        r = repo.lookup(ci, "chnk")
        vals: List[Any] = []
        if r and r[1] == "assign":
            try:
                vals = [repo.fold(r[2], ci=r[0])]
            except NotConst:
                vals = []
        elif r and r[1] == "property" and r[2][0] is not None:
            for st in walk_no_nested(r[2][0]):
                if isinstance(st, ast.Return) and st.value is not None:
                    if isinstance(st.value, ast.IfExp):
                        for br in (st.value.body, st.value.orelse):
                            try:
                                vals.append(repo.fold(br, ci=ci, sf=r[0].file))
                            except NotConst:
                                pass
                    else:
                        try:
                            vals.append(repo.fold(st.value, ci=ci, sf=r[0].file))
                        except NotConst:
                            pass
        live = [v for v in vals if v]
        n += 1
        if not live:
            rep.violation(f"{P}.{rule}", construct, f"chnk = {vals}",
                          f"{ci.name} can write chunk numbers up to {mx:#x} but declares no CHNK count (nothing specialised is written or loaded)", rel)
        elif min(live) <= mx:
            rep.violation(f"{P}.{rule}", construct, f"chnk = {min(live)}; highest chunk number {mx:#x} ({[x.field for x in nums if x.hi == mx][0]})",
                          f"{ci.name} declares CHNK = {min(live)} but writes chunk number {mx}: the count must be at least "
                          "one more than the highest CHNM", rel)
        else:
            rep.ok(f"{P}.{rule}", construct, f"max CHNM {mx:#x} < CHNK {min(live):#x}")
    rep.count(f"{rule}.classes", n, 11)


# ------------------------------------------------------------------------------------ R4
def array_chunk_classes(repo: Repo) -> List[Tuple[ClassInfo, ClassInfo, str]]:
    """(module class, array chunk class, attribute) for every ArrayChunk instantiated by module code."""
    out = []
    for ci in module_classes(repo):
        for attr, (k, call) in chnm.mro_instance_classes(repo, ci).items():
            if k is not None:
                try:
                    if repo.is_subclass(k, "ArrayChunk"):
                        out.append((ci, k, attr))
                except AnchorMissing:
                    pass
    return out


def _fmt_parts(e: ast.expr):
    """A struct format expression as a list of constant strings, ('sym', text) and ('rep', code text, count text) items; None when
    it has another shape.  '<' + self.type * self.length, f"<{self.type * self.length}" and f"<{self.type}" all read the same way."""
    out: list = []

    def add(x):
        if isinstance(x, str) and out and isinstance(out[-1], str):
            out[-1] += x
        elif x != "":
            out.append(x)

    def go(x) -> bool:
        if isinstance(x, ast.Constant) and isinstance(x.value, str):
            add(x.value)
            return True
        if isinstance(x, ast.BinOp) and isinstance(x.op, ast.Add):
            return go(x.left) and go(x.right)
        if isinstance(x, ast.JoinedStr):
            for v in x.values:
                if isinstance(v, ast.Constant):
                    add(v.value)
                elif isinstance(v, ast.FormattedValue) and v.format_spec is None and v.conversion == -1:
                    if not go(v.value):
                        return False
                else:
                    return False
            return True
        if isinstance(x, ast.BinOp) and isinstance(x.op, ast.Mult):
            for a, b in ((x.left, x.right), (x.right, x.left)):
                if isinstance(a, (ast.Attribute, ast.Name)) and not (isinstance(b, ast.Constant) and isinstance(b.value, str)):
                    add(("rep", norm(a), norm(b)))
                    return True
                if isinstance(a, ast.Constant) and isinstance(a.value, str):
                    add(("rep", repr(a.value), norm(b)))
                    return True
            return False
        if isinstance(x, (ast.Attribute, ast.Name)):
            add(("sym", norm(x)))
            return True
        return False
    return out if go(e) else None


def _array_decoder(repo: Repo, arr: ClassInfo, sb: ast.FunctionDef) -> Tuple[str, str]:
    """('ok' | '?' | 'bad', detail) for ArrayChunk._set_bytes: element k is decoded from value[k·es : (k+1)·es] with format
    '<' + self.type for k < len(value) // es, single-field elements unwrapped, converted by python_type and appended to a fresh
    self.values."""
    from .. import alg, packed
    fn = inline.split_rebinds(inline.normalize(repo, arr, sb, aliases=True))
    vparam = [a.arg for a in fn.args.args if a.arg != "self"][0]
    fdefs = packed.single_defs(fn)
    loops = [n for n in walk_no_nested(fn) if isinstance(n, ast.For)]
    if len(loops) != 1 or not isinstance(loops[0].target, ast.Name) or not isinstance(loops[0].iter, ast.Call) or norm(loops[0].iter.func) != "range":
        return "?", "one `for … in range(…)` loop expected"
    lp = loops[0]
    xv = lp.target.id
    ES, N, X = alg.Poly.sym("es"), alg.Poly.sym("N"), alg.Poly.sym("x")

    def leaf(e):
        if norm(e) == "self.element_size":
            return ES
        if isinstance(e, ast.BinOp) and isinstance(e.op, ast.FloorDiv) and norm(e.left) == f"len({vparam})" and norm(packed.resolve_names(e.right, fdefs)) == "self.element_size":
            return N
        if isinstance(e, ast.Name) and e.id == xv:
            return X
        if isinstance(e, ast.Name) and e.id in fdefs:
            return alg.to_poly(fdefs[e.id], leaf)
        return None
    try:
        r = [alg.to_poly(a, leaf) for a in lp.iter.args]
    except alg.NotAlgebraic as e:
        return "?", f"loop range {norm(lp.iter)}: {e}"
    zero, one = alg.Poly.const(0), alg.Poly.const(1)
    start, stop, step = (zero, r[0], one) if len(r) == 1 else (r[0], r[1], one) if len(r) == 2 else (r[0], r[1], r[2])
    # the unpack call and its slice
    unp = [c for c in ast.walk(lp) if isinstance(c, ast.Call) and norm(c.func) in ("unpack", "struct.unpack") and len(c.args) == 2]
    if len({norm(u) for u in unp}) == 1:
        unp = unp[:1]              # one decode written out at each of its uses (a helper read through as an expression)
    if len(unp) != 1:
        return "?", f"{len(unp)} unpack calls in the loop"
    ldefs = packed.single_defs(ast.Module(body=lp.body, type_ignores=[]))
    alld = {**fdefs, **ldefs}
    parts = _fmt_parts(packed.resolve_names(unp[0].args[0], alld))
    sl = packed.resolve_names(unp[0].args[1], ldefs)
    if parts is None or not (isinstance(sl, ast.Subscript) and isinstance(sl.slice, ast.Slice) and norm(sl.value) == vparam
                             and sl.slice.lower is not None and sl.slice.upper is not None and sl.slice.step is None):
        return "?", norm(unp[0])
    if parts != ["<", ("sym", "self.type")]:
        if len(parts) == 2 and parts[1] == ("sym", "self.type") and parts[0] in (">", "!", "=", "@"):
            return "bad", f"elements are decoded with byte order {parts[0]!r}, the encoder writes '<'"
        if len(parts) == 1 and parts[0] == ("sym", "self.type"):
            return "bad", "elements are decoded in native byte order / alignment, the encoder writes '<'"
        return "?", f"format {parts}"
    try:
        lo, hi = alg.to_poly(sl.slice.lower, leaf), alg.to_poly(sl.slice.upper, leaf)
    except alg.NotAlgebraic as e:
        return "?", f"slice bounds: {e}"
    if hi - lo != ES:
        return "bad", f"each element is cut as value[{lo} : {hi}] — {hi - lo} bytes instead of element_size"
    by_index = (start, stop, step) == (zero, N, one) and lo == X * ES
    by_offset = (start, stop, step) == (zero, N * ES, ES) and lo == X
    if not (by_index or by_offset):
        if step in (one, ES) and start == zero and (lo == X * ES or lo == X):
            return "bad", f"elements are taken at {lo} for x in range({start}, {stop}, {step}): not every whole element of the data (N = len // es)"
        return "?", f"range({start}, {stop}, {step}) with slice from {lo}"
    # conversion and store
    appends = [c for c in ast.walk(lp) if isinstance(c, ast.Call) and isinstance(c.func, ast.Attribute) and c.func.attr == "append" and len(c.args) == 1]
    if len(appends) != 1:
        return "?", f"{len(appends)} appends in the loop"
    dest = norm(appends[0].func.value)
    fresh = False
    for n in walk_no_nested(fn):
        if isinstance(n, ast.Assign) and isinstance(n.value, ast.List) and not n.value.elts and inline.pos(n) < inline.pos(lp):
            tg = [norm(t) for t in n.targets]
            if "self.values" in tg and (dest == "self.values" or dest in tg):
                fresh = True
    if not fresh:
        return "?", f"decoded elements are appended to {dest}; no `self.values = []` before the loop"
    item = packed.resolve_names(appends[0].args[0], ldefs)
    if isinstance(item, ast.IfExp) and all(isinstance(b_, ast.Call) and norm(b_.func) == "self.python_type" and len(b_.args) == 1 for b_ in (item.body, item.orelse)):
        item = item.body          # python_type(fields[0]) if len(fields) == 1 else python_type(fields): converted on both branches
    if isinstance(item, ast.Call) and norm(item.func) != "self.python_type" and (
            (isinstance(item.func, ast.Attribute) and norm(item.func.value) in ("self", "cls", "type(self)")) or isinstance(item.func, (ast.Name, ast.Call))) \
            and norm(item.func) not in ("int", "float", "tuple", "list", "bytes", "bool", "str"):
        return "?", f"decoded elements go through {norm(item.func)}, which is not read through"
    if not (isinstance(item, ast.Call) and norm(item.func) == "self.python_type" and len(item.args) == 1):
        return "bad", f"decoded elements are stored as {norm(item)[:60]} without the python_type conversion"
    return "ok", ""


def struct_field_orders(repo: Repo, k: ClassInfo) -> Tuple[Optional[List[str]], Optional[List[str]]]:
    """(fields in the order encoded_values writes them, fields in the order the element class's constructor takes them) of a
    struct-typed array chunk; None where the shape is not recognised."""
    ev = repo.lookup(k, "encoded_values")
    pt = repo.lookup(k, "python_type")
    order_w = order_r = None
    if ev and ev[1] == "property" and ev[2][0] is not None:
        evn = inline.normalize(repo, ev[0], ev[2][0], aliases=True)
        for n in ast.walk(evn):
            if isinstance(n, (ast.GeneratorExp, ast.ListComp)) and isinstance(n.elt, (ast.Tuple, ast.List)) and len(n.generators) == 1 \
                    and isinstance(n.generators[0].target, ast.Name) \
                    and all(isinstance(e, ast.Attribute) and norm(e.value) == n.generators[0].target.id for e in n.elt.elts):
                order_w = [e.attr for e in n.elt.elts]
            # [field for m in self.values for field in (m.module, m.controller)]
            if isinstance(n, (ast.GeneratorExp, ast.ListComp)) and len(n.generators) == 2 and isinstance(n.generators[0].target, ast.Name) \
                    and isinstance(n.generators[1].target, ast.Name) and isinstance(n.elt, ast.Name) and n.elt.id == n.generators[1].target.id \
                    and not n.generators[0].ifs and not n.generators[1].ifs and isinstance(n.generators[1].iter, (ast.Tuple, ast.List)) \
                    and all(isinstance(e, ast.Attribute) and norm(e.value) == n.generators[0].target.id for e in n.generators[1].iter.elts):
                order_w = [e.attr for e in n.generators[1].iter.elts]
            # map(attrgetter("min", "max", …), self.values) / G(x) for each x of self.values: the fields in the order the getter names them
            if isinstance(n, ast.Call) and order_w is None and (
                    (norm(n.func) == "map" and len(n.args) == 2) or
                    (len(n.args) == 1 and isinstance(n.args[0], ast.Name) and isinstance(n.func, (ast.Name, ast.Attribute)))):
                g_ = n.args[0] if norm(n.func) == "map" else n.func
                owner_k = ev[0]
                if isinstance(g_, ast.Name):
                    from ..packed import single_defs as _sd_ev
                    _loc = _sd_ev(evn).get(g_.id)          # `record = attrgetter(...)` bound once in the getter itself
                    if _loc is not None:
                        g_ = _loc
                if isinstance(g_, (ast.Name, ast.Attribute)):
                    d_ = None
                    for k_try in [ev[0]] + [x for x in [getattr(ev[0], "outer", None)] if x is not None]:
                        try:
                            d_ = inline.definition_of(repo, k_try, ev[0].file, g_)
                        except Exception:
                            d_ = None
                        if d_ is not None:
                            break
                    if d_ is None and isinstance(g_, ast.Attribute) and isinstance(g_.value, ast.Name) and g_.value.id == "self":
                        # a getter stored on the enclosing class (`_mapping_record = attrgetter(...)` next to the nested array class)
                        for k2 in repo.all_classes():
                            if k2.file is ev[0].file and g_.attr in k2.assigns:
                                d_, owner_k = k2.assigns[g_.attr], k2
                                break
                    g_ = d_ or g_
                if isinstance(g_, ast.Call) and norm(g_.func) == "staticmethod" and len(g_.args) == 1:
                    g_ = g_.args[0]
                if isinstance(g_, ast.Call) and norm(g_.func) in ("attrgetter", "operator.attrgetter"):
                    names_ = None
                    if len(g_.args) > 1 and all(isinstance(a, ast.Constant) and isinstance(a.value, str) and "." not in a.value for a in g_.args):
                        names_ = [a.value for a in g_.args]
                    elif len(g_.args) == 1 and isinstance(g_.args[0], ast.Starred):
                        for scope in (owner_k, k, None):
                            try:
                                v_ = repo.fold(g_.args[0].value, ci=scope, sf=ev[0].file)
                            except Exception:
                                v_ = None
                            if isinstance(v_, (tuple, list)) and v_ and all(isinstance(x, str) for x in v_):
                                names_ = list(v_)
                                break
                    if names_:
                        order_w = names_
    ecls = None
    if pt and pt[1] == "property" and pt[2][0] is not None:
        for st in pt[2][0].body:
            if isinstance(st, ast.Return):
                ecls = repo.class_of_expr(st.value, k, k.file)
    if ecls is not None and "__init__" in ecls.methods:
        # for field, item in zip(FIELDS, value[:8]): setattr(self, field, item)
        for lp in [x for x in walk_no_nested(ecls.methods["__init__"]) if isinstance(x, ast.For)]:
            if isinstance(lp.iter, ast.Call) and norm(lp.iter.func) == "zip" and len(lp.iter.args) == 2 and isinstance(lp.target, ast.Tuple) and len(lp.target.elts) == 2 \
                    and any(isinstance(c_, ast.Call) and norm(c_.func) == "setattr" and len(c_.args) == 3 and norm(c_.args[0]) == "self"
                            and norm(c_.args[1]) == norm(lp.target.elts[0]) and norm(c_.args[2]) == norm(lp.target.elts[1]) for c_ in ast.walk(lp)):
                try:
                    v_ = repo.fold(lp.iter.args[0], ci=ecls, sf=ecls.file)
                except Exception:
                    v_ = None
                if isinstance(v_, (tuple, list)) and all(isinstance(x, str) for x in v_):
                    order_r = list(v_)
        for n in walk_no_nested(ecls.methods["__init__"]):
            if isinstance(n, ast.Assign) and isinstance(n.targets[0], ast.Tuple):
                order_r = [norm(e).split(".")[-1] for e in n.targets[0].elts]
                need_n = len(order_r)
                # the value side must provide exactly that many items
                if isinstance(n.value, ast.Subscript) and isinstance(n.value.slice, ast.Slice):
                    try:
                        hi = repo.fold(n.value.slice.upper, ci=ecls)
                        if hi != need_n:
                            order_r = order_r + [f"<slice {hi}>"]
                    except (NotConst, TypeError):
                        pass
                # self.a, self.b = value[0], value[1]: by the positions named on the value side
                if isinstance(n.value, ast.Tuple) and len(n.value.elts) == need_n and all(
                        isinstance(e, ast.Subscript) and isinstance(e.slice, ast.Constant) and isinstance(e.slice.value, int) and isinstance(e.value, ast.Name)
                        for e in n.value.elts) and len({e.value.id for e in n.value.elts}) == 1:
                    idx = [e.slice.value for e in n.value.elts]
                    if sorted(idx) == list(range(need_n)):
                        order_r = [nm for _, nm in sorted(zip(idx, order_r))]
                    else:
                        order_r = None
    return order_w, order_r


def array_constants(repo: Repo, rep, P: str):
    arr = repo.cls("ArrayChunk", module="rv.chunks.array")
    rel = arr.file.rel
    rep.func("rv.chunks.array.ArrayChunk.bytes / _set_bytes")
    g = arr.getters.get("bytes")
    sb = arr.methods.get("_set_bytes")
    if g is None or sb is None:
        raise AnchorMissing("ArrayChunk.bytes/_set_bytes")
    from .. import alg
    from ..packed import single_defs, resolve_names
    gn = inline.normalize(repo, arr, g, aliases=True)
    gdefs = single_defs(gn)
    gret = [st.value for st in walk_no_nested(gn) if isinstance(st, ast.Return)]
    gs = norm(gret[-1]) if gret else norm(g)[:120]
    gcall = resolve_names(gret[-1], gdefs) if len(gret) == 1 else None
    gverdict = "?"
    if isinstance(gcall, ast.Call) and norm(gcall.func) in ("pack", "struct.pack") and len(gcall.args) == 2:
        parts = _fmt_parts(gcall.args[0])
        vals = gcall.args[1]
        if parts is not None and isinstance(vals, ast.Starred) and norm(vals.value) == "self.encoded_values":
            if parts == ["<", ("rep", "self.type", "self.length")]:
                gverdict = "ok"
            elif len(parts) == 2 and isinstance(parts[0], str) and parts[0] in (">", "!", "=", "@") and isinstance(parts[1], tuple):
                gverdict = f"byte order {parts[0]!r}"
            elif parts and isinstance(parts[-1], tuple) and parts[-1][0] == "rep" and parts[-1][1:] != ("self.type", "self.length") and parts[:-1] == ["<"]:
                gverdict = f"{parts[-1][2]} elements of {parts[-1][1]}"
    if gverdict == "ok":
        rep.ok(f"{P}.R4", f"{rel}:ArrayChunk.bytes", gs, "little-endian, `length` elements of `type`")
    elif gverdict == "?":
        rep.inconclusive(f"{P}.R4", f"{rel}:ArrayChunk.bytes", gs, "array encoding not recognised", f"{rel}:{g.lineno}")
    else:
        rep.violation(f"{P}.R4", f"{rel}:ArrayChunk.bytes", gs, f"array bytes must be pack('<' + type*length, *encoded_values) ({gverdict})", f"{rel}:{g.lineno}")
    verdict, detail = _array_decoder(repo, arr, sb)
    if verdict == "ok":
        rep.ok(f"{P}.R4", f"{rel}:ArrayChunk._set_bytes", "unpack(f'<{self.type}', value[x*es:(x+1)*es]) per element", "same byte order and element type as the getter")
    elif verdict == "?":
        rep.inconclusive(f"{P}.R4", f"{rel}:ArrayChunk._set_bytes", detail, "array decoding not recognised", f"{rel}:{sb.lineno}")
    else:
        rep.violation(f"{P}.R4", f"{rel}:ArrayChunk._set_bytes", detail,
                      "array decoding no longer mirrors the encoder (byte order / element type / stride)", f"{rel}:{sb.lineno}")
    used = array_chunk_classes(repo)
    rep.count("array_chunk_instances", len(used), 12)
    for mci, k, attr in used:
        con = f"{k.file.rel}:{k.qualname}"

        def const(name):
            r = repo.lookup(k, name)
            if r is None:
                return None
            if r[1] == "assign":
                try:
                    return repo.fold(r[2], ci=r[0])
                except NotConst:
                    return ("expr",)
            return ("dynamic", r[1])
        t, es, ln, dflt = const("type"), const("element_size"), const("length"), const("default")
        where = f"{k.file.rel}:{k.node.lineno}"
        text = f"{mci.name}.{attr}: type={t!r} element_size={es!r} length={ln!r}"
        if not isinstance(t, str) or not isinstance(es, int) or not isinstance(ln, int):
            rep.violation(f"{P}.R4", con, text, "an instantiated array chunk must have constant type, element_size and length", where)
            continue
        try:
            sz = struct.calcsize("<" + t)
        except struct.error:
            rep.violation(f"{P}.R4", con, text, f"type {t!r} is not a struct format", where)
            continue
        if sz != es:
            rep.violation(f"{P}.R4", con, text, f"element_size {es} ≠ calcsize('<{t}') = {sz}: the decoder cuts elements at the wrong stride", where)
            continue
        if isinstance(dflt, list) and len(dflt) != ln:
            rep.violation(f"{P}.R4", con, text + f" default has {len(dflt)} elements", "default list length ≠ declared length", where)
            continue
        # struct-typed arrays: encoded_values field order = constructor destructuring order
        if len(t) > 1:
            order_w, order_r = struct_field_orders(repo, k)
            if order_w is None or order_r is None:
                rep.inconclusive(f"{P}.R4", con, text, "struct element field order not recognised", where)
                continue
            if order_w != order_r or len(order_w) != len(t):
                rep.violation(f"{P}.R4", con, f"encoded {order_w} / constructor {order_r} / type {t!r}",
                              "struct array: the order (or number) of fields written differs from the order the element "
                              "constructor unpacks", where)
                continue
        rep.ok(f"{P}.R4", con, text, f"calcsize('<{t}') = {es}")
    # MappingArray default factories produce the element type
    for mci, k, attr in used:
        d = k.methods.get("default")
        if d is not None:
            ret = [norm(s.value) for s in d.body if isinstance(s, ast.Return)]
            rep.info(f"{P}.R4", f"{k.file.rel}:{k.qualname}.default", "; ".join(ret), "callable default")


# ------------------------------------------------------------------------------------ R5
def unit_before_dependant(repo: Repo, rep, P: str):
    mr = repo.cls("ModuleReader", module="rv.readers.module")
    send = repo.own_method(mr, "process_SEND")
    rel = mr.file.rel
    src = norm(send)
    from .. import order
    app = order.cval_application(repo)
    reversed_loop = app.direction == -1
    forward_loop = app.direction == +1
    n = 0
    for ci in module_classes(repo):
        ctls = all_controllers(repo, ci)
        names = [c.name for c in ctls]
        for c in ctls:
            if c.kind == "dependent":
                n += 1
                con = f"{c.owner.file.rel}:{c.owner.qualname}.{c.name}"
                if c.dep_ctl not in names:
                    rep.violation(f"{P}.R5", con, f"depends on {c.dep_ctl!r}", "unit controller does not exist", c.owner.file.rel)
                    continue
                i_dep, i_unit = names.index(c.name), names.index(c.dep_ctl)
                # stored values are applied last-to-first when the loop is reversed
                unit_first = (i_unit > i_dep) if reversed_loop else (i_unit < i_dep)
                if unit_first:
                    rep.ok(f"{P}.R5", con, f"#{i_dep + 1} {c.name} depends on #{i_unit + 1} {c.dep_ctl}",
                           f"stored values are applied {'last-to-first' if reversed_loop else 'first-to-last'}: the unit is set before its dependant")
                else:
                    rep.violation(f"{P}.R5", con, f"#{i_dep + 1} {c.name} depends on #{i_unit + 1} {c.dep_ctl}",
                                  f"stored values are applied {'last-to-first' if reversed_loop else 'first-to-last'}, so `{c.name}` is "
                                  f"validated and offset against the DEFAULT unit's range before `{c.dep_ctl}` is loaded", f"{rel}:{send.lineno}")
    rep.count("dependent_controllers", n, 6)
    if not (reversed_loop or forward_loop):
        rep.inconclusive(f"{P}.R5", f"{rel}:ModuleReader.process_SEND", "", "CVAL application loop not recognised", f"{rel}:{send.lineno}")
    # Module.__init__ seeds non-dependants first
    mod = repo.cls("Module", module="rv.modules.module")
    from . import c09
    seeds, init = c09.controller_seeding(repo)
    filters = [f for f, _, _ in seeds]
    if filters in (["plain", "dependent"], ["all-sorted"]):
        rep.ok(f"{P}.R5", f"{mod.file.rel}:Module.__init__", " → ".join(filters), "plain controllers seeded first, dependants second")
    elif "?" in filters or not filters:
        rep.inconclusive(f"{P}.R5", f"{mod.file.rel}:Module.__init__", "; ".join(t for _, _, t in seeds)[:240], "controller seeding order not recognised",
                         f"{mod.file.rel}:{init.lineno}")
    else:
        rep.violation(f"{P}.R5", f"{mod.file.rel}:Module.__init__", str(filters),
                      "the constructor must seed unit controllers before the controllers whose range depends on them", f"{mod.file.rel}:{init.lineno}")
    kl = order.reader_key_list(repo)
    if kl.attached_first is True and not kl.problems:
        rep.ok(f"{P}.R5", f"{rel}:ModuleReader.process_STYP", "_controller_keys = attached controllers in order",
               "n-th stored value ↔ n-th attached controller (same filter as the writers)")
    elif kl.attached_first is None or kl.problems:
        rep.inconclusive(f"{P}.R5", f"{rel}:ModuleReader.process_STYP", kl.text[:200], f"key list construction not recognised {kl.problems[:2]}",
                         f"{rel}:{kl.where}")
    else:
        rep.violation(f"{P}.R5", f"{rel}:ModuleReader.process_STYP", kl.text[:200],
                      "the reader must map stored values to the ATTACHED controllers in definition order (the list the writers use)",
                      f"{rel}:{kl.where}")
    if app.positional is True:
        rep.ok(f"{P}.R5", f"{rel}:ModuleReader.process_SEND", app.text[:160], "the n-th stored value goes to the n-th key through set_raw")
    elif app.positional is False:
        rep.violation(f"{P}.R5", f"{rel}:ModuleReader.process_SEND", app.text[:200], "stored values are no longer applied by position through set_raw",
                      f"{rel}:{app.where}")
    else:
        rep.inconclusive(f"{P}.R5", f"{rel}:ModuleReader.process_SEND", app.text[:200], "pairing of stored values and controller names not recognised",
                         f"{rel}:{app.where}")


# ------------------------------------------------------------------------------------ R6
def clone_rule(repo: Repo, rep, P: str):
    mod = repo.cls("Module", module="rv.modules.module")
    fn = repo.own_method(mod, "clone")
    rel = mod.file.rel
    stmts = [norm(s) for s in stmts_of(fn)]
    from .. import bufstate
    verdict, val, events = bufstate.clone_verdict(repo, mod, "clone")
    if verdict == "ok" and val == bufstate.Part("Synth(self)", "module"):
        rep.ok(f"{P}.R6", f"{rel}:Module.clone", "; ".join(events)[:200], "clone = Synth(self) saved, rewound and loaded; the loaded synth's module is returned")
    elif verdict == "wrong" or verdict == "ok":
        why = val.reason if verdict == "wrong" else f"clone returns {val}, not the module of the synth read back"
        rep.violation(f"{P}.R6", f"{rel}:Module.clone", "; ".join(stmts)[:200],
                      "Module.clone must write Synth(self) and return the module of the synth read back: " + why, f"{rel}:{fn.lineno}")
    else:
        rep.inconclusive(f"{P}.R6", f"{rel}:Module.clone", "; ".join(stmts)[:200] + " | " + "; ".join(events)[:200],
                         "Module.clone is not of a recognised save-and-load shape", f"{rel}:{fn.lineno}")
    # the synth reader installs the module it read
    ssr = repo.cls("SunSynthReader", module="rv.readers.sunsynth")
    from ..packed import single_defs, resolve_names
    sfff = inline.normalize(repo, ssr, repo.own_method(ssr, "process_SFFF", raw=True), also=codec.section_helpers(repo, ssr))
    s = norm(sfff)
    dparam = (shape.params(sfff) or ["data"])[0]
    rewinds = [c for c in shape.calls_to(sfff, "rewind") if c.args and norm(c.args[0]) == dparam]
    readers = [c for c in shape.calls_to(sfff, "ModuleReader") if c.args and norm(c.args[0]) == "self.f"
               and ((shape.keyword(c, "index") is not None and norm(shape.keyword(c, "index")) == "1") or (len(c.args) > 1 and norm(c.args[1]) == "1"))]
    sdefs = single_defs(sfff)
    installs = [n for n in ast.walk(sfff) if isinstance(n, ast.Assign) and any(norm(t) == "self.object.module" for t in n.targets)]
    installed = resolve_names(installs[-1].value, sdefs) if installs else None
    if rewinds and readers and installed is not None and isinstance(installed, ast.Attribute) and installed.attr == "object" \
            and any(installed.value is r or norm(installed.value) == norm(r) for r in readers):
        rep.ok(f"{P}.R6", f"{ssr.file.rel}:SunSynthReader.process_SFFF", "rewind; ModuleReader(index=1); synth.module = mod")
    elif any(isinstance(c, ast.Call) and isinstance(c.func, ast.Attribute) and norm(c.func.value) == "self" and c.func.attr not in ("rewind",)
             and any(norm(a) == dparam for a in c.args) for c in ast.walk(sfff)):
        # the chunk is handed to a method of the reader that was not read through
        rep.inconclusive(f"{P}.R6", f"{ssr.file.rel}:SunSynthReader.process_SFFF", s[:160], "how the synth reader reads its module is not recognised",
                         ssr.file.rel)
    else:
        rep.violation(f"{P}.R6", f"{ssr.file.rel}:SunSynthReader.process_SFFF", s[:160], "the synth reader must read one module and install it",
                      ssr.file.rel)


# ------------------------------------------------------------------------------------ R7
def drawn_waveforms(repo: Repo, rep, P: str):
    wc = repo.cls("WaveformChunk", module="rv.chunks.waveform")
    g = wc.getters.get("bytes")
    rel = wc.file.rel
    from .. import bits as _bits
    mask_bits = None
    w_verdict = "?"
    for n in walk_no_nested(g):
        if isinstance(n, (ast.GeneratorExp, ast.ListComp)) and len(n.generators) == 1 and isinstance(n.generators[0].target, ast.Name) \
                and norm(n.generators[0].iter) == "self.samples" and not n.generators[0].ifs:
            yv = n.generators[0].target.id
            try:
                ev = _bits.BitEval(repo, wc, {yv: _bits.BV.term("y")})
                lb = _bits.low_bits_of_single_term(ev.ev(n.elt))
                if lb is not None and lb[0] == "y":
                    mask_bits = lb[1]
                    w_verdict = "ok" if mask_bits == 8 else "bad"
            except _bits.Unsupported:
                pass
    if w_verdict == "ok":
        rep.ok(f"{P}.R7", f"{rel}:WaveformChunk.bytes", "bytes(y & 0xFF for y in samples)", "two's-complement byte of each sample")
    elif w_verdict == "?":
        rep.inconclusive(f"{P}.R7", f"{rel}:WaveformChunk.bytes", norm(g)[:160], "sample encoding not recognised", f"{rel}:{g.lineno}")
    else:
        rep.violation(f"{P}.R7", f"{rel}:WaveformChunk.bytes", norm(g)[:160], "8-bit samples must be written as y & 0xFF", f"{rel}:{g.lineno}")
    bodies = []
    for cname, mod in (("Generator", "rv.modules.generator"), ("AnalogGenerator", "rv.modules.analoggenerator")):
        ci = repo.cls(cname, module=mod)
        dwk = repo.cls("DrawnWaveformChunk", module="rv.chunks.drawnwaveform")
        fn = inline.normalize(repo, ci, repo.own_method(ci, "load_drawn_waveform", raw=True), aliases=True,
                              receivers={"self.drawn_waveform": dwk})        # a private loader method of the chunk object is read through
        bodies.append((ci, fn, norm(ast.Module(body=[x for x in stmts_of(fn) if not (isinstance(x, ast.Expr) and isinstance(x.value, ast.Constant))],
                                               type_ignores=[]))))
        con = f"{ci.file.rel}:{cname}.load_drawn_waveform"
        cparam = (shape.params(fn) or ["chunk"])[0]
        # the decoder: a comprehension over the chunk's bytes whose element is a pure integer expression of the byte.  A byte has
        # 256 values: the expression is folded (the analyser's own constant folder, no repository code runs) for each of them and
        # compared with sign extension, the inverse of `y & 0xFF` on [-128, 127].
        stores = [n for n in ast.walk(fn) if isinstance(n, ast.Assign) and any(norm(t) == "self.drawn_waveform.samples" for t in n.targets)]
        verdict, detail = "?", "no store into drawn_waveform.samples"
        if not stores:
            verdict = "nostore"
            handed = [c for c in ast.walk(fn) if isinstance(c, ast.Call) and any(isinstance(x, ast.Name) and x.id == cparam for a in list(c.args) + [k.value for k in c.keywords]
                                                                                   for x in ast.walk(a))]
            if handed:
                verdict, detail = "?", f"the chunk is handed to {norm(handed[0].func)}, which is not read through"
        for st_ in stores[-1:]:
            v = st_.value
            if isinstance(v, ast.Call) and norm(v.func) == "list" and len(v.args) == 1:
                v = v.args[0]
            if isinstance(v, (ast.ListComp, ast.GeneratorExp)) and len(v.generators) == 1 and not v.generators[0].ifs \
                    and isinstance(v.generators[0].target, ast.Name) and norm(v.generators[0].iter) == f"{cparam}.chdt":
                yv = v.generators[0].target.id
                if any(isinstance(x, ast.Name) and x.id not in (yv, "int") for x in ast.walk(v.elt)) or \
                        any(isinstance(x, ast.Call) and norm(x.func) != "int" for x in ast.walk(v.elt)) or any(isinstance(x, ast.Attribute) for x in ast.walk(v.elt)):
                    try:
                        v_elt = inline.fold_module_names(repo, ci.file, ast.Expression(body=v.elt), ci, ("int",)).body
                    except Exception:
                        v_elt = v.elt
                else:
                    v_elt = v.elt
                try:
                    wrong = None
                    for b in range(256):
                        got = repo.fold(v_elt, ci=ci, env={yv: b})
                        want = b - 256 if b >= 128 else b
                        if got != want:
                            wrong = (b, got, want)
                            break
                    verdict = "ok" if wrong is None else "bad"
                    if wrong:
                        detail = f"byte {wrong[0]} decodes to {wrong[1]}, expected {wrong[2]}"
                except NotConst as e:
                    verdict, detail = "?", f"decoder element not a foldable integer expression of the byte: {e}"
            else:
                verdict, detail = "?", f"samples are not a comprehension over {cparam}.chdt"
        if verdict == "ok" and mask_bits in (8, None):
            rep.ok(f"{P}.R7", con, norm(stores[-1].value)[:100], "8-bit sign extension on all 256 byte values: inverse of y & 0xFF on [-128, 127]")
        elif verdict == "ok":
            rep.violation(f"{P}.R7", con, norm(stores[-1].value)[:100], "the writer does not store the low 8 bits of each sample", f"{ci.file.rel}:{fn.lineno}")
        elif verdict == "bad":
            rep.violation(f"{P}.R7", con, norm(stores[-1].value)[:160], "drawn waveform bytes must be sign-extended (inverse of y & 0xFF): " + detail,
                          f"{ci.file.rel}:{fn.lineno}")
        elif verdict == "nostore":
            rep.violation(f"{P}.R7", con, norm(fn)[:120], "decoded samples must be stored in drawn_waveform.samples", f"{ci.file.rel}:{fn.lineno}")
        else:
            rep.inconclusive(f"{P}.R7", con, norm(fn)[:160], detail, f"{ci.file.rel}:{fn.lineno}")
    if bodies[0][2] == bodies[1][2]:
        rep.ok(f"{P}.R7", "Generator.load_drawn_waveform ~ AnalogGenerator.load_drawn_waveform", "identical bodies", "sibling implementations agree")
    else:
        rep.violation(f"{P}.R7", f"{bodies[1][0].file.rel}:AnalogGenerator.load_drawn_waveform", "bodies differ",
                      "the two duplicated drawn-waveform loaders have diverged", bodies[1][0].file.rel)
    # omission ↔ default
    dw = repo.cls("DrawnWaveformChunk", module="rv.chunks.drawnwaveform")
    ch = repo.own_method(dw, "chunks")
    chn = inline.nest_guard_clauses(ch)
    s = norm(chn)
    isd = dw.getters.get("is_default")
    isd_e = inline.as_expression(inline.normalize(repo, dw, isd)) if isd is not None else None
    gch = CFG(chn)
    dch = gch.dominators()
    writes = [n for n in gch.nodes if n.kind == "stmt" and isinstance(n.ast, ast.Expr) and isinstance(n.ast.value, ast.YieldFrom)
              and norm(n.ast.value.value) in ("super().chunks()", "super(DrawnWaveformChunk, self).chunks()")]
    guarded = bool(writes) and all(c14._facts(c14._dominating_conditions(gch, dch, n.id)) == {guards.canon_text("not self.is_default")} for n in writes)
    if guarded and isd_e is not None and norm(isd_e) in ("self.samples == self.default", "self.default == self.samples"):
        rep.ok(f"{P}.R7", f"{dw.file.rel}:DrawnWaveformChunk.chunks", "not written iff samples == default")
    else:
        rep.violation(f"{P}.R7", f"{dw.file.rel}:DrawnWaveformChunk.chunks", s[:160], "a drawn waveform may be omitted only when it equals the default",
                      dw.file.rel)
    init0 = repo.own_method(wc, "__init__")
    init = inline.normalize(repo, wc, init0, aliases=True)
    si = norm(init)
    gi = CFG(init)
    domi = gi.dominators()
    cases = []       # (value expression, facts)
    for n in gi.nodes:
        if n.kind == "stmt" and isinstance(n.ast, ast.Assign) and any(norm(t) == "self.samples" for t in n.ast.targets):
            known = c14._facts(c14._dominating_conditions(gi, domi, n.id))
            v = n.ast.value
            if isinstance(v, ast.IfExp):
                cases.append((v.body, known | guards.facts(v.test, True)))
                cases.append((v.orelse, known | guards.facts(v.test, False)))
            elif isinstance(v, ast.Name):
                # a local that is set on the way here (`samples = []; if default is not None: samples = default[:]`): per path, its last
                # definition together with the tests taken on that path
                paths_ = gi.paths(gi.entry, [n.id], max_visits=1, limit=500, labels_excluded={"exc", "reraise", "nomatch"}) or []
                got = False
                for p_ in paths_:
                    if not gi.feasible(p_):
                        continue
                    last, facts_ = None, set()
                    for nid, lab in p_:
                        nn = gi.nodes[nid]
                        if nn.kind == "test" and lab in ("true", "false"):
                            facts_ |= guards.facts(nn.ast, lab == "true")
                        if nn.kind == "stmt" and isinstance(nn.ast, ast.Assign) and any(isinstance(t, ast.Name) and t.id == v.id for t in nn.ast.targets):
                            last = nn.ast.value
                    if last is not None:
                        cases.append((last, facts_))
                        got = True
                if not got:
                    cases.append((v, known))
            else:
                cases.append((v, known))

    def copy_of_default(e: ast.expr) -> bool:
        t = norm(e)
        return t in ("self.default[:]", "list(self.default)", "self.default.copy()", "copy(self.default)", "copy.copy(self.default)",
                     "[*self.default]", "deepcopy(self.default)", "copy.deepcopy(self.default)") or \
            (isinstance(e, ast.ListComp) and len(e.generators) == 1 and norm(e.generators[0].iter) == "self.default"
             and not e.generators[0].ifs and norm(e.elt) == norm(e.generators[0].target))
    verdicts = []
    expanded = []
    for v, known in cases:
        if isinstance(v, ast.BoolOp):          # `self.default or []` evaluates to one of its operands
            expanded.extend((x, set()) for x in v.values)
        else:
            expanded.append((v, known))
    for v, known in expanded:
        if "self.default is not None" in known:
            verdicts.append("ok" if copy_of_default(v) else ("shared" if norm(v) == "self.default" else "?"))
        elif "self.default is None" in known:
            verdicts.append("ok" if isinstance(v, ast.List) and not v.elts else "?")
        else:
            verdicts.append("shared" if norm(v) == "self.default" else "?")
    if cases and all(x == "ok" for x in verdicts) and any("self.default is not None" in k for _, k in cases):
        rep.ok(f"{P}.R7", f"{rel}:WaveformChunk.__init__", "samples = default[:]", "reader-side default is the same list the omission test compares with")
    elif "shared" in verdicts:
        rep.violation(f"{P}.R7", f"{rel}:WaveformChunk.__init__", si[:160], "a fresh waveform must start as a copy of the class default", rel)
    elif not cases:
        rep.violation(f"{P}.R7", f"{rel}:WaveformChunk.__init__", si[:160], "a fresh waveform must start as a copy of the class default "
                      "(samples are never initialised)", rel)
    else:
        rep.inconclusive(f"{P}.R7", f"{rel}:WaveformChunk.__init__", si[:160], "initial samples not recognised as a copy of the class default", rel)
    try:
        d = repo.fold(dw.assigns["default"], ci=dw)
        fl = repo.fold(dw.assigns["fixed_length"], ci=dw)
        if len(d) == fl == 32 and all(-128 <= x <= 127 for x in d):
            rep.ok(f"{P}.R7", f"{dw.file.rel}:DrawnWaveformChunk.default", "32 samples within [-128, 127]")
        else:
            rep.violation(f"{P}.R7", f"{dw.file.rel}:DrawnWaveformChunk.default", f"{len(d)} samples, fixed_length {fl}",
                          "default drawn waveform must be 32 signed 8-bit samples", dw.file.rel)
    except (KeyError, NotConst):
        rep.inconclusive(f"{P}.R7", f"{dw.file.rel}:DrawnWaveformChunk.default", "", "not constant", dw.file.rel)
    gen = repo.cls("Generator", module="rv.modules.generator")
    cg = gen.getters.get("chnk")
    if cg is not None and norm(cg.body[-1]) == "return False if self.drawn_waveform.is_default else 4":
        rep.ok(f"{P}.R7", f"{gen.file.rel}:Generator.chnk", "False if drawn_waveform.is_default else 4", "CHNK omitted exactly when the waveform chunk is")
    else:
        rep.violation(f"{P}.R7", f"{gen.file.rel}:Generator.chnk", norm(cg)[:120] if cg else "missing",
                      "Generator.chnk must be falsy exactly when the drawn waveform is the default", gen.file.rel)


# ------------------------------------------------------------------------------------ header rows
def header_rows(repo: Repo, rep, P: str):
    spec = docs.load_spec(repo)
    sc = docs.spec_chunks(spec)
    secs = parity.sections(repo)
    only = {w.cid for w in secs["module"].writer if w.kind == "chunk"} - {"SLNK", "SLnK"}
    parity.check_section(repo, rep, P, secs["module"], sc, only=only, reverse=False)
    parity.check_section(repo, rep, P, secs["synth"], sc)
    parity.check_section(repo, rep, P, secs["synth_tail"], sc, reverse=False)
