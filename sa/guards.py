"""Canonical forms of the boolean guards that decide whether a chunk is emitted.

`len(x) > 0`, `len(x) != 0`, `not len(x) == 0` … are one condition; so are `any(s not in (-1, 0) for s in x)` and
`not all(s in (0, -1) for s in x)`.  Rules compare canonical forms, never source text.
"""

from __future__ import annotations

import ast
from typing import Optional, Tuple

from .model import norm


def _const_set(e: ast.expr) -> Optional[str]:
    if isinstance(e, (ast.Tuple, ast.List, ast.Set)):
        vals = []
        for x in e.elts:
            try:
                vals.append(ast.literal_eval(x))
            except Exception:
                return None
        try:
            return repr(sorted(set(vals), key=repr))
        except TypeError:
            return None
    return None


def _membership_quantifier(e: ast.expr) -> Optional[Tuple[str, str, str, bool]]:
    """any/all(<v> [not] in <S> for <v> in <X>)  ->  (quantifier, X, S, negated membership)."""
    if isinstance(e, ast.Call) and isinstance(e.func, ast.Name) and e.func.id in ("any", "all") and len(e.args) == 1 \
            and isinstance(e.args[0], (ast.GeneratorExp, ast.ListComp)) and len(e.args[0].generators) == 1:
        g = e.args[0].generators[0]
        elt = e.args[0].elt
        if g.ifs or not isinstance(g.target, ast.Name):
            return None
        if isinstance(elt, ast.Compare) and len(elt.ops) == 1 and isinstance(elt.ops[0], (ast.In, ast.NotIn)) \
                and isinstance(elt.left, ast.Name) and elt.left.id == g.target.id:
            s = _const_set(elt.comparators[0])
            if s is not None:
                return e.func.id, norm(g.iter), s, isinstance(elt.ops[0], ast.NotIn)
        # x != a and x != b   /   x == a or x == b   /   not (...)  written out: the canonical membership form of the element
        import re as _re
        m = _re.match(r"^(notin|in)\((\w+);(\[.*\])\)$", canon(elt))
        if m and m.group(2) == g.target.id:
            return e.func.id, norm(g.iter), m.group(3), m.group(1) == "notin"
    return None


def canon(e: ast.expr) -> str:
    neg = False
    while isinstance(e, ast.UnaryOp) and isinstance(e.op, ast.Not):
        e, neg = e.operand, not neg

    def out(pos: str, negd: str) -> str:
        return negd if neg else pos
    # emptiness of a sequence
    if isinstance(e, ast.Compare) and len(e.ops) == 1:
        l, op, r = e.left, e.ops[0], e.comparators[0]
        if isinstance(r, ast.Call) and norm(r.func) == "len" and isinstance(l, ast.Constant):
            l, r = r, l
            op = {ast.Lt: ast.Gt, ast.Gt: ast.Lt, ast.LtE: ast.GtE, ast.GtE: ast.LtE}.get(type(op), type(op))()
        if isinstance(l, ast.Call) and norm(l.func) == "len" and len(l.args) == 1 and isinstance(r, ast.Constant) and isinstance(r.value, int):
            x, k = norm(l.args[0]), r.value
            if (isinstance(op, ast.Gt) and k == 0) or (isinstance(op, ast.NotEq) and k == 0) or (isinstance(op, ast.GtE) and k == 1):
                return out(f"nonempty({x})", f"empty({x})")
            if (isinstance(op, ast.Eq) and k == 0) or (isinstance(op, ast.Lt) and k == 1) or (isinstance(op, ast.LtE) and k == 0):
                return out(f"empty({x})", f"nonempty({x})")
        if isinstance(op, (ast.Is, ast.IsNot)) and isinstance(r, ast.Constant) and r.value is None:
            is_none = isinstance(op, ast.Is) != neg
            return f"{norm(l)} is None" if is_none else f"{norm(l)} is not None"
        if isinstance(op, (ast.Eq, ast.NotEq)):
            eq = isinstance(op, ast.Eq) != neg
            return f"{norm(l)} {'==' if eq else '!='} {norm(r)}"
        if isinstance(op, (ast.Is, ast.IsNot)):
            same = isinstance(op, ast.Is) != neg
            return f"{norm(l)} {'is' if same else 'is not'} {norm(r)}"
        if isinstance(op, (ast.Lt, ast.LtE, ast.Gt, ast.GtE)):
            # orderings are written with < and <= only:  a >= b  is  b <= a;  not (a < b)  is  b <= a
            kind = type(op)
            if neg:
                kind = {ast.Lt: ast.GtE, ast.LtE: ast.Gt, ast.Gt: ast.LtE, ast.GtE: ast.Lt}[kind]
            a, b = norm(l), norm(r)
            if kind in (ast.Gt, ast.GtE):
                a, b = b, a
            return f"{a} {'<' if kind in (ast.Lt, ast.Gt) else '<='} {b}"
        if isinstance(op, (ast.In, ast.NotIn)) and _const_set(r) is None:
            member = isinstance(op, ast.In) != neg
            return f"{norm(l)} {'in' if member else 'not in'} {norm(r)}"
    # x not in (a, b)  ≡  x != a and x != b  ≡  x is not a and x != b      (constants)
    def member_form(x: ast.expr):
        if isinstance(x, ast.Compare) and len(x.ops) == 1 and isinstance(x.ops[0], (ast.In, ast.NotIn)):
            sset = _const_set(x.comparators[0])
            if sset is not None:
                return norm(x.left), set(ast.literal_eval(sset)) if False else sset, isinstance(x.ops[0], ast.NotIn)
        return None
    mf = member_form(e)
    if mf is not None:
        x, sset, notin = mf
        return f"{'notin' if notin != neg else 'in'}({x};{sset})"
    if isinstance(e, ast.BoolOp) and isinstance(e.op, (ast.And, ast.Or)):
        subj = None
        vals = []
        ok = True
        want_neq = isinstance(e.op, ast.And)
        for v in e.values:
            if isinstance(v, ast.Compare) and len(v.ops) == 1 and len(v.comparators) == 1:
                op = v.ops[0]
                neq = isinstance(op, (ast.NotEq, ast.IsNot))
                eq = isinstance(op, (ast.Eq, ast.Is))
                if (want_neq and neq) or (not want_neq and eq):
                    try:
                        c = ast.literal_eval(v.comparators[0])
                    except Exception:
                        ok = False
                        break
                    if subj is None:
                        subj = norm(v.left)
                    elif subj != norm(v.left):
                        ok = False
                        break
                    vals.append(c)
                    continue
            ok = False
            break
        if ok and subj is not None and len(vals) >= 2:
            try:
                sset = repr(sorted(set(vals), key=repr))
            except TypeError:
                sset = None
            if sset is not None:
                kind_notin = want_neq
                return f"{'notin' if kind_notin != neg else 'in'}({subj};{sset})"
    # set(X) - {a, b}   (truthy)   ≡   some element of X is not in {a, b};   set(X) <= {a, b}  ≡  all elements are
    def _setdiff(x):
        if isinstance(x, ast.BinOp) and isinstance(x.op, ast.Sub) and isinstance(x.left, ast.Call) and norm(x.left.func) in ("set", "frozenset") \
                and len(x.left.args) == 1:
            sset = _const_set(x.right) if isinstance(x.right, (ast.Set, ast.Tuple, ast.List)) else None
            if sset is None and isinstance(x.right, ast.Call) and norm(x.right.func) in ("set", "frozenset") and len(x.right.args) == 1:
                sset = _const_set(x.right.args[0])
            if sset is not None:
                return norm(x.left.args[0]), sset
        if isinstance(x, ast.Call) and isinstance(x.func, ast.Attribute) and x.func.attr == "difference" and len(x.args) == 1 \
                and isinstance(x.func.value, ast.Call) and norm(x.func.value.func) in ("set", "frozenset") and len(x.func.value.args) == 1:
            sset = _const_set(x.args[0])
            if sset is not None:
                return norm(x.func.value.args[0]), sset
        return None
    sd = _setdiff(e)
    if sd is not None:
        return out(f"exists_notin({sd[0]};{sd[1]})", f"all_in({sd[0]};{sd[1]})")
    if isinstance(e, ast.Compare) and len(e.ops) == 1 and isinstance(e.ops[0], ast.LtE) and isinstance(e.left, ast.Call) \
            and norm(e.left.func) in ("set", "frozenset") and len(e.left.args) == 1:
        sset = _const_set(e.comparators[0]) if isinstance(e.comparators[0], (ast.Set, ast.Tuple, ast.List)) else None
        if sset is not None:
            x = norm(e.left.args[0])
            return out(f"all_in({x};{sset})", f"exists_notin({x};{sset})")
    # {a, b}.issuperset(X)  /  set(X).issubset({a, b})   ≡   all elements of X are in {a, b}
    if isinstance(e, ast.Call) and isinstance(e.func, ast.Attribute) and len(e.args) == 1 and not e.keywords:
        if e.func.attr == "issuperset":
            k = e.func.value
            while isinstance(k, ast.Call) and norm(k.func) in ("set", "frozenset") and len(k.args) == 1:
                k = k.args[0]
            sset = _const_set(k)
            if sset is not None:
                return out(f"all_in({norm(e.args[0])};{sset})", f"exists_notin({norm(e.args[0])};{sset})")
        if e.func.attr == "issubset" and isinstance(e.func.value, ast.Call) and norm(e.func.value.func) in ("set", "frozenset") and len(e.func.value.args) == 1:
            k = e.args[0]
            while isinstance(k, ast.Call) and norm(k.func) in ("set", "frozenset") and len(k.args) == 1:
                k = k.args[0]
            sset = _const_set(k)
            if sset is not None:
                x = norm(e.func.value.args[0])
                return out(f"all_in({x};{sset})", f"exists_notin({x};{sset})")
    q = _membership_quantifier(e)
    if q is not None:
        quant, x, s, notin = q
        # exists_notin(X;S) is the base form
        if quant == "any" and notin:
            return out(f"exists_notin({x};{s})", f"all_in({x};{s})")
        if quant == "all" and not notin:
            return out(f"all_in({x};{s})", f"exists_notin({x};{s})")
        if quant == "any" and not notin:
            return out(f"exists_in({x};{s})", f"all_notin({x};{s})")
        return out(f"all_notin({x};{s})", f"exists_in({x};{s})")
    t = norm(e)
    return f"not ({t})" if neg else t


def canon_text(text: str) -> str:
    try:
        return canon(ast.parse(text, mode="eval").body)
    except SyntaxError:
        return text


def _expand(e: ast.expr) -> ast.expr:
    """`x in (L or ())`  is  `L and x in L`  (an empty literal holds nothing);  `x not in (L or ())`  is its negation."""
    if isinstance(e, ast.Compare) and len(e.ops) == 1 and isinstance(e.ops[0], (ast.In, ast.NotIn)) and isinstance(e.comparators[0], ast.BoolOp) \
            and isinstance(e.comparators[0].op, ast.Or) and len(e.comparators[0].values) == 2:
        L, empty = e.comparators[0].values
        is_empty = (isinstance(empty, (ast.Tuple, ast.List, ast.Set)) and not empty.elts) or (isinstance(empty, ast.Dict) and not empty.keys) or \
            (isinstance(empty, ast.Call) and norm(empty.func) in ("set", "frozenset", "tuple", "list", "dict") and not empty.args and not empty.keywords)
        if is_empty and isinstance(L, (ast.Name, ast.Attribute)):
            pos = ast.BoolOp(op=ast.And(), values=[L, ast.Compare(left=e.left, ops=[ast.In()], comparators=[L])])
            return pos if isinstance(e.ops[0], ast.In) else ast.UnaryOp(op=ast.Not(), operand=pos)
    return e


def nnf(e: ast.expr, neg: bool = False) -> str:
    """Negation normal form as a canonical string: negations pushed to the atoms (De Morgan), operands sorted."""
    e = _expand(e)
    if isinstance(e, ast.UnaryOp) and isinstance(e.op, ast.Not):
        return nnf(e.operand, not neg)
    if isinstance(e, ast.BoolOp):
        is_and = isinstance(e.op, ast.And) != neg
        parts = sorted(nnf(v, neg) for v in e.values)
        return ("and(" if is_and else "or(") + ", ".join(parts) + ")"
    inner = ast.UnaryOp(op=ast.Not(), operand=e) if neg else e
    return canon(inner)


def facts(e: ast.expr, holds: bool = True) -> set:
    """Canonical literals that are certainly true when `e` evaluates to `holds` (conjunctions split, De Morgan applied)."""
    e = _expand(e)
    if isinstance(e, ast.UnaryOp) and isinstance(e.op, ast.Not):
        return facts(e.operand, not holds)
    if isinstance(e, ast.BoolOp):
        conj = isinstance(e.op, ast.And) == holds
        if conj:
            out = set()
            for v in e.values:
                out |= facts(v, holds)
            return out
        return {nnf(e, not holds)}
    return {nnf(e, not holds)}


def facts_text(text: str, holds: bool = True) -> set:
    try:
        return facts(ast.parse(text, mode="eval").body, holds)
    except SyntaxError:
        return {text if holds else f"not ({text})"}
