"""Module-specific chunk numbers: what each module class can write, and where each number is loaded."""

from __future__ import annotations

import ast
import re
import copy
from dataclasses import dataclass
from typing import Any, Dict, List, Optional, Tuple

from . import alg
from .classmodel import all_options
from .model import AnchorMissing, ClassInfo, NotConst, Repo, attr_chain, norm, stmts_of, walk_no_nested


@dataclass
class WNum:
    lo: int
    hi: int
    step: int
    field: str            # normalised source: attribute name / 'options' / 'project' / ...
    node: ast.AST
    fn: str
    guard: str = ""


def mro_instance_classes(repo: Repo, ci: ClassInfo) -> Dict[str, Tuple[ClassInfo, Optional[ast.Call]]]:
    """self.X -> (class, constructor call) from every __init__ along the MRO."""
    out: Dict[str, Tuple[ClassInfo, Optional[ast.Call]]] = {}
    for c in reversed(repo.mro(ci)):
        init = c.methods.get("__init__")
        if init is None:
            continue
        from . import inline
        init = inline.normalize(repo, c, init)
        for n in walk_no_nested(init):
            if isinstance(n, ast.Assign) and isinstance(n.value, ast.Call):
                ch = attr_chain(n.targets[0])
                if ch and ch[0] == "self" and len(ch) == 2:
                    k = repo.class_of_expr(n.value.func, ci, c.file)
                    if k is not None:
                        out[ch[1]] = (k, n.value)
            elif isinstance(n, ast.Assign) and isinstance(n.value, (ast.List, ast.ListComp)):
                ch = attr_chain(n.targets[0])
                if ch and ch[0] == "self" and len(ch) == 2:
                    out[ch[1]] = (None, n.value)
    return out


def list_length(repo: Repo, ci: ClassInfo, attr: str) -> Optional[int]:
    """Length of self.<attr> when its constructor assigns a list of statically known length."""
    for c in repo.mro(ci):
        init = c.methods.get("__init__")
        if init is None:
            continue
        try:
            init = repo.own_method(c, "__init__")          # normal form: a private factory of the list is read through
        except Exception:
            pass
        for n in walk_no_nested(init):
            if isinstance(n, ast.Assign) and norm(n.targets[0]) == f"self.{attr}":
                v = n.value
                while isinstance(v, ast.Call) and norm(v.func) in ("list", "tuple") and len(v.args) == 1:
                    v = v.args[0]
                if isinstance(v, ast.Call) and norm(v.func) == "map" and len(v.args) == 2:
                    try:
                        return len(repo.fold(v.args[1], ci=c, sf=c.file))
                    except (NotConst, TypeError):
                        return None
                if isinstance(v, ast.GeneratorExp) and len(v.generators) == 1 and not v.generators[0].ifs:
                    try:
                        return len(repo.fold(v.generators[0].iter, ci=c, sf=c.file))
                    except (NotConst, TypeError):
                        return None
                if isinstance(v, ast.List):
                    return len(v.elts)
                if isinstance(v, ast.BinOp) and isinstance(v.op, ast.Mult):
                    try:
                        val = repo.fold(v, ci=c)
                        return len(val)
                    except NotConst:
                        return None
                if isinstance(v, ast.ListComp) and len(v.generators) == 1 and not v.generators[0].ifs:
                    try:
                        it = repo.fold(v.generators[0].iter, ci=c, sf=c.file)
                        return len(it)
                    except NotConst:
                        return None
    return None


def _chunk_class_chnm(repo: Repo, owner: ClassInfo, kcls: ClassInfo, call: Optional[ast.Call]) -> Optional[int]:
    r = repo.lookup(kcls, "chnm")
    if r and r[1] == "assign":
        try:
            v = repo.fold(r[2], ci=r[0])
            if v is not None:
                return v
        except NotConst:
            pass
    # chnm passed to the constructor and stored by __init__
    init = kcls.methods.get("__init__")
    if init is not None and call is not None and call.args:
        params = [a.arg for a in init.args.args if a.arg != "self"]
        for n in walk_no_nested(init):
            if isinstance(n, ast.Assign) and norm(n.targets[0]) == "self.chnm" and isinstance(n.value, ast.Name) and n.value.id in params:
                try:
                    return repo.fold(call.args[params.index(n.value.id)], ci=owner)
                except (NotConst, IndexError):
                    return None
    return None


class WriterNumbers:
    def __init__(self, repo: Repo, ci: ClassInfo):
        self.repo = repo
        self.ci = ci
        self.inst = mro_instance_classes(repo, ci)
        self.out: List[WNum] = []
        self.problems: List[Tuple[str, ast.AST]] = []
        self.depth = 0

    def run(self) -> List[WNum]:
        r = self.repo.lookup(self.ci, "specialized_iff_chunks")
        if r is None or r[1] != "method":
            raise AnchorMissing(f"{self.ci.qualname}.specialized_iff_chunks")
        self.function(r[2], r[0], {}, "")
        return self.out

    # ------------------------------------------------------------------
    def function(self, fn: ast.FunctionDef, owner: ClassInfo, env: Dict[str, Tuple[int, int]], guard: str):
        self.depth += 1
        if self.depth > 12:
            self.problems.append(("recursion too deep", fn))
            self.depth -= 1
            return
        try:
            from . import inline
            fn = inline.normalize(self.repo, owner, fn, aliases=True)
            self.block(stmts_of(fn), fn, owner, dict(env), guard, {})
        finally:
            self.depth -= 1

    def block(self, stmts, fn, owner, env, guard, lists):
        pending_chnm: Optional[Tuple[int, int, int, ast.AST]] = None
        for st in stmts:
            if isinstance(st, ast.Expr) and isinstance(st.value, ast.YieldFrom):
                self.delegate(st.value.value, fn, owner, env, guard, lists)
            elif isinstance(st, ast.Expr) and isinstance(st.value, ast.Yield):
                v = st.value.value
                if isinstance(v, ast.Tuple) and len(v.elts) == 2 and isinstance(v.elts[0], ast.Constant):
                    key = v.elts[0].value
                    if key == b"CHNM":
                        pending_chnm = self.number(v.elts[1], owner, env, fn) + (st,) if self.number(v.elts[1], owner, env, fn) else None
                        if pending_chnm is None:
                            self.problems.append((f"chunk number not resolvable: {norm(v.elts[1])}", st))
                    elif key == b"CHDT" and pending_chnm is not None:
                        lo, hi, step, node = pending_chnm
                        self.out.append(WNum(lo, hi, step, self.payload_field(v.elts[1], fn), node, f"{owner.qualname}.{fn.name}", guard))
                        pending_chnm = None
                    elif key is None:
                        pass
            elif isinstance(st, ast.If):
                t = norm(st.test)
                if "is_legacy" in t:
                    # frozen: legacy replay branch (C06); what is written otherwise is the else part / what follows the early return
                    tt, neg = st.test, False
                    while isinstance(tt, ast.UnaryOp) and isinstance(tt.op, ast.Not):
                        tt, neg = tt.operand, not neg
                    if norm(tt) == "self.is_legacy":
                        self.block(st.body if neg else st.orelse, fn, owner, env, guard, lists)
                    continue
                self.block(st.body, fn, owner, env, (guard + " and " if guard else "") + t, lists)
                self.block(st.orelse, fn, owner, env, (guard + " and " if guard else "") + f"not ({t})", lists)
            elif isinstance(st, ast.For):
                e2 = dict(env)
                it = st.iter
                if isinstance(it, ast.Name) and it.id in lists:
                    for elt in lists[it.id]:
                        # `for x in iters: yield from x`
                        if len(st.body) == 1 and isinstance(st.body[0], ast.Expr) and isinstance(st.body[0].value, ast.YieldFrom) \
                                and norm(st.body[0].value.value) == norm(st.target):
                            self.delegate(elt, fn, owner, env, guard, lists)
                    continue
                rng = self.loop_range(st, owner)
                if rng is None:
                    if any(isinstance(n, (ast.Yield, ast.YieldFrom)) for n in ast.walk(st)):
                        self.problems.append((f"loop range not resolvable: for {norm(st.target)} in {norm(st.iter)}", st))
                    continue
                var, lo, hi = rng
                e2[var] = (lo, hi)
                self.block(st.body, fn, owner, e2, guard, lists)
            elif isinstance(st, ast.Assign) and len(st.targets) == 1 and isinstance(st.targets[0], ast.Name) \
                    and isinstance(st.value, ast.List):
                lists[st.targets[0].id] = list(st.value.elts)
            elif isinstance(st, ast.Return):
                break

    def loop_range(self, st: ast.For, owner) -> Optional[Tuple[str, int, int]]:
        it = st.iter
        if isinstance(it, ast.Call) and norm(it.func) == "enumerate" and isinstance(st.target, ast.Tuple) \
                and isinstance(st.target.elts[0], ast.Name):
            start = 0
            if len(it.args) > 1:
                try:
                    start = self.repo.fold(it.args[1], ci=owner, sf=owner.file)
                except NotConst:
                    return None
            src = it.args[0]
            ch = attr_chain(src)
            n = None
            if ch and ch[0] == "self" and len(ch) == 2:
                n = list_length(self.repo, self.ci, ch[1])
            if n is None:
                return None
            return st.target.elts[0].id, start, start + n - 1
        if isinstance(it, ast.Call) and norm(it.func) == "range" and isinstance(st.target, ast.Name):
            try:
                a = [self.repo.fold(x, ci=owner, sf=owner.file) for x in it.args]
                r = range(*a)
                return st.target.id, r[0], r[-1]
            except (NotConst, IndexError):
                return None
        return None

    def number(self, e: ast.expr, owner, env, fn: Optional[ast.FunctionDef] = None) -> Optional[Tuple[int, int, int]]:
        # pack("<I", K)
        if fn is not None:
            from .packed import subst_locals
            e = subst_locals(fn, e)
        if isinstance(e, ast.Call) and norm(e.func) in ("pack", "struct.pack") and len(e.args) == 2:
            try:
                fmt = self.repo.fold(e.args[0], ci=owner)
            except NotConst:
                return None
            if fmt != "<I":
                self.problems.append((f"CHNM packed with {fmt!r}", e))
            k = e.args[1]
            try:
                v = self.repo.fold(k, ci=self.ci, sf=owner.file)
                if isinstance(v, int):
                    return v, v, 1
            except NotConst:
                pass
            vars_ = [n.id for n in ast.walk(k) if isinstance(n, ast.Name) and n.id in env]
            if len(set(vars_)) == 1:
                var = vars_[0]
                try:
                    p = alg.to_poly(k, lambda x: alg.Poly.sym("v") if isinstance(x, ast.Name) and x.id == var else self._cleaf(x, owner))
                except alg.NotAlgebraic:
                    return None
                if p.degree_in("v") <= 1:
                    a = int(p.coeff_of("v").const_value()) if p.degree_in("v") == 1 else 0
                    b = int(p.const_value())
                    lo, hi = env[var]
                    vals = sorted([a * lo + b, a * hi + b])
                    return vals[0], vals[1], abs(a) or 1
            return None
        try:
            v = self.repo.fold(e, ci=owner)
            if isinstance(v, bytes) and len(v) == 4:
                n = int.from_bytes(v, "little")
                return n, n, 1
        except NotConst:
            pass
        return None

    def _cleaf(self, x, owner):
        try:
            v = self.repo.fold(x, ci=owner, sf=owner.file)
            if isinstance(v, int):
                return alg.Poly.const(v)
        except NotConst:
            pass
        return None

    def payload_field(self, e: ast.expr, fn: ast.FunctionDef) -> str:
        from .packed import subst_locals
        e = subst_locals(fn, e)
        t = norm(e)
        if t == "self.project.read()":
            return "project"
        m_ = re.fullmatch(r"self\.(\w+)\.read\(\)", t)
        if m_:
            return m_.group(1)            # Container.read(): the object's own serialisation (write_to into a buffer)
        if t.startswith("self.data"):
            return "data"
        if "label" in t:
            return "label"
        if t.endswith(".getvalue()"):
            # which object wrote into the buffer?
            for n in walk_no_nested(fn):
                if isinstance(n, ast.Call) and isinstance(n.func, ast.Attribute) and n.func.attr == "write_to":
                    ch = attr_chain(n.func.value)
                    if ch and ch[0] == "self":
                        return ch[1]
            if fn.name == "global_config_chunks":
                return "instrument"
            if fn.name == "sample_chunks":
                return "sample_meta"
        if t == "sample.data":
            return "sample_data"
        ch = attr_chain(e)
        if ch and ch[0] == "self" and len(ch) == 2:
            return ch[1]
        # a record assembled in the writer (any buffer / join spelling): named after the writer that assembles it
        if fn.name == "global_config_chunks" and not isinstance(e, (ast.Attribute, ast.Name)):
            return "instrument"
        if fn.name == "sample_chunks" and not isinstance(e, (ast.Attribute, ast.Name)):
            return "sample_meta"
        return t

    def delegate(self, e: ast.expr, fn, owner, env, guard, lists):
        """`yield from <e>`."""
        if isinstance(e, ast.Name) and e.id in lists:
            for elt in lists[e.id]:
                self.delegate(elt, fn, owner, env, guard, lists)
            return
        if not isinstance(e, ast.Call):
            self.problems.append((f"yield from {norm(e)}", e))
            return
        f = e.func
        # super().specialized_iff_chunks()
        if isinstance(f, ast.Attribute) and isinstance(f.value, ast.Call) and norm(f.value.func) == "super":
            mro = self.repo.mro(self.ci)
            idx = next((i for i, c in enumerate(mro) if c is owner), None)
            if idx is None:
                self.problems.append(("super() owner not in MRO", e))
                return
            for c in mro[idx + 1:]:
                if f.attr in c.methods:
                    self.function(c.methods[f.attr], c, env, guard)
                    return
            self.problems.append((f"super().{f.attr} not found", e))
            return
        if isinstance(f, ast.Attribute) and f.attr == "chunks":
            recv = f.value
            ch = attr_chain(recv.value if isinstance(recv, ast.Subscript) else recv)
            if ch and ch[0] == "self" and len(ch) == 2:
                attr = ch[1]
                got = self.inst.get(attr)
                if got is None:
                    self.problems.append((f"class of self.{attr} unknown", e))
                    return
                kcls, call = got
                if isinstance(recv, ast.Subscript):
                    # element of a list built in __init__: self.effect_control_envelopes[k]
                    try:
                        idx = self.repo.fold(recv.slice, ci=owner)
                    except NotConst:
                        self.problems.append((f"index of {norm(recv)} not constant", e))
                        return
                    if isinstance(call, ast.List) and idx < len(call.elts) and isinstance(call.elts[idx], ast.Call):
                        ecall = call.elts[idx]
                        ecls = self.repo.class_of_expr(ecall.func, self.ci, owner.file)
                        k = _chunk_class_chnm(self.repo, self.ci, ecls, ecall) if ecls else None
                        if k is None:
                            self.problems.append((f"chnm of {norm(recv)} unknown", e))
                        else:
                            self.out.append(WNum(k, k, 1, f"{attr}[{idx}]", e, f"{owner.qualname}.{fn.name}", guard))
                    else:
                        self.problems.append((f"{norm(recv)} not resolvable", e))
                    return
                if kcls is None:
                    self.problems.append((f"self.{attr} is not a chunk object", e))
                    return
                k = _chunk_class_chnm(self.repo, self.ci, kcls, call)
                if k is None:
                    self.problems.append((f"chnm of self.{attr} ({kcls.qualname}) unknown", e))
                    return
                # DrawnWaveformChunk.chunks writes nothing when default: still a possible number
                self.out.append(WNum(k, k, 1, attr, e, f"{owner.qualname}.{fn.name}", guard))
                return
        # self.method(...)
        if isinstance(f, ast.Attribute) and norm(f.value) == "self":
            r = self.repo.lookup(self.ci, f.attr)
            if r and r[1] == "method":
                fn2 = r[2]
                e2 = dict(env)
                params = [a.arg for a in fn2.args.args if a.arg != "self"]
                for p, a in zip(params, e.args):
                    if isinstance(a, ast.Name) and a.id in env:
                        e2[p] = env[a.id]
                if f.attr == "options_chunks":
                    if all_options(self.repo, self.ci):
                        try:
                            from .classmodel import class_const
                            k = class_const(self.repo, self.ci, "options_chnm")
                            self.out.append(WNum(k, k, 1, "options", e, f"{owner.qualname}.{fn.name}", guard))
                        except (AnchorMissing, NotConst):
                            self.problems.append(("options_chnm not constant", e))
                    return
                self.function(fn2, r[0], e2, guard)
                return
        self.problems.append((f"yield from {norm(e)}", e))


# ------------------------------------------------------------------------------------ reader
class _ReplaceChnm(ast.NodeTransformer):
    def __init__(self, k: int, names):
        self.k = k
        self.names = names

    def visit_Attribute(self, node):
        if norm(node) in self.names:
            return ast.copy_location(ast.Constant(value=self.k), node)
        return self.generic_visit(node)

    def visit_Name(self, node):
        if node.id in self.names:
            return ast.copy_location(ast.Constant(value=self.k), node)
        return node


class _PEval:
    """Partial evaluation of `load_chunk` for one concrete chunk number: locals hold either a Python constant or an expression
    over `self` / `chunk`; branches whose test is decided are followed; the first statement with an effect on `self` names the
    target.  Dispatch through tables (`{0: self.load_a}.get(chnm)`, `(self.a, self.b)[chnm & 1]`, `getattr(self, NAMES[chnm])`)
    is followed like an if-chain."""

    class Stop(Exception):
        def __init__(self, target, node):
            self.target, self.node = target, node

    def __init__(self, repo: Repo, ci: ClassInfo, owner: ClassInfo, k: int, chunk_param: str):
        self.repo, self.ci, self.owner, self.k, self.cp = repo, ci, owner, k, chunk_param
        self.const: Dict[str, Any] = {}
        self.sym: Dict[str, ast.expr] = {}

    # ---- expressions
    def subst(self, e: ast.expr) -> ast.expr:
        me = self

        class S(ast.NodeTransformer):
            def visit_Name(self, node):
                if isinstance(node.ctx, ast.Load) and node.id in me.sym:
                    return copy.deepcopy(me.sym[node.id])
                if isinstance(node.ctx, ast.Load) and node.id in me.const and isinstance(me.const[node.id], (int, str, bytes, bool, type(None))):
                    return ast.Constant(value=me.const[node.id])
                return node

            def visit_Attribute(self, node):
                if norm(node) == f"{me.cp}.chnm":
                    return ast.Constant(value=me.k)
                return self.generic_visit(node)
        out = S().visit(copy.deepcopy(e))
        ast.fix_missing_locations(out)
        return out

    def value(self, e: ast.expr):
        """('c', python value) | ('s', expression)"""
        e = self.subst(e)
        try:
            return ("c", self.repo.fold(e, ci=self.ci, sf=self.owner.file))
        except Exception:
            pass
        # table look-ups with a constant key / index
        if isinstance(e, ast.Call) and isinstance(e.func, ast.Attribute) and e.func.attr == "get" and 1 <= len(e.args) <= 2:
            picked = self._pick(e.func.value, e.args[0])
            if picked is not None:
                return picked if picked != "absent" else (self.value(e.args[1]) if len(e.args) == 2 else ("c", None))
        if isinstance(e, ast.Subscript) and not isinstance(e.slice, ast.Slice):
            picked = self._pick(e.value, e.slice)
            if picked is not None and picked != "absent":
                return picked
        if isinstance(e, ast.Call) and norm(e.func) == "getattr" and len(e.args) >= 2 and norm(e.args[0]) == "self":
            nm = self.value(e.args[1])
            if nm[0] == "c" and isinstance(nm[1], str):
                if self.repo.lookup(self.ci, nm[1]) is not None or (len(e.args) == 2 and nm[1].isidentifier()):
                    # getattr(self, "x") without a default is self.x whatever x is (an instance attribute set in __init__ as well)
                    return ("s", ast.Attribute(value=ast.Name(id="self", ctx=ast.Load()), attr=nm[1], ctx=ast.Load()))
                if len(e.args) == 3:
                    return self.value(e.args[2])
        if isinstance(e, ast.IfExp):
            t = self.truth(e.test)
            if t is not None:
                return self.value(e.body if t else e.orelse)
        return ("s", e)

    def _pick(self, container: ast.expr, key: ast.expr):
        kv = self.value(key)
        if kv[0] != "c":
            return None
        c = container
        if isinstance(c, ast.Name) and c.id in self.sym:
            c = self.sym[c.id]
        if isinstance(c, (ast.Attribute, ast.Name)):
            from . import inline
            d = inline.definition_of(self.repo, self.ci, self.owner.file, c)
            if d is not None:
                c = d
        c = self.subst(c) if not isinstance(c, (ast.Dict, ast.Tuple, ast.List)) else c
        if isinstance(c, ast.Dict):
            for kk, vv in zip(c.keys, c.values):
                if kk is None:
                    return None
                kc = self.value(kk)
                if kc[0] != "c":
                    return None
                if kc[1] == kv[1]:
                    return self.value(vv)
            return "absent"
        if isinstance(c, (ast.Tuple, ast.List)) and isinstance(kv[1], int) and not any(isinstance(x, ast.Starred) for x in c.elts):
            if -len(c.elts) <= kv[1] < len(c.elts):
                return self.value(c.elts[kv[1]])
            return None
        return None

    def truth(self, t: ast.expr) -> Optional[bool]:
        if isinstance(t, ast.UnaryOp) and isinstance(t.op, ast.Not):
            v = self.truth(t.operand)
            return None if v is None else not v
        if isinstance(t, ast.BoolOp):
            vals = [self.truth(v) for v in t.values]
            if isinstance(t.op, ast.And):
                if any(v is False for v in vals):
                    return False
                return True if all(v is True for v in vals) else None
            if any(v is True for v in vals):
                return True
            return False if all(v is False for v in vals) else None
        if isinstance(t, ast.Compare) and len(t.ops) == 1 and isinstance(t.ops[0], (ast.Is, ast.IsNot)) \
                and isinstance(t.comparators[0], ast.Constant) and t.comparators[0].value is None:
            v = self.value(t.left)
            if v[0] == "c":
                return (v[1] is None) == isinstance(t.ops[0], ast.Is)
            if isinstance(v[1], (ast.Attribute, ast.Lambda)):          # a bound method / attribute of self is an object
                return isinstance(t.ops[0], ast.IsNot)
            return None
        if isinstance(t, ast.Compare) and len(t.ops) == 1 and isinstance(t.ops[0], (ast.In, ast.NotIn)):
            kv = self.value(t.left)
            c = t.comparators[0]
            if kv[0] == "c":
                p = self._pick(c, t.left) if not isinstance(self.value(c)[1] if self.value(c)[0] == "c" else None, (dict, tuple, list, set, frozenset, range)) else None
                cv = self.value(c)
                if cv[0] == "c" and isinstance(cv[1], (dict, tuple, list, set, frozenset, range)):
                    return (kv[1] in cv[1]) == isinstance(t.ops[0], ast.In)
                if p is not None:
                    return (p != "absent") == isinstance(t.ops[0], ast.In)
            return None
        v = self.value(t)
        if v[0] == "c":
            return bool(v[1])
        if isinstance(v[1], ast.Attribute) and norm(v[1]).startswith("self.") and norm(t) != norm(v[1]):
            return True            # a local that holds a bound method
        return None

    # ---- statements
    def run(self, stmts) -> None:
        for st in stmts:
            self.step(st)

    def step(self, st: ast.stmt) -> None:
        if isinstance(st, ast.If):
            mentions = any(isinstance(n, ast.Name) and (n.id in self.const or n.id in self.sym) for n in ast.walk(st.test)) or f"{self.cp}.chnm" in norm(st.test)
            t = self.truth(st.test)
            if t is None and isinstance(st.test, ast.Compare) and len(st.test.ops) == 1 and isinstance(st.test.ops[0], (ast.Is, ast.IsNot)) \
                    and isinstance(st.test.comparators[0], ast.Constant) and st.test.comparators[0].value is None and isinstance(st.test.left, ast.Name) \
                    and st.test.left.id in self.sym and isinstance(self.sym[st.test.left.id], (ast.Subscript, ast.Attribute, ast.Call)):
                # `target = self.table[k - base] … if target is not None: target.load(...)`: the question is where chunk k goes when it is
                # loaded at all, so the branch for a target that is there is the one to follow
                t = isinstance(st.test.ops[0], ast.IsNot)
            if t is None:
                if not mentions:
                    return          # a test on something else (the legacy capture): not part of the dispatch
                raise _PEval.Stop(f"?undecidable: {norm(st.test)}", st)
            self.run(st.body if t else st.orelse)
            return
        if isinstance(st, ast.Return):
            raise _PEval.Stop("", st)
        if isinstance(st, (ast.Pass,)) or (isinstance(st, ast.Expr) and isinstance(st.value, ast.Constant)):
            return
        if isinstance(st, ast.Assign) and len(st.targets) == 1 and isinstance(st.targets[0], ast.Name):
            v = self.value(st.value)
            nm = st.targets[0].id
            self.const.pop(nm, None)
            self.sym.pop(nm, None)
            if v[0] == "c":
                self.const[nm] = v[1]
            else:
                self.sym[nm] = v[1]
            return
        # a, b = TABLE.get(k, (None, None)): the picked row, bound element by element
        if isinstance(st, ast.Assign) and len(st.targets) == 1 and isinstance(st.targets[0], (ast.Tuple, ast.List)) \
                and all(isinstance(t, ast.Name) for t in st.targets[0].elts):
            v = self.value(st.value)
            names = [t.id for t in st.targets[0].elts]
            parts = None
            if v[0] == "c" and isinstance(v[1], (tuple, list)) and len(v[1]) == len(names):
                parts = [("c", x) for x in v[1]]
            elif v[0] == "s" and isinstance(v[1], (ast.Tuple, ast.List)) and len(v[1].elts) == len(names) \
                    and not any(isinstance(x, ast.Starred) for x in v[1].elts):
                parts = [self.value(x) for x in v[1].elts]
            if parts is not None:
                for nm, pv in zip(names, parts):
                    self.const.pop(nm, None)
                    self.sym.pop(nm, None)
                    if pv[0] == "c":
                        self.const[nm] = pv[1]
                    else:
                        self.sym[nm] = pv[1]
                return
        # an effect: what it touches
        st2 = copy.deepcopy(st)
        if isinstance(st2, ast.Expr) and isinstance(st2.value, ast.Call):
            f = self.value(st2.value.func)
            if f[0] == "s":
                st2.value.func = f[1]
            elif f[0] == "c" and f[1] is None:
                raise _PEval.Stop("", st)
        elif isinstance(st2, ast.Assign) and len(st2.targets) == 1:
            t = st2.targets[0]
            base = t
            chain = []
            while isinstance(base, (ast.Attribute, ast.Subscript)):
                chain.append(base)
                base = base.value
            if isinstance(base, ast.Name) and base.id in self.sym:
                # target.bytes = …  with `target` picked from a table of self's attributes
                new_base = self.sym[base.id]
                st2.targets = [_rebase(t, base.id, new_base)]
        st2 = _subst_stmt(self, st2)
        tgt = body_target([st2], self.repo, self.ci)
        if tgt.startswith("?"):
            self.unknown = getattr(self, "unknown", None) or (tgt, st)
            return
        raise _PEval.Stop(tgt, st)


def _rebase(t: ast.expr, name: str, new_base: ast.expr) -> ast.expr:
    class R(ast.NodeTransformer):
        def visit_Name(self, node):
            if node.id == name:
                return copy.deepcopy(new_base)
            return node
    return R().visit(copy.deepcopy(t))


def _subst_stmt(pe: "_PEval", st: ast.stmt) -> ast.stmt:
    class S(ast.NodeTransformer):
        def visit_Attribute(self, node):
            if norm(node) == f"{pe.cp}.chnm":
                return ast.Constant(value=pe.k)
            return self.generic_visit(node)

        def visit_Name(self, node):
            if isinstance(node.ctx, ast.Load) and node.id in pe.const and isinstance(pe.const[node.id], (int, str, bytes, bool)):
                return ast.Constant(value=pe.const[node.id])
            if isinstance(node.ctx, ast.Load) and node.id in pe.sym:
                return copy.deepcopy(pe.sym[node.id])
            return node

        def visit_Subscript(self, node):
            node = self.generic_visit(node)
            # (a, b, c)[1]  ->  b      /   {k: v}[k]
            v = pe.value(node) if isinstance(node.ctx, ast.Load) else None
            if v is not None and v[0] == "s" and v[1] is not node and norm(v[1]) != norm(node):
                return v[1]
            return node

        def visit_IfExp(self, node):
            t = pe.truth(node.test)
            if t is not None:
                return self.visit(node.body if t else node.orelse)
            return self.generic_visit(node)

        def visit_Call(self, node):
            node = self.generic_visit(node)
            if norm(node.func) == "getattr":
                v = pe.value(node)
                if v[0] == "s" and norm(v[1]) != norm(node):
                    return v[1]
            return node
    out = S().visit(copy.deepcopy(st))
    ast.fix_missing_locations(out)
    return out


def reader_target(repo: Repo, ci: ClassInfo, k: int) -> Tuple[str, Optional[ast.AST]]:
    """Field that chunk number k is loaded into by ci.load_chunk ('' = not dispatched)."""
    r = repo.lookup(ci, "load_chunk")
    if r is None or r[1] != "method":
        return "", None
    owner, fn = r[0], r[2]
    from . import inline as _inl
    flat0 = _inl.normalize(repo, owner, fn)
    cparam = next((a.arg for a in flat0.args.args if a.arg != "self"), "chunk")
    pe = _PEval(repo, ci, owner, k, cparam)
    try:
        pe.run(stmts_of(flat0))
        unk = getattr(pe, "unknown", None)
        if unk is None:
            return "", None
        res = unk
    except _PEval.Stop as s:
        res = (s.target, s.node)
    except Exception:
        res = ("?error", None)
    if not res[0].startswith("?"):
        return res
    names = {"chunk.chnm"}
    for n in walk_no_nested(fn):
        if isinstance(n, ast.Assign) and norm(n.value) == "chunk.chnm" and isinstance(n.targets[0], ast.Name):
            names.add(n.targets[0].id)

    def walk_chain(stmts) -> Tuple[str, Optional[ast.AST]]:
        """Execute the dispatch for chnm = k: follow the branches whose tests fold, stop at the first statement with an effect."""
        unknown = None
        for st in stmts:
            if isinstance(st, ast.If):
                if not any(nm in norm(st.test) for nm in names):
                    continue            # a test on something else (e.g. the legacy capture): not part of the dispatch
                t = _ReplaceChnm(k, names).visit(copy.deepcopy(st.test))
                ast.fix_missing_locations(t)
                try:
                    val = repo.fold(t, ci=ci, sf=owner.file)
                except NotConst:
                    return f"?undecidable: {norm(st.test)}", st
                taken = st.body if val else st.orelse
                got, node = walk_chain(taken)
                if got != "" or _leaves(taken):
                    return got, (node or st)
                continue
            if isinstance(st, ast.Return):
                return "", st
            if isinstance(st, ast.Assign) and len(st.targets) == 1 and isinstance(st.targets[0], ast.Name) \
                    and (norm(st.value) == "chunk.chnm" or st.targets[0].id in names):
                continue
            if isinstance(st, (ast.Pass,)) or (isinstance(st, ast.Expr) and isinstance(st.value, ast.Constant)):
                continue
            body = [_ReplaceChnm(k, names - {"chunk.chnm"}).visit(copy.deepcopy(st))]
            tgt = body_target(body, repo, ci)
            if tgt.startswith("?"):
                unknown = unknown or (tgt, st)
                continue                # a preparation step (reset(), a local computed on the way): keep looking
            return tgt, st
        if unknown:
            return unknown
        return "", None

    def _leaves(stmts) -> bool:
        return bool(stmts) and isinstance(stmts[-1], (ast.Return, ast.Raise))
    from . import inline
    flat = inline.flatten(repo, owner, fn)
    return walk_chain(stmts_of(flat))


class _FoldIfExp(ast.NodeTransformer):
    """(a if <constant test> else b)  ->  the selected operand."""

    def __init__(self, repo, ci):
        self.repo, self.ci = repo, ci

    def visit_IfExp(self, node):
        node = self.generic_visit(node)
        try:
            v = self.repo.fold(node.test, ci=self.ci)
            return node.body if v else node.orelse
        except Exception:
            return node


def body_target(body, repo=None, ci=None) -> str:
    if repo is not None:
        body = [_FoldIfExp(repo, ci).visit(copy.deepcopy(b)) for b in body]
        for b in body:
            ast.fix_missing_locations(b)
    for st in body:
        if isinstance(st, ast.Assign):
            t = st.targets[0]
            ch = attr_chain(t)
            if ch and ch[0] == "self":
                if ch[-1] in ("bytes", "samples", "values") and len(ch) == 3:
                    return ch[1]
                if len(ch) == 2:
                    return ch[1]
        if isinstance(st, ast.Expr) and isinstance(st.value, ast.Call) and isinstance(st.value.func, ast.Attribute):
            f = st.value.func
            ch = attr_chain(f.value.value if isinstance(f.value, ast.Subscript) else f.value)
            if norm(f.value) == "self":
                m = f.attr
                known = {"load_options": "options", "load_project": "project", "load_label": "label",
                         "load_instrument": "instrument", "load_sample_meta": "sample_meta", "load_sample_data": "sample_data",
                         "load_drawn_waveform": "drawn_waveform"}
                if m in known:
                    return known[m]
                # a helper method of the class: what it stores into
                if repo is not None and ci is not None:
                    r2 = repo.lookup(ci, m)
                    if r2 is not None and r2[1] == "method":
                        from . import inline as _inl2
                        try:
                            hb = _inl2.normalize(repo, r2[0], r2[2], aliases=True)
                        except Exception:
                            hb = r2[2]
                        inner = body_target(stmts_of(hb), repo, ci)
                        if not inner.startswith("?"):
                            return inner
                return m
            if ch and ch[0] == "self" and f.attr in ("load_chdt", "reset"):
                if isinstance(f.value, ast.Subscript):
                    idx = norm(f.value.slice)
                    if repo is not None:
                        try:
                            idx = str(repo.fold(f.value.slice, ci=ci))
                        except NotConst:
                            pass
                    return f"{ch[1]}[{idx}]"
                if f.attr == "reset":
                    continue
                return ch[1]
    return "?" + "; ".join(norm(s) for s in body)[:60]
