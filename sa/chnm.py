"""Module-specific chunk numbers: what each module class can write, and where each number is loaded."""

from __future__ import annotations

import ast
import copy
from dataclasses import dataclass
from typing import Any, Dict, List, Optional, Tuple

from . import alg
from .classmodel import all_options
from .model import AnchorMissing, ClassInfo, NotConst, Repo, attr_chain, norm, stmts_of, walk_no_nested


@dataclass
class WNum:
    lo: int
    hi: int
    step: int
    field: str            # normalised source: attribute name / 'options' / 'project' / ...
    node: ast.AST
    fn: str
    guard: str = ""


def mro_instance_classes(repo: Repo, ci: ClassInfo) -> Dict[str, Tuple[ClassInfo, Optional[ast.Call]]]:
    """self.X -> (class, constructor call) from every __init__ along the MRO."""
    out: Dict[str, Tuple[ClassInfo, Optional[ast.Call]]] = {}
    for c in reversed(repo.mro(ci)):
        init = c.methods.get("__init__")
        if init is None:
            continue
        from . import inline
        init = inline.normalize(repo, c, init)
        for n in walk_no_nested(init):
            if isinstance(n, ast.Assign) and isinstance(n.value, ast.Call):
                ch = attr_chain(n.targets[0])
                if ch and ch[0] == "self" and len(ch) == 2:
                    k = repo.class_of_expr(n.value.func, ci, c.file)
                    if k is not None:
                        out[ch[1]] = (k, n.value)
            elif isinstance(n, ast.Assign) and isinstance(n.value, (ast.List, ast.ListComp)):
                ch = attr_chain(n.targets[0])
                if ch and ch[0] == "self" and len(ch) == 2:
                    out[ch[1]] = (None, n.value)
    return out


def list_length(repo: Repo, ci: ClassInfo, attr: str) -> Optional[int]:
    """Length of self.<attr> when its constructor assigns a list of statically known length."""
    for c in repo.mro(ci):
        init = c.methods.get("__init__")
        if init is None:
            continue
        for n in walk_no_nested(init):
            if isinstance(n, ast.Assign) and norm(n.targets[0]) == f"self.{attr}":
                v = n.value
                while isinstance(v, ast.Call) and norm(v.func) in ("list", "tuple") and len(v.args) == 1:
                    v = v.args[0]
                if isinstance(v, ast.Call) and norm(v.func) == "map" and len(v.args) == 2:
                    try:
                        return len(repo.fold(v.args[1], ci=c, sf=c.file))
                    except (NotConst, TypeError):
                        return None
                if isinstance(v, ast.GeneratorExp) and len(v.generators) == 1 and not v.generators[0].ifs:
                    try:
                        return len(repo.fold(v.generators[0].iter, ci=c, sf=c.file))
                    except (NotConst, TypeError):
                        return None
                if isinstance(v, ast.List):
                    return len(v.elts)
                if isinstance(v, ast.BinOp) and isinstance(v.op, ast.Mult):
                    try:
                        val = repo.fold(v, ci=c)
                        return len(val)
                    except NotConst:
                        return None
                if isinstance(v, ast.ListComp) and len(v.generators) == 1 and not v.generators[0].ifs:
                    try:
                        it = repo.fold(v.generators[0].iter, ci=c, sf=c.file)
                        return len(it)
                    except NotConst:
                        return None
    return None


def _chunk_class_chnm(repo: Repo, owner: ClassInfo, kcls: ClassInfo, call: Optional[ast.Call]) -> Optional[int]:
    r = repo.lookup(kcls, "chnm")
    if r and r[1] == "assign":
        try:
            v = repo.fold(r[2], ci=r[0])
            if v is not None:
                return v
        except NotConst:
            pass
    # chnm passed to the constructor and stored by __init__
    init = kcls.methods.get("__init__")
    if init is not None and call is not None and call.args:
        params = [a.arg for a in init.args.args if a.arg != "self"]
        for n in walk_no_nested(init):
            if isinstance(n, ast.Assign) and norm(n.targets[0]) == "self.chnm" and isinstance(n.value, ast.Name) and n.value.id in params:
                try:
                    return repo.fold(call.args[params.index(n.value.id)], ci=owner)
                except (NotConst, IndexError):
                    return None
    return None


class WriterNumbers:
    def __init__(self, repo: Repo, ci: ClassInfo):
        self.repo = repo
        self.ci = ci
        self.inst = mro_instance_classes(repo, ci)
        self.out: List[WNum] = []
        self.problems: List[Tuple[str, ast.AST]] = []
        self.depth = 0

    def run(self) -> List[WNum]:
        r = self.repo.lookup(self.ci, "specialized_iff_chunks")
        if r is None or r[1] != "method":
            raise AnchorMissing(f"{self.ci.qualname}.specialized_iff_chunks")
        self.function(r[2], r[0], {}, "")
        return self.out

    # ------------------------------------------------------------------
    def function(self, fn: ast.FunctionDef, owner: ClassInfo, env: Dict[str, Tuple[int, int]], guard: str):
        self.depth += 1
        if self.depth > 12:
            self.problems.append(("recursion too deep", fn))
            self.depth -= 1
            return
        try:
            from . import inline
            fn = inline.normalize(self.repo, owner, fn)
            self.block(stmts_of(fn), fn, owner, dict(env), guard, {})
        finally:
            self.depth -= 1

    def block(self, stmts, fn, owner, env, guard, lists):
        pending_chnm: Optional[Tuple[int, int, int, ast.AST]] = None
        for st in stmts:
            if isinstance(st, ast.Expr) and isinstance(st.value, ast.YieldFrom):
                self.delegate(st.value.value, fn, owner, env, guard, lists)
            elif isinstance(st, ast.Expr) and isinstance(st.value, ast.Yield):
                v = st.value.value
                if isinstance(v, ast.Tuple) and len(v.elts) == 2 and isinstance(v.elts[0], ast.Constant):
                    key = v.elts[0].value
                    if key == b"CHNM":
                        pending_chnm = self.number(v.elts[1], owner, env, fn) + (st,) if self.number(v.elts[1], owner, env, fn) else None
                        if pending_chnm is None:
                            self.problems.append((f"chunk number not resolvable: {norm(v.elts[1])}", st))
                    elif key == b"CHDT" and pending_chnm is not None:
                        lo, hi, step, node = pending_chnm
                        self.out.append(WNum(lo, hi, step, self.payload_field(v.elts[1], fn), node, f"{owner.qualname}.{fn.name}", guard))
                        pending_chnm = None
                    elif key is None:
                        pass
            elif isinstance(st, ast.If):
                t = norm(st.test)
                if "is_legacy" in t:
                    # frozen: legacy replay branch (C06); the else part is what follows the early return
                    continue
                self.block(st.body, fn, owner, env, (guard + " and " if guard else "") + t, lists)
                self.block(st.orelse, fn, owner, env, (guard + " and " if guard else "") + f"not ({t})", lists)
            elif isinstance(st, ast.For):
                e2 = dict(env)
                it = st.iter
                if isinstance(it, ast.Name) and it.id in lists:
                    for elt in lists[it.id]:
                        # `for x in iters: yield from x`
                        if len(st.body) == 1 and isinstance(st.body[0], ast.Expr) and isinstance(st.body[0].value, ast.YieldFrom) \
                                and norm(st.body[0].value.value) == norm(st.target):
                            self.delegate(elt, fn, owner, env, guard, lists)
                    continue
                rng = self.loop_range(st, owner)
                if rng is None:
                    if any(isinstance(n, (ast.Yield, ast.YieldFrom)) for n in ast.walk(st)):
                        self.problems.append((f"loop range not resolvable: for {norm(st.target)} in {norm(st.iter)}", st))
                    continue
                var, lo, hi = rng
                e2[var] = (lo, hi)
                self.block(st.body, fn, owner, e2, guard, lists)
            elif isinstance(st, ast.Assign) and len(st.targets) == 1 and isinstance(st.targets[0], ast.Name) \
                    and isinstance(st.value, ast.List):
                lists[st.targets[0].id] = list(st.value.elts)
            elif isinstance(st, ast.Return):
                break

    def loop_range(self, st: ast.For, owner) -> Optional[Tuple[str, int, int]]:
        it = st.iter
        if isinstance(it, ast.Call) and norm(it.func) == "enumerate" and isinstance(st.target, ast.Tuple) \
                and isinstance(st.target.elts[0], ast.Name):
            start = 0
            if len(it.args) > 1:
                try:
                    start = self.repo.fold(it.args[1], ci=owner, sf=owner.file)
                except NotConst:
                    return None
            src = it.args[0]
            ch = attr_chain(src)
            n = None
            if ch and ch[0] == "self" and len(ch) == 2:
                n = list_length(self.repo, self.ci, ch[1])
            if n is None:
                return None
            return st.target.elts[0].id, start, start + n - 1
        if isinstance(it, ast.Call) and norm(it.func) == "range" and isinstance(st.target, ast.Name):
            try:
                a = [self.repo.fold(x, ci=owner, sf=owner.file) for x in it.args]
                r = range(*a)
                return st.target.id, r[0], r[-1]
            except (NotConst, IndexError):
                return None
        return None

    def number(self, e: ast.expr, owner, env, fn: Optional[ast.FunctionDef] = None) -> Optional[Tuple[int, int, int]]:
        # pack("<I", K)
        if fn is not None:
            from .packed import subst_locals
            e = subst_locals(fn, e)
        if isinstance(e, ast.Call) and norm(e.func) in ("pack", "struct.pack") and len(e.args) == 2:
            try:
                fmt = self.repo.fold(e.args[0], ci=owner)
            except NotConst:
                return None
            if fmt != "<I":
                self.problems.append((f"CHNM packed with {fmt!r}", e))
            k = e.args[1]
            try:
                v = self.repo.fold(k, ci=self.ci, sf=owner.file)
                if isinstance(v, int):
                    return v, v, 1
            except NotConst:
                pass
            vars_ = [n.id for n in ast.walk(k) if isinstance(n, ast.Name) and n.id in env]
            if len(set(vars_)) == 1:
                var = vars_[0]
                try:
                    p = alg.to_poly(k, lambda x: alg.Poly.sym("v") if isinstance(x, ast.Name) and x.id == var else self._cleaf(x, owner))
                except alg.NotAlgebraic:
                    return None
                if p.degree_in("v") <= 1:
                    a = int(p.coeff_of("v").const_value()) if p.degree_in("v") == 1 else 0
                    b = int(p.const_value())
                    lo, hi = env[var]
                    vals = sorted([a * lo + b, a * hi + b])
                    return vals[0], vals[1], abs(a) or 1
            return None
        try:
            v = self.repo.fold(e, ci=owner)
            if isinstance(v, bytes) and len(v) == 4:
                n = int.from_bytes(v, "little")
                return n, n, 1
        except NotConst:
            pass
        return None

    def _cleaf(self, x, owner):
        try:
            v = self.repo.fold(x, ci=owner, sf=owner.file)
            if isinstance(v, int):
                return alg.Poly.const(v)
        except NotConst:
            pass
        return None

    def payload_field(self, e: ast.expr, fn: ast.FunctionDef) -> str:
        from .packed import subst_locals
        e = subst_locals(fn, e)
        t = norm(e)
        if t == "self.project.read()":
            return "project"
        if t.startswith("self.data"):
            return "data"
        if "label" in t:
            return "label"
        if t.endswith(".getvalue()"):
            # which object wrote into the buffer?
            for n in walk_no_nested(fn):
                if isinstance(n, ast.Call) and isinstance(n.func, ast.Attribute) and n.func.attr == "write_to":
                    ch = attr_chain(n.func.value)
                    if ch and ch[0] == "self":
                        return ch[1]
            if fn.name == "global_config_chunks":
                return "instrument"
            if fn.name == "sample_chunks":
                return "sample_meta"
        if t == "sample.data":
            return "sample_data"
        ch = attr_chain(e)
        if ch and ch[0] == "self" and len(ch) == 2:
            return ch[1]
        return t

    def delegate(self, e: ast.expr, fn, owner, env, guard, lists):
        """`yield from <e>`."""
        if isinstance(e, ast.Name) and e.id in lists:
            for elt in lists[e.id]:
                self.delegate(elt, fn, owner, env, guard, lists)
            return
        if not isinstance(e, ast.Call):
            self.problems.append((f"yield from {norm(e)}", e))
            return
        f = e.func
        # super().specialized_iff_chunks()
        if isinstance(f, ast.Attribute) and isinstance(f.value, ast.Call) and norm(f.value.func) == "super":
            mro = self.repo.mro(self.ci)
            idx = next((i for i, c in enumerate(mro) if c is owner), None)
            if idx is None:
                self.problems.append(("super() owner not in MRO", e))
                return
            for c in mro[idx + 1:]:
                if f.attr in c.methods:
                    self.function(c.methods[f.attr], c, env, guard)
                    return
            self.problems.append((f"super().{f.attr} not found", e))
            return
        if isinstance(f, ast.Attribute) and f.attr == "chunks":
            recv = f.value
            ch = attr_chain(recv.value if isinstance(recv, ast.Subscript) else recv)
            if ch and ch[0] == "self" and len(ch) == 2:
                attr = ch[1]
                got = self.inst.get(attr)
                if got is None:
                    self.problems.append((f"class of self.{attr} unknown", e))
                    return
                kcls, call = got
                if isinstance(recv, ast.Subscript):
                    # element of a list built in __init__: self.effect_control_envelopes[k]
                    try:
                        idx = self.repo.fold(recv.slice, ci=owner)
                    except NotConst:
                        self.problems.append((f"index of {norm(recv)} not constant", e))
                        return
                    if isinstance(call, ast.List) and idx < len(call.elts) and isinstance(call.elts[idx], ast.Call):
                        ecall = call.elts[idx]
                        ecls = self.repo.class_of_expr(ecall.func, self.ci, owner.file)
                        k = _chunk_class_chnm(self.repo, self.ci, ecls, ecall) if ecls else None
                        if k is None:
                            self.problems.append((f"chnm of {norm(recv)} unknown", e))
                        else:
                            self.out.append(WNum(k, k, 1, f"{attr}[{idx}]", e, f"{owner.qualname}.{fn.name}", guard))
                    else:
                        self.problems.append((f"{norm(recv)} not resolvable", e))
                    return
                if kcls is None:
                    self.problems.append((f"self.{attr} is not a chunk object", e))
                    return
                k = _chunk_class_chnm(self.repo, self.ci, kcls, call)
                if k is None:
                    self.problems.append((f"chnm of self.{attr} ({kcls.qualname}) unknown", e))
                    return
                # DrawnWaveformChunk.chunks writes nothing when default: still a possible number
                self.out.append(WNum(k, k, 1, attr, e, f"{owner.qualname}.{fn.name}", guard))
                return
        # self.method(...)
        if isinstance(f, ast.Attribute) and norm(f.value) == "self":
            r = self.repo.lookup(self.ci, f.attr)
            if r and r[1] == "method":
                fn2 = r[2]
                e2 = dict(env)
                params = [a.arg for a in fn2.args.args if a.arg != "self"]
                for p, a in zip(params, e.args):
                    if isinstance(a, ast.Name) and a.id in env:
                        e2[p] = env[a.id]
                if f.attr == "options_chunks":
                    if all_options(self.repo, self.ci):
                        try:
                            from .classmodel import class_const
                            k = class_const(self.repo, self.ci, "options_chnm")
                            self.out.append(WNum(k, k, 1, "options", e, f"{owner.qualname}.{fn.name}", guard))
                        except (AnchorMissing, NotConst):
                            self.problems.append(("options_chnm not constant", e))
                    return
                self.function(fn2, r[0], e2, guard)
                return
        self.problems.append((f"yield from {norm(e)}", e))


# ------------------------------------------------------------------------------------ reader
class _ReplaceChnm(ast.NodeTransformer):
    def __init__(self, k: int, names):
        self.k = k
        self.names = names

    def visit_Attribute(self, node):
        if norm(node) in self.names:
            return ast.copy_location(ast.Constant(value=self.k), node)
        return self.generic_visit(node)

    def visit_Name(self, node):
        if node.id in self.names:
            return ast.copy_location(ast.Constant(value=self.k), node)
        return node


def reader_target(repo: Repo, ci: ClassInfo, k: int) -> Tuple[str, Optional[ast.AST]]:
    """Field that chunk number k is loaded into by ci.load_chunk ('' = not dispatched)."""
    r = repo.lookup(ci, "load_chunk")
    if r is None or r[1] != "method":
        return "", None
    owner, fn = r[0], r[2]
    names = {"chunk.chnm"}
    for n in walk_no_nested(fn):
        if isinstance(n, ast.Assign) and norm(n.value) == "chunk.chnm" and isinstance(n.targets[0], ast.Name):
            names.add(n.targets[0].id)

    def walk_chain(stmts) -> Tuple[str, Optional[ast.AST]]:
        """Execute the dispatch for chnm = k: follow the branches whose tests fold, stop at the first statement with an effect."""
        unknown = None
        for st in stmts:
            if isinstance(st, ast.If):
                if not any(nm in norm(st.test) for nm in names):
                    continue            # a test on something else (e.g. the legacy capture): not part of the dispatch
                t = _ReplaceChnm(k, names).visit(copy.deepcopy(st.test))
                ast.fix_missing_locations(t)
                try:
                    val = repo.fold(t, ci=ci, sf=owner.file)
                except NotConst:
                    return f"?undecidable: {norm(st.test)}", st
                taken = st.body if val else st.orelse
                got, node = walk_chain(taken)
                if got != "" or _leaves(taken):
                    return got, (node or st)
                continue
            if isinstance(st, ast.Return):
                return "", st
            if isinstance(st, ast.Assign) and len(st.targets) == 1 and isinstance(st.targets[0], ast.Name) \
                    and (norm(st.value) == "chunk.chnm" or st.targets[0].id in names):
                continue
            if isinstance(st, (ast.Pass,)) or (isinstance(st, ast.Expr) and isinstance(st.value, ast.Constant)):
                continue
            body = [_ReplaceChnm(k, names - {"chunk.chnm"}).visit(copy.deepcopy(st))]
            tgt = body_target(body, repo, ci)
            if tgt.startswith("?"):
                unknown = unknown or (tgt, st)
                continue                # a preparation step (reset(), a local computed on the way): keep looking
            return tgt, st
        if unknown:
            return unknown
        return "", None

    def _leaves(stmts) -> bool:
        return bool(stmts) and isinstance(stmts[-1], (ast.Return, ast.Raise))
    from . import inline
    flat = inline.flatten(repo, owner, fn)
    return walk_chain(stmts_of(flat))


class _FoldIfExp(ast.NodeTransformer):
    """(a if <constant test> else b)  ->  the selected operand."""

    def __init__(self, repo, ci):
        self.repo, self.ci = repo, ci

    def visit_IfExp(self, node):
        node = self.generic_visit(node)
        try:
            v = self.repo.fold(node.test, ci=self.ci)
            return node.body if v else node.orelse
        except Exception:
            return node


def body_target(body, repo=None, ci=None) -> str:
    if repo is not None:
        body = [_FoldIfExp(repo, ci).visit(copy.deepcopy(b)) for b in body]
        for b in body:
            ast.fix_missing_locations(b)
    for st in body:
        if isinstance(st, ast.Assign):
            t = st.targets[0]
            ch = attr_chain(t)
            if ch and ch[0] == "self":
                if ch[-1] in ("bytes", "samples", "values") and len(ch) == 3:
                    return ch[1]
                if len(ch) == 2:
                    return ch[1]
        if isinstance(st, ast.Expr) and isinstance(st.value, ast.Call) and isinstance(st.value.func, ast.Attribute):
            f = st.value.func
            ch = attr_chain(f.value.value if isinstance(f.value, ast.Subscript) else f.value)
            if norm(f.value) == "self":
                m = f.attr
                known = {"load_options": "options", "load_project": "project", "load_label": "label",
                         "load_instrument": "instrument", "load_sample_meta": "sample_meta", "load_sample_data": "sample_data",
                         "load_drawn_waveform": "drawn_waveform"}
                if m in known:
                    return known[m]
                # a helper method of the class: what it stores into
                if repo is not None and ci is not None:
                    r2 = repo.lookup(ci, m)
                    if r2 is not None and r2[1] == "method":
                        inner = body_target(stmts_of(r2[2]), repo, ci)
                        if not inner.startswith("?"):
                            return inner
                return m
            if ch and ch[0] == "self" and f.attr in ("load_chdt", "reset"):
                if isinstance(f.value, ast.Subscript):
                    idx = norm(f.value.slice)
                    if repo is not None:
                        try:
                            idx = str(repo.fold(f.value.slice, ci=ci))
                        except NotConst:
                            pass
                    return f"{ch[1]}[{idx}]"
                if f.attr == "reset":
                    continue
                return ch[1]
    return "?" + "; ".join(norm(s) for s in body)[:60]
