"""Checker self-test: mutants (must fire), twins (must stay silent), defect replays.

Each case is a text edit applied to a scratch copy of the analysed part of /repo (src/python,
specs, docs) outside /repo and /verif; the property check is run on the copy with
RV_VERIF_REPO pointing at it and its evidence redirected into the scratch directory.  A case
whose anchor text is absent from the tree under test is skipped and counted.  A self-test
failure is an analysis error (exit 2), never a verdict on the property.
"""

from __future__ import annotations

import json
import os
import shutil
import subprocess
import sys
import tempfile
from concurrent.futures import ThreadPoolExecutor
from pathlib import Path
from typing import Dict, List, Optional, Tuple

HERE = Path(__file__).resolve().parent
VERIF = HERE.parent
COPY_DIRS = ["src/python", "specs", "docs"]


def _repo_root() -> Path:
    return Path(os.environ.get("RV_VERIF_REPO", "/repo"))


def make_copy(dst: Path, src_root: Optional[Path] = None):
    src_root = src_root or _repo_root()
    for d in COPY_DIRS:
        s = src_root / d
        if s.is_dir():
            shutil.copytree(s, dst / d, ignore=shutil.ignore_patterns("__pycache__", "*.pyc", "_build"))


def apply_edits(root: Path, edits: List[Tuple[str, str, str]]) -> Optional[str]:
    """edits: (relative file, old text, new text). Returns a skip reason or None."""
    for rel, old, new in edits:
        p = root / rel
        if not p.is_file():
            return f"file {rel} absent"
        text = p.read_text(encoding="utf8")
        if text.count(old) != 1:
            return f"anchor text occurs {text.count(old)} times in {rel}"
        p.write_text(text.replace(old, new), encoding="utf8")
    return None


def run_case(case: Dict, base: Path) -> Dict:
    """Run one case in its own scratch copy. Returns a result dict."""
    work = Path(tempfile.mkdtemp(prefix=f"rvsa-{case['id']}-", dir=str(base)))
    try:
        make_copy(work)
        if case.get("patch"):
            p = subprocess.run(["git", "apply", "--include=src/python/*", "--include=specs/*", "--include=docs/*", str(case["patch"])],
                               cwd=str(work), capture_output=True, text=True)
            skip = None if p.returncode == 0 else f"patch does not apply to this tree: {p.stderr.strip()[:120]}"
        else:
            skip = apply_edits(work, case["edits"])
        if skip:
            return {"id": case["id"], "status": "skipped", "why": skip}
        # the mutated file must still compile
        for rel, _, _ in case["edits"]:
            if rel.endswith(".py"):
                try:
                    compile((work / rel).read_text(encoding="utf8"), rel, "exec")
                except SyntaxError as e:
                    return {"id": case["id"], "status": "broken-case", "why": f"does not compile: {e}"}
        env = dict(os.environ)
        env["RV_VERIF_REPO"] = str(work)
        env["RV_VERIF_EVIDENCE_DIR"] = str(work / "_evidence")
        env["RV_VERIF_KNOWN"] = case.get("known_file", str(VERIF / "known_findings.json"))
        env["VERIF_TIER"] = "quick"
        props = case["props"] if isinstance(case.get("props"), list) else [case["prop"]]
        results = {}
        for prop in props:
            p = subprocess.run([sys.executable, str(HERE / "check.py"), prop, "--tier", "quick"],
                               cwd=str(VERIF), env=env, capture_output=True, text=True, timeout=300)
            results[prop] = (p.returncode, p.stdout[-3000:])
        return {"id": case["id"], "status": "ran", "results": results}
    finally:
        shutil.rmtree(work, ignore_errors=True)


def evaluate(case: Dict, res: Dict) -> Tuple[bool, str]:
    if res["status"] == "skipped":
        return True, f"skipped ({res['why']})"
    if res["status"] != "ran":
        return False, res.get("why", res["status"])
    expect = case["expect"]          # "V" violation, "T" silent twin
    msgs = []
    ok = True
    for prop, (rc, out) in res["results"].items():
        if expect == "V":
            good = rc == 1 and "VIOLATION property=" + prop in out
            if good and case.get("mention"):
                good = case["mention"] in out
            if not good:
                ok = False
                msgs.append(f"{prop}: expected VIOLATION{' mentioning ' + case['mention'] if case.get('mention') else ''}, got rc={rc}: {out[-400:]}")
        elif prop in (case.get("undecided") or []):
            # a recorded decline (DESIGN.md §10.9): the check may say "cannot read this shape" (exit 2) but never VIOLATION
            if rc not in (0, 2) or "VIOLATION property=" in out:
                ok = False
                msgs.append(f"{prop}: twin recorded as undecided must not raise a violation, got rc={rc}: {out[-600:]}")
        else:
            if rc != 0:
                ok = False
                msgs.append(f"{prop}: twin must stay silent, got rc={rc}: {out[-600:]}")
    return ok, "; ".join(msgs) or "as expected"


def seeded_cases() -> List[Dict]:
    """Confirmed property-breaking changes written by independent sub-agents (/verif/seeded/<id>/patch.diff)."""
    out = []
    root = VERIF / "seeded"
    if not root.is_dir():
        return out
    for d in sorted(root.iterdir()):
        mp, pp = d / "meta.json", d / "patch.diff"
        if not (mp.exists() and pp.exists()):
            continue
        meta = json.loads(mp.read_text())
        verdict = (meta.get("checks_run") or {}).get("target_verdict")
        if verdict != "CAUGHT":
            continue        # recorded misses (declined clauses) are listed in DESIGN.md, not asserted here
        out.append({"id": f"seeded-{d.name}", "prop": meta["property"], "props": [meta["property"]], "edits": [], "patch": str(pp),
                    "expect": "V", "mention": None})
    return out


ALL_PROPS = [f"C{i:02d}" for i in range(1, 21)]


def twin_cases() -> List[Dict]:
    """Behaviour-preserving refactorings (/verif/twins/<id>/patch.diff): every listed check must stay silent (exit 0)."""
    out = []
    root = VERIF / "twins"
    if not root.is_dir():
        return out
    for d in sorted(root.iterdir()):
        pp = d / "patch.diff"
        if not pp.exists():
            continue
        meta = json.loads((d / "meta.json").read_text()) if (d / "meta.json").exists() else {}
        props = meta.get("props") or ALL_PROPS
        out.append({"id": f"twin-{d.name}", "prop": props[0], "props": list(props), "edits": [], "patch": str(pp),
                    "expect": "T", "mention": None, "undecided": list(meta.get("undecided_props") or [])})
    return out


def load_cases(prop: Optional[str] = None) -> List[Dict]:
    from sa import mutants
    cases = list(mutants.CASES) + seeded_cases() + twin_cases()
    if prop:
        cases = [c for c in cases if prop in (c.get("props") or [c.get("prop")])]
        # run each case only under the requested property
        cases = [dict(c, props=[prop]) for c in cases]
    return cases


def run_cases(cases: List[Dict], jobs: int = 16, verbose: bool = True) -> int:
    base = Path(tempfile.mkdtemp(prefix="rvsa-selftest-"))
    failed = 0
    skipped = 0
    try:
        with ThreadPoolExecutor(max_workers=jobs) as ex:
            results = list(ex.map(lambda c: run_case(c, base), cases))
        for case, res in zip(cases, results):
            ok, msg = evaluate(case, res)
            if res["status"] == "skipped":
                skipped += 1
            if not ok:
                failed += 1
            if verbose or not ok:
                print(f"  selftest {case['id']:28s} [{case['expect']}] {'ok  ' if ok else 'FAIL'} {msg[:900]}")
    finally:
        shutil.rmtree(base, ignore_errors=True)
    print(f"selftest: {len(cases)} cases, {failed} failed, {skipped} skipped")
    return failed


def summary_for(prop: str, jobs: int = 16) -> Dict:
    """Run the corpus for one property; returns counts and failure messages (for the evidence file)."""
    cases = load_cases(prop)
    out = {"cases": len(cases), "mutants_detected": 0, "twins_silent": 0, "skipped": 0, "failures": [], "ids": [c["id"] for c in cases]}
    if not cases:
        return out
    base = Path(tempfile.mkdtemp(prefix="rvsa-selftest-"))
    try:
        with ThreadPoolExecutor(max_workers=jobs) as ex:
            results = list(ex.map(lambda c: run_case(c, base), cases))
        for case, res in zip(cases, results):
            ok, msg = evaluate(case, res)
            if res["status"] == "skipped":
                out["skipped"] += 1
            elif ok and case["expect"] == "V":
                out["mutants_detected"] += 1
            elif ok and prop in (case.get("undecided") or []):
                out["twins_recorded_undecided"] = out.get("twins_recorded_undecided", 0) + 1       # no VIOLATION; may be exit 2 (DESIGN §10.9)
            elif ok:
                out["twins_silent"] += 1
            if not ok:
                out["failures"].append(f"{case['id']}: {msg[:300]}")
    finally:
        shutil.rmtree(base, ignore_errors=True)
    return out


def run_for(prop: str) -> int:
    cases = load_cases(prop)
    if not cases:
        print(f"selftest: no cases for {prop}")
        return 0
    failed = run_cases(cases, verbose=False)
    if failed:
        print(f"ANALYSIS-ERROR property={prop} checker self-test failed on {failed} case(s)")
    return failed


if __name__ == "__main__":
    sys.path.insert(0, str(VERIF))
    prop = sys.argv[1] if len(sys.argv) > 1 and sys.argv[1] != "all" else None
    only = sys.argv[2] if len(sys.argv) > 2 else None
    cs = load_cases(prop)
    if only:
        cs = [c for c in cs if only in c["id"]]
    sys.exit(1 if run_cases(cs) else 0)
