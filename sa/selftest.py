"""Checker self-test (mutants / twins); filled in later."""


def run_for(prop: str) -> int:
    return 0
