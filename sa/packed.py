"""Packed-word rules in the bit domain: accessor pairs and packer/unpacker pairs."""

from __future__ import annotations

import ast
from typing import Dict, List, Optional, Tuple

from . import bits
from .bits import BV, BitEval, Unsupported, low_bits_of_single_term
from .model import AnchorMissing, ClassInfo, NotConst, Repo, attr_chain, norm, stmts_of, walk_no_nested


def word_accessors(repo: Repo, ci: ClassInfo) -> Dict[str, List[str]]:
    """word attribute -> property names whose getter reads and whose setter writes only self.<word>."""
    out: Dict[str, List[str]] = {}
    from . import inline
    for name, g in ci.getters.items():
        s = ci.setters.get(name)
        if s is None:
            continue
        # private helpers (`self._swap(shift, old, new)`, `self._extract(shift, mask)`) are read through
        g, s = inline.normalize(repo, ci, g), inline.normalize(repo, ci, s)
        written = set()
        for n in walk_no_nested(s):
            tgt = None
            if isinstance(n, ast.Assign):
                tgt = n.targets
            elif isinstance(n, ast.AugAssign):
                tgt = [n.target]
            for t in tgt or []:
                ch = attr_chain(t)
                if ch and ch[0] == "self" and len(ch) == 2:
                    written.add(ch[1])
        if len(written) != 1:
            continue
        word = next(iter(written))
        if word == name or word in ci.getters:
            continue
        reads = {attr_chain(n)[1] for n in walk_no_nested(g)
                 if isinstance(n, ast.Attribute) and attr_chain(n) and attr_chain(n)[0] == "self" and len(attr_chain(n)) == 2}
        if word not in reads:
            continue
        # must be an arithmetic getter (bit ops), not a plain alias
        if not any(isinstance(n, ast.BinOp) for n in walk_no_nested(g)):
            continue
        out.setdefault(word, []).append(name)
    return out


def check_accessors(repo: Repo, rep, P: str, ci: ClassInfo, word: str, width: int, names: List[str],
                    expected_fields: Optional[Dict[Tuple[int, int], str]] = None):
    """Obligations (a)/(b)/(c) of DESIGN §4 C12 R3 for the accessors of one packed word."""
    construct_base = f"{ci.file.rel}:{ci.qualname}"
    key = f"self.{word}"
    old = BV.term("old", width=width)
    fsets: Dict[str, List[int]] = {}
    getters = {}
    from . import inline
    undecided = False
    for name in names:
        g = inline.normalize(repo, ci, ci.getters[name])
        try:
            ev = BitEval(repo, ci, {key: old})
            gv = ev.run(stmts_of(g))
        except Unsupported as e:
            rep.inconclusive(f"{P}.R3", f"{construct_base}.{name}", norm(g.body[-1]),
                             f"getter not evaluable in the bit domain: {e}", f"{ci.file.rel}:{g.lineno}")
            undecided = True
            continue
        if gv is None:
            rep.inconclusive(f"{P}.R3", f"{construct_base}.{name}", "", "getter returns nothing",
                             f"{ci.file.rel}:{g.lineno}")
            undecided = True
            continue
        F = sorted({l[2] for l in gv.lanes if isinstance(l, tuple) and l[0] == "s" and l[1] == "old"})
        tops = [l for l in gv.lanes if bits.is_top(l)]
        if tops or not F:
            rep.inconclusive(f"{P}.R3", f"{construct_base}.{name}", norm(g.body[-1]),
                             "getter is not a pure bit extraction of the word", f"{ci.file.rel}:{g.lineno}")
            undecided = True
            continue
        # getter must be a contiguous extraction old[s..s+k-1] placed at lanes 0..k-1
        ok_shape = all(gv.lanes[i] == bits.S("old", F[0] + i) for i in range(len(F))) and \
            all(l == 0 for l in gv.lanes[len(F):])
        if not ok_shape:
            rep.inconclusive(f"{P}.R3", f"{construct_base}.{name}", norm(g.body[-1]),
                             "getter does not extract a contiguous field", f"{ci.file.rel}:{g.lineno}")
            undecided = True
            continue
        fsets[name] = F
        getters[name] = g
    # (c) disjointness
    allnames = sorted(fsets)
    for i, a in enumerate(allnames):
        for b in allnames[i + 1:]:
            inter = set(fsets[a]) & set(fsets[b])
            if inter:
                rep.violation(f"{P}.R3c", f"{construct_base}.{a}", f"{a} bits {fsets[a][0]}..{fsets[a][-1]} / {b} bits {fsets[b][0]}..{fsets[b][-1]}",
                              f"sub-fields {a} and {b} of {word} overlap on bits {sorted(inter)}",
                              f"{ci.file.rel}:{getters[a].lineno}")
            else:
                rep.ok(f"{P}.R3c", f"{construct_base}.{a}", f"disjoint from {b}", nontrivial=False)
    if expected_fields is not None:
        got = {(F[0], len(F)): n for n, F in fsets.items()}
        for k, nm in expected_fields.items():
            if k not in got and (undecided or len(fsets) < len(expected_fields)):
                rep.inconclusive(f"{P}.R3c", construct_base, f"field start={k[0]} length={k[1]} ({nm})",
                                 "an accessor could not be evaluated, so the specified sub-field cannot be matched", f"{ci.file.rel}:{ci.node.lineno}")
            elif k not in got:
                rep.violation(f"{P}.R3c", construct_base, f"field start={k[0]} length={k[1]} ({nm})",
                              f"specified sub-field {nm} (bits {k[0]}..{k[0] + k[1] - 1}) has no accessor reading exactly those bits; "
                              f"accessors read {sorted(got)}", f"{ci.file.rel}:{ci.node.lineno}")
            else:
                rep.ok(f"{P}.R3c", f"{construct_base}.{got[k]}", f"bits {k[0]}..{k[0] + k[1] - 1} = spec member {nm}")
        for k, n in got.items():
            if k not in expected_fields:
                rep.violation(f"{P}.R3c", f"{construct_base}.{n}", f"field start={k[0]} length={k[1]}",
                              "accessor reads bits that are not a specified sub-field",
                              f"{ci.file.rel}:{getters[n].lineno}")
    # (a), (b) per setter
    for name in allnames:
        s = inline.normalize(repo, ci, ci.setters[name])
        params = [a.arg for a in s.args.args if a.arg != "self"]
        if len(params) != 1:
            rep.inconclusive(f"{P}.R3", f"{construct_base}.{name}", "", "setter signature", f"{ci.file.rel}:{s.lineno}")
            continue
        text = "; ".join(norm(x) for x in stmts_of(s))
        imprecise0 = bits.IMPRECISE[0]
        try:
            ev = BitEval(repo, ci, {key: old, params[0]: BV.term("v")})
            ev.run(stmts_of(s))
            new = ev.env[key]
            ev2 = BitEval(repo, ci, {key: new})
            back = ev2.run(stmts_of(getters[name]))
        except Unsupported as e:
            rep.inconclusive(f"{P}.R3", f"{construct_base}.{name}", text,
                             f"setter not evaluable in the bit domain: {e}", f"{ci.file.rel}:{s.lineno}")
            continue
        F = fsets[name]
        where = f"{ci.file.rel}:{s.lineno}"
        # (a) read-back is the new value masked/clamped to the field width
        lb = low_bits_of_single_term(back)
        # lanes lost to an unknown carry / borrow are "unknown", not "wrong": a violation needs a lane that is definitely off
        definite_back = any((not bits.is_unknown(l)) and "old" in bits.deps(l) for l in back.lanes[:len(F)])
        definite_other = [i for i in range(width) if i not in F and new.lanes[i] != old.lanes[i] and not bits.is_unknown(new.lanes[i])]
        any_unknown = any(bits.is_unknown(l) for l in new.lanes) or any(bits.is_unknown(l) for l in back.lanes)
        if any_unknown and not definite_back and not definite_other:
            rep.inconclusive(f"{P}.R3", f"{construct_base}.{name}", text,
                             "the setter uses addition / subtraction whose carries the bit domain cannot follow (e.g. adding the difference "
                             "of new and old): not decided", where)
            continue
        if lb is None or "old" in back.deps():
            bad = [f"bit {F[0] + i}: {x}" for i, x in enumerate(back.show(len(F))) if "old" in x or x.startswith("T")]
            rep.violation(f"{P}.R3a", f"{construct_base}.{name}", text,
                          f"after setting {name} the getter does not return the new value: read-back bits "
                          f"{back.show(len(F) + 1)} depend on the previous word content ({'; '.join(bad[:4])})", where)
        elif lb[1] != len(F):
            rep.violation(f"{P}.R3a", f"{construct_base}.{name}", text,
                          f"setter keeps {lb[1]} bit(s) of the new value but the getter reads a {len(F)}-bit field",
                          where)
        else:
            rep.ok(f"{P}.R3a", f"{construct_base}.{name}", text, f"read-back = {lb[0]}[0..{lb[1] - 1}]")
            rep.sample({"accessor": f"{construct_base}.{name}", "field_bits": [F[0], F[-1]],
                        "word_after_set": new.show(width), "read_back": back.show(len(F))})
        # (b) every other bit unchanged
        changed = [i for i in range(width) if i not in F and new.lanes[i] != old.lanes[i]]
        high = [i for i in range(width, bits.W) if new.lanes[i] != 0]
        if changed or high:
            others = [n for n in allnames if n != name and set(fsets[n]) & set(changed)]
            rep.violation(f"{P}.R3b", f"{construct_base}.{name}", text,
                          f"setting {name} changes bits {changed or high} outside its field"
                          + (f" (sub-field(s) {others})" if others else ""), where)
        else:
            rep.ok(f"{P}.R3b", f"{construct_base}.{name}", text, "all other bits = old")
    return fsets


# ------------------------------------------------------------------- packer / unpacker pairs
def find_yield(fn: ast.FunctionDef, chunk_id: bytes) -> Optional[ast.expr]:
    """Payload expression of `yield b"ID", payload` in fn."""
    for n in walk_no_nested(fn):
        if isinstance(n, ast.Yield) and isinstance(n.value, ast.Tuple) and len(n.value.elts) == 2:
            k = n.value.elts[0]
            if isinstance(k, ast.Constant) and k.value == chunk_id:
                return n.value.elts[1]
    return None


def subst_locals(fn: ast.FunctionDef, expr: ast.expr, depth: int = 4) -> ast.expr:
    """Copy of `expr` with every local name that `fn` assigns exactly once (`name = rhs`, before the use, never
    aug-assigned / deleted / used as a loop or with target) replaced by its rhs.  A name assigned inside a loop is
    substituted only for uses inside the same loop."""
    import copy
    if not hasattr(fn, "_seq"):
        from .inline import number
        number(fn)
    assigned: Dict[str, list] = {}
    loop_span: Dict[str, Tuple[int, int]] = {}     # name -> sequence span of the innermost loop that assigns it
    loop_targets = set()
    for n in walk_no_nested(fn):
        if isinstance(n, (ast.For, ast.While, ast.AsyncFor)):
            if not isinstance(n, ast.While):
                for m in ast.walk(n.target):
                    if isinstance(m, ast.Name):
                        loop_targets.add(m.id)
            for st in n.body + n.orelse:
                for m in ast.walk(st):
                    if isinstance(m, ast.Name) and isinstance(m.ctx, (ast.Store, ast.Del)):
                        span = (n._seq, n._seq_end)
                        old = loop_span.get(m.id)
                        if old is None or (span[0] >= old[0] and span[1] <= old[1]):
                            loop_span[m.id] = span
        if isinstance(n, ast.Name) and isinstance(n.ctx, (ast.Store, ast.Del)):
            assigned.setdefault(n.id, []).append(n)
        if isinstance(n, (ast.comprehension,)):
            for m in ast.walk(n.target):
                if isinstance(m, ast.Name):
                    loop_targets.add(m.id)
    single: Dict[str, ast.Assign] = {}
    for n in walk_no_nested(fn):
        if isinstance(n, ast.Assign) and len(n.targets) == 1 and isinstance(n.targets[0], ast.Name):
            name = n.targets[0].id
            if len(assigned.get(name, [])) == 1 and name not in loop_targets:
                single[name] = n

    class Sub(ast.NodeTransformer):
        def __init__(self, d, at):
            self.d = d
            self.at = at

        def visit_Name(self, node):
            a = single.get(node.id)
            use = getattr(node, "_seq", self.at)
            span = loop_span.get(node.id)
            if span is not None and not (use is not None and span[0] <= use <= span[1]):
                return node          # assigned in a loop, used outside it
            if isinstance(node.ctx, ast.Load) and a is not None and use is not None and a._seq < use and self.d > 0:
                new = copy.deepcopy(a.value)
                for m in ast.walk(new):
                    if hasattr(m, "lineno"):
                        m.lineno = getattr(node, "lineno", m.lineno)
                        m.end_lineno = getattr(node, "end_lineno", m.lineno)
                    m._seq = use
                    m._seq_end = use
                return Sub(self.d - 1, use).visit(new)
            return node
    at = getattr(expr, "_seq", None)
    if at is None:
        # an expression that is not a node of fn (already substituted elsewhere): treat as used at the end
        at = getattr(fn, "_seq_end", 10 ** 9)
    return Sub(depth, at).visit(copy.deepcopy(expr))


def single_defs(fn: ast.AST) -> Dict[str, ast.expr]:
    """name -> defining expression for every local bound exactly once in `fn` (tuple assignments element-wise); loop and
    comprehension targets, augmented and deleted names are excluded."""
    cnt: Dict[str, int] = {}
    rhs: Dict[str, ast.expr] = {}
    banned = set()
    for n in walk_no_nested(fn):
        if isinstance(n, (ast.For, ast.AsyncFor, ast.comprehension)):
            for m in ast.walk(n.target):
                if isinstance(m, ast.Name):
                    banned.add(m.id)
        if isinstance(n, ast.AugAssign) and isinstance(n.target, ast.Name):
            banned.add(n.target.id)
        if isinstance(n, ast.Name) and isinstance(n.ctx, (ast.Store, ast.Del)):
            cnt[n.id] = cnt.get(n.id, 0) + 1
        if isinstance(n, ast.NamedExpr) and isinstance(n.target, ast.Name):
            rhs[n.target.id] = n.value          # (name := value)
        if isinstance(n, ast.Assign) and len(n.targets) == 1:
            t, v = n.targets[0], n.value
            if isinstance(t, ast.Name):
                rhs[t.id] = v
            elif isinstance(t, (ast.Tuple, ast.List)) and isinstance(v, (ast.Tuple, ast.List)) and len(t.elts) == len(v.elts):
                for a, b in zip(t.elts, v.elts):
                    if isinstance(a, ast.Name):
                        rhs[a.id] = b
    if hasattr(fn, "args"):
        for a in fn.args.args:
            banned.add(a.arg)
    return {k: v for k, v in rhs.items() if cnt.get(k) == 1 and k not in banned}


def resolve_names(e: ast.expr, defs: Dict[str, ast.expr], depth: int = 6) -> ast.expr:
    import copy

    def go(x, d):
        class Sub(ast.NodeTransformer):
            def visit_Name(self, node):
                if isinstance(node.ctx, ast.Load) and node.id in defs and d > 0:
                    return go(defs[node.id], d - 1)
                return node
        return Sub().visit(copy.deepcopy(x))
    return go(e, depth)


def fuse_comprehensions(e: ast.expr) -> ast.expr:
    """`f(x) for x in (g(y) for y in Y)`  ->  `f(g(y)) for y in Y`   (single generators, no conditions, plain name target)."""
    import copy

    class Fuse(ast.NodeTransformer):
        def _fuse(self, node):
            node = self.generic_visit(node)
            if len(node.generators) == 1 and not node.generators[0].ifs and isinstance(node.generators[0].target, ast.Name):
                inner = node.generators[0].iter
                if isinstance(inner, (ast.GeneratorExp, ast.ListComp)) and len(inner.generators) == 1 and not inner.generators[0].ifs:
                    tv = node.generators[0].target.id

                    class Sub(ast.NodeTransformer):
                        def visit_Name(self, n2):
                            if n2.id == tv and isinstance(n2.ctx, ast.Load):
                                return copy.deepcopy(inner.elt)
                            return n2
                    new = copy.copy(node)
                    new.elt = Sub().visit(copy.deepcopy(node.elt))
                    new.generators = [copy.deepcopy(inner.generators[0])]
                    return ast.fix_missing_locations(new)
            return node

        visit_GeneratorExp = visit_ListComp = _fuse
    return Fuse().visit(copy.deepcopy(e))


def once_defs(stmts) -> Dict[str, ast.expr]:
    """name -> rhs for names assigned exactly once at the top level of a statement list (a loop body, say)."""
    cnt: Dict[str, int] = {}
    rhs: Dict[str, ast.expr] = {}
    for st in stmts:
        for n in ast.walk(st):
            if isinstance(n, ast.Name) and isinstance(n.ctx, ast.Store):
                cnt[n.id] = cnt.get(n.id, 0) + 1
        if isinstance(st, ast.Assign) and len(st.targets) == 1 and isinstance(st.targets[0], ast.Name):
            rhs[st.targets[0].id] = st.value
    return {k: v for k, v in rhs.items() if cnt.get(k) == 1}


def resolve_in_block(e: ast.expr, stmts, depth: int = 5) -> ast.expr:
    """`e` with the block's once-assigned locals replaced by their definitions."""
    import copy
    defs = once_defs(stmts)

    def go(x, d):
        class Sub(ast.NodeTransformer):
            def visit_Name(self, node):
                if isinstance(node.ctx, ast.Load) and node.id in defs and d > 0:
                    return go(defs[node.id], d - 1)
                return node
        return Sub().visit(copy.deepcopy(x))
    return go(e, depth)


def check_pack_pair(repo: Repo, rep, P: str, rule: str, writer_ci: ClassInfo, writer_fn: str, chunk_id: bytes,
                    reader_ci: ClassInfo, widths: Dict[str, int], obj_prefix=("self", "object")):
    """`pack(FMT, EXPR(self.a, self.b))` in the writer vs the statements of `process_<ID>` in the reader."""
    _, wfn = repo.method(writer_ci, writer_fn)
    from . import inline
    wfn = inline.flatten(repo, writer_ci, wfn)
    cid = chunk_id.decode().strip()
    wconstruct = f"{writer_ci.file.rel}:{writer_ci.qualname}.{writer_fn}[{cid}]"
    payload = find_yield(wfn, chunk_id)
    if payload is not None:
        line = payload.lineno
        payload = subst_locals(wfn, payload)
        payload.lineno = line
    if payload is None:
        rep.violation(f"{P}.{rule}", wconstruct, f"yield b'{cid}', ...",
                      f"writer no longer emits {cid}", f"{writer_ci.file.rel}:{wfn.lineno}")
        return
    if not (isinstance(payload, ast.Call) and norm(payload.func) in ("pack", "struct.pack") and len(payload.args) == 2):
        rep.inconclusive(f"{P}.{rule}", wconstruct, norm(payload), "payload is not pack(FMT, expr)",
                         f"{writer_ci.file.rel}:{payload.lineno}")
        return
    try:
        fmt = repo.fold(payload.args[0], ci=writer_ci)
        import struct
        size = struct.calcsize(fmt)
    except Exception:
        rep.inconclusive(f"{P}.{rule}", wconstruct, norm(payload), "format not constant", f"{writer_ci.file.rel}:{payload.lineno}")
        return
    env = {f"self.{a}": BV.term(a, width=w) for a, w in widths.items()}
    try:
        ev = BitEval(repo, writer_ci, env)
        word = ev.ev(payload.args[1])
    except Unsupported as e:
        rep.inconclusive(f"{P}.{rule}", wconstruct, norm(payload), f"not evaluable: {e}", f"{writer_ci.file.rel}:{payload.lineno}")
        return
    unknown = word.deps() - set(widths) - {bits.CARRY}          # the carry marker is not a term (lanes lost to carries are judged below)
    if unknown:
        rep.inconclusive(f"{P}.{rule}", wconstruct, norm(payload), f"packed word depends on terms of unknown width: {sorted(unknown)}",
                         f"{writer_ci.file.rel}:{payload.lineno}")
        return
    lost = [i for i in range(size * 8, bits.W) if word.lanes[i] != 0]
    word = word.truncate(size * 8)
    handler = reader_ci.methods.get(f"process_{cid}")
    if handler is not None:
        handler = inline.flatten(repo, reader_ci, handler)
    rconstruct = f"{reader_ci.file.rel}:{reader_ci.qualname}.process_{cid}"
    if handler is None:
        rep.violation(f"{P}.{rule}", rconstruct, f"def process_{cid}", f"reader has no handler for {cid}",
                      f"{reader_ci.file.rel}:{reader_ci.node.lineno}")
        return
    # `unpack(FMT, data)[0]` used in place (a helper that returns the word was read through): name the word first
    inplace = [n for n in ast.walk(handler) if isinstance(n, ast.Subscript) and isinstance(n.value, ast.Call) and norm(n.value.func) in ("unpack", "struct.unpack")
               and isinstance(n.slice, ast.Constant) and n.slice.value == 0]
    if inplace and len({norm(n) for n in inplace}) == 1 and not any(isinstance(st, ast.Assign) and isinstance(st.value, ast.Call)
                                                                    and norm(st.value.func) in ("unpack", "struct.unpack") for st in ast.walk(handler)):
        import copy as _copy
        call0 = _copy.deepcopy(inplace[0].value)
        text0 = norm(inplace[0])

        class H(ast.NodeTransformer):
            def visit_Subscript(self, node):
                if norm(node) == text0:
                    return ast.copy_location(ast.Name(id="__word", ctx=ast.Load()), node)
                return self.generic_visit(node)
        handler = H().visit(_copy.deepcopy(handler))
        first = ast.Assign(targets=[ast.Tuple(elts=[ast.Name(id="__word", ctx=ast.Store())], ctx=ast.Store())], value=call0)
        handler.body = [first] + handler.body
        ast.fix_missing_locations(handler)
        handler = inline.split_tuple_assigns(handler)
    # find `(x,) = unpack(FMT, data)`
    body = stmts_of(handler)
    xname = None
    rest = []
    for st in body:
        if xname is None and isinstance(st, ast.Assign) and isinstance(st.value, ast.Call) \
                and norm(st.value.func) in ("unpack", "struct.unpack"):
            t = st.targets[0]
            if isinstance(t, ast.Tuple) and len(t.elts) == 1 and isinstance(t.elts[0], ast.Name):
                xname = t.elts[0].id
                try:
                    rfmt = repo.fold(st.value.args[0], ci=reader_ci)
                except NotConst:
                    rfmt = None
                if rfmt is None or struct.calcsize(rfmt) != size:
                    rep.violation(f"{P}.{rule}", rconstruct, norm(st), f"reader format {rfmt!r} vs writer {fmt!r}",
                                  f"{reader_ci.file.rel}:{st.lineno}")
                continue
        rest.append(st)
    if xname is None:
        rep.inconclusive(f"{P}.{rule}", rconstruct, "", "no `(x,) = unpack(...)` found", f"{reader_ci.file.rel}:{handler.lineno}")
        return
    try:
        ev2 = BitEval(repo, reader_ci, {xname: word})
        ev2.run(rest)
    except Unsupported as e:
        rep.inconclusive(f"{P}.{rule}", rconstruct, "; ".join(norm(s) for s in rest), f"not evaluable: {e}",
                         f"{reader_ci.file.rel}:{handler.lineno}")
        return
    prefix = ".".join(obj_prefix) + "."
    for a, w in widths.items():
        got = ev2.env.get(prefix + a)
        text = "; ".join(norm(s) for s in rest if (prefix + a) in norm(s))
        where = f"{reader_ci.file.rel}:{handler.lineno}"
        if got is None:
            rep.violation(f"{P}.{rule}", rconstruct, f"{prefix}{a} = ...",
                          f"reader never assigns {a}, which the writer packs into {cid}", where)
            continue
        lb = low_bits_of_single_term(got)
        if lb is None or lb[0] != a:
            rep.violation(f"{P}.{rule}", rconstruct, text,
                          f"{cid}: value read back into {a} is {got.show(12)}, not the bits of {a} the writer packed "
                          f"({norm(payload.args[1])})", where)
        elif lb[1] < w:
            rep.violation(f"{P}.{rule}", rconstruct, text,
                          f"{cid}: only {lb[1]} of the {w} bits of {a} survive the pack/unpack pair", where)
        else:
            rep.ok(f"{P}.{rule}", rconstruct, text, f"{a}: {w} bit(s) survive; word={word.show(size * 8)}")
            rep.sample({"chunk": cid, "field": a, "packed_word": word.show(size * 8), "read_back": got.show(w + 1)})
    extra = [k for k in ev2.env if k.startswith(prefix) and k[len(prefix):] not in widths]
    for k in extra:
        rep.info(f"{P}.{rule}", rconstruct, k, "reader assigns an attribute the writer does not pack")


# ------------------------------------------------------------------- struct getter / setter pairs
_SIZES = {"B": 1, "b": 1, "H": 2, "h": 2, "I": 4, "i": 4, "L": 4, "l": 4, "Q": 8, "q": 8, "x": 1, "c": 1}


def _fmt_items(fmt: str):
    """('<' | '>', [(char, size), ...]) with repeat counts expanded."""
    order = "<"
    if fmt and fmt[0] in "<>=!@":
        order = ">" if fmt[0] in ">!" else "<"
        fmt = fmt[1:]
    items = []
    num = ""
    for ch in fmt:
        if ch.isdigit():
            num += ch
            continue
        if ch not in _SIZES:
            raise Unsupported(f"format char {ch!r}")
        for _ in range(int(num) if num else 1):
            items.append((ch, _SIZES[ch]))
        num = ""
    return order, items


def struct_accessor_pair(repo: Repo, rep, P: str, rule: str, ci: ClassInfo, prop: str, fields: Dict[str, int]) -> None:
    """Property getter `return pack(FMT, e…)` vs setter `t… = unpack(FMT', data)`: each field in `fields` (name -> width in
    bits) is read back, bit for bit, from the bytes it was written to — whatever the two format strings look like."""
    g, s = ci.getters.get(prop), ci.setters.get(prop)
    rel = ci.file.rel
    con = f"{rel}:{ci.qualname}.{prop}"
    if g is None or s is None:
        raise AnchorMissing(f"{ci.qualname}.{prop}")
    pk = next((n for n in walk_no_nested(g) if isinstance(n, ast.Call) and norm(n.func) in ("pack", "struct.pack")), None)
    if pk is None:
        rep.inconclusive(f"{P}.{rule}", con, norm(g)[:100], "getter does not pack()", f"{rel}:{g.lineno}")
        return
    try:
        wfmt = repo.fold(pk.args[0], ci=ci)
        worder, witems = _fmt_items(wfmt)
        env = {f"self.{a}": BV.term(a, width=w) for a, w in fields.items()}
        env.update({f"self.{a}.value": BV.term(a, width=w) for a, w in fields.items()})
        ev = BitEval(repo, ci, env)
        data: List[List] = []          # bytes, each a list of 8 lanes
        args = [a for a in pk.args[1:]]
        vals = [x for x in witems if x[0] != "x"]
        if len(args) != len(vals):
            rep.violation(f"{P}.{rule}", con, norm(pk)[:120], f"pack format {wfmt!r} takes {len(vals)} values, {len(args)} given", f"{rel}:{pk.lineno}")
            return
        ai = 0
        for ch, size in witems:
            if ch == "x":
                data.append([0] * 8)
                continue
            a = resolve_names(args[ai], single_defs(g))          # locals that name the packed expressions
            ast.copy_location(a, args[ai])
            ai += 1
            const_marker = False
            if isinstance(a, ast.Name):
                # a local set to one of several constants on different branches (`state = _UNSET` / `state = _MAPPED`)
                vals_ = [x.value for x in ast.walk(g) if isinstance(x, ast.Assign) and any(isinstance(t_, ast.Name) and t_.id == a.id for t_ in x.targets)]
                try:
                    folded = [repo.fold(v_, ci=ci) for v_ in vals_]
                    const_marker = len(folded) > 1 and all(isinstance(v_, int) and 0 <= v_ < (1 << (8 * size)) for v_ in folded)
                except NotConst:
                    const_marker = False
            if const_marker or isinstance(a, ast.IfExp) or (isinstance(a, ast.Subscript) and isinstance(a.value, (ast.Tuple, ast.List))):
                # marker bytes that are a function of other fields: opaque
                bv = BV([bits.T(frozenset(["marker"]))] * 8 + [0] * (bits.W - 8))
            else:
                bv = ev.ev(a)
            spill = [i for i in range(size * 8, bits.W) if bv.lanes[i] != 0]
            if spill:
                rep.violation(f"{P}.{rule}", con, f"{norm(a)} as {ch!r}",
                              f"the value packed into this {size}-byte field can need more than {size * 8} bits (struct.error / truncation)",
                              f"{rel}:{a.lineno}")
            bs = [bv.lanes[8 * j:8 * j + 8] for j in range(size)]
            data.extend(bs if worder == "<" else list(reversed(bs)))
    except (Unsupported, NotConst) as e:
        rep.inconclusive(f"{P}.{rule}", con, norm(pk)[:120], f"writer not evaluable: {e}", f"{rel}:{pk.lineno}")
        return
    up = next((n for n in walk_no_nested(s) if isinstance(n, ast.Assign) and isinstance(n.value, ast.Call)
               and norm(n.value.func) in ("unpack", "struct.unpack")), None)
    if up is None:
        rep.inconclusive(f"{P}.{rule}", con, norm(s)[:100], "setter does not unpack()", f"{rel}:{s.lineno}")
        return
    try:
        rfmt = repo.fold(up.value.args[0], ci=ci)
        rorder, ritems = _fmt_items(rfmt)
        if sum(sz for _, sz in ritems) != len(data):
            rep.violation(f"{P}.{rule}", con, f"pack {wfmt!r} / unpack {rfmt!r}",
                          f"the writer produces {len(data)} bytes, the reader expects {sum(sz for _, sz in ritems)}", f"{rel}:{up.lineno}")
            return
        tg = up.targets[0]
        tgs = tg.elts if isinstance(tg, (ast.Tuple, ast.List)) else [tg]
        rvals = [x for x in ritems if x[0] != "x"]
        if len(tgs) != len(rvals) and not isinstance(tg, (ast.Tuple, ast.List)):
            # the tuple is kept whole in one name: where its items go is not read here
            rep.inconclusive(f"{P}.{rule}", con, norm(up)[:120], f"the {len(rvals)} unpacked values are bound to one name; their destinations are not followed",
                             f"{rel}:{up.lineno}")
            return
        if len(tgs) != len(rvals):
            rep.violation(f"{P}.{rule}", con, norm(up)[:120], f"unpack yields {len(rvals)} values for {len(tgs)} targets", f"{rel}:{up.lineno}")
            return
        ev2 = BitEval(repo, ci, {})
        off = 0
        ti = 0
        for ch, size in ritems:
            chunk = data[off:off + size]
            off += size
            if ch == "x":
                continue
            if rorder == ">":
                chunk = list(reversed(chunk))
            lanes = [l for b in chunk for l in b] + [0] * (bits.W - 8 * size)
            bv = BV(lanes)
            if ch in "bhilq":
                top = lanes[8 * size - 1]
                if top != 0:
                    bv = BV(lanes[:8 * size] + [bits.T(frozenset(bv.deps()))] * (bits.W - 8 * size))     # sign extension
            t = tgs[ti]
            ti += 1
            key = ev2._key(t)
            if key is not None and key != "_":
                ev2.env[key] = bv
        rest = [st for st in stmts_of(s) if st is not up]
        ev2.run(rest)
    except (Unsupported, NotConst) as e:
        rep.inconclusive(f"{P}.{rule}", con, norm(up)[:120], f"reader not evaluable: {e}", f"{rel}:{up.lineno}")
        return
    for a, w in fields.items():
        got = ev2.env.get(f"self.{a}")
        if got is None:
            rep.violation(f"{P}.{rule}", con, f"self.{a}", f"the setter never assigns `{a}`, which the getter packs", f"{rel}:{s.lineno}")
            continue
        lb = low_bits_of_single_term(got)
        if lb is None or lb[0] != a:
            rep.violation(f"{P}.{rule}", con, f"pack {wfmt!r} … / unpack {rfmt!r} …",
                          f"`{a}` is read back as {got.show(w + 2)} — not the bits that were written for it: a value that uses "
                          "those bits changes on every save/load cycle", f"{rel}:{s.lineno}")
        elif lb[1] < w:
            rep.violation(f"{P}.{rule}", con, f"pack {wfmt!r} … / unpack {rfmt!r} …",
                          f"only {lb[1]} of the {w} bits of `{a}` survive the getter/setter pair", f"{rel}:{s.lineno}")
        else:
            rep.ok(f"{P}.{rule}", con, f"{a}: {w} bit(s)", "read back from the bytes it was written to")
