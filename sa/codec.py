"""Codec table extraction: writer rows (yield b"ID", payload) and reader rows (process_ID)."""

from __future__ import annotations

import ast
import re
import copy
import struct
from dataclasses import dataclass, field
from typing import Any, Dict, List, Optional, Tuple

from .model import AnchorMissing, ClassInfo, NotConst, Repo, attr_chain, norm, stmts_of, walk_no_nested


# ---------------------------------------------------------------------------------- formats
@dataclass
class Fmt:
    order: str            # '<', '>', '' (native)
    codes: str            # e.g. 'I', 'BBB', or element code when variable
    variable: bool = False
    text: str = ""
    count: str = ""       # for variable formats: text of the repeat-count expression (locals substituted)

    def size(self) -> Optional[int]:
        if self.variable:
            return None
        try:
            return struct.calcsize((self.order or "=") + self.codes)
        except struct.error:
            return None

    def elem_size(self) -> Optional[int]:
        try:
            return struct.calcsize((self.order or "=") + self.codes) if self.codes else None
        except struct.error:
            return None

    def show(self) -> str:
        return f"{self.order}{self.codes}{'*n' if self.variable else ''}"


def expand_counts(codes: str) -> str:
    """'4B' is 'BBBB' (repeat counts written out; the count of `s` / `p` is a length and stays)."""
    import re as _re
    return _re.sub(r"(\d+)([a-oq-rt-zA-Z?])", lambda m: m.group(2) * int(m.group(1)), codes.replace(" ", ""))


def parse_fmt(repo: Repo, ci: Optional[ClassInfo], e: ast.expr, env: Optional[Dict[str, ast.expr]] = None, sf=None) -> Optional[Fmt]:
    env = env or {}
    e = subst(e, env)
    try:
        s = repo.fold(e, ci=ci, sf=sf)
        if isinstance(s, str):
            order = s[0] if s[:1] in "<>=!@" else ""
            return Fmt(order, expand_counts(s[len(order):]), False, s)
    except NotConst:
        pass
    # "<" + "i" * n   /  "B" * n  /  f"<{self.type}" / "<" + self.type * self.length
    if isinstance(e, ast.BinOp) and isinstance(e.op, ast.Add):
        try:
            left = repo.fold(e.left, ci=ci, sf=sf)
        except NotConst:
            left = None
        if isinstance(left, str) and left[:1] in "<>=!@" and len(left) == 1:
            inner = parse_fmt(repo, ci, e.right, env, sf)
            if inner is not None and inner.order == "":
                return Fmt(left, inner.codes, inner.variable, norm(e), count=inner.count)
    # f"<{n}i" / f"{n}B" / f"<{'i' * n}" — a repeat count in front of one code, or an embedded code string
    if isinstance(e, ast.JoinedStr):
        parts = list(e.values)
        order = ""
        if parts and isinstance(parts[0], ast.Constant) and isinstance(parts[0].value, str) and parts[0].value[:1] in "<>=!@":
            order = parts[0].value[0]
            rest0 = parts[0].value[1:]
            parts = ([ast.Constant(value=rest0)] if rest0 else []) + parts[1:]
        if len(parts) == 2 and isinstance(parts[0], ast.FormattedValue) and isinstance(parts[1], ast.Constant) \
                and isinstance(parts[1].value, str) and len(parts[1].value) == 1 and parts[1].value.isalpha() and parts[0].format_spec is None:
            try:
                n = repo.fold(parts[0].value, ci=ci, sf=sf)
                if isinstance(n, int):
                    return Fmt(order, parts[1].value * n, False, norm(e))
            except NotConst:
                pass
            return Fmt(order, parts[1].value, True, norm(e), count=norm(parts[0].value))
        if len(parts) == 1 and isinstance(parts[0], ast.FormattedValue) and parts[0].format_spec is None:
            inner = parse_fmt(repo, ci, parts[0].value, env, sf)
            if inner is not None and inner.order == "":
                return Fmt(order, inner.codes, inner.variable, norm(e), count=inner.count)
    # "%dB" % n   /   "<{}i".format(n)
    lit = cnt = None
    if isinstance(e, ast.BinOp) and isinstance(e.op, ast.Mod) and isinstance(e.left, ast.Constant) and isinstance(e.left.value, str):
        lit, cnt = e.left.value.replace("%d", "{}").replace("%i", "{}"), (e.right.elts[0] if isinstance(e.right, ast.Tuple) and len(e.right.elts) == 1 else e.right)
    if isinstance(e, ast.Call) and isinstance(e.func, ast.Attribute) and e.func.attr == "format" and isinstance(e.func.value, ast.Constant) \
            and isinstance(e.func.value.value, str) and len(e.args) == 1 and not e.keywords:
        lit, cnt = e.func.value.value.replace("{0}", "{}"), e.args[0]
    if lit is not None:
        import re as _re
        m = _re.match(r"^([<>=!@]?)\{\}([A-Za-z])$", lit)
        if m:
            try:
                n = repo.fold(cnt, ci=ci, sf=sf)
                if isinstance(n, int):
                    return Fmt(m.group(1), m.group(2) * n, False, norm(e))
            except NotConst:
                pass
            return Fmt(m.group(1), m.group(2), True, norm(e), count=norm(cnt))
    if isinstance(e, ast.BinOp) and isinstance(e.op, ast.Mult):
        for a, b in ((e.left, e.right), (e.right, e.left)):
            try:
                code = repo.fold(a, ci=ci, sf=sf)
            except NotConst:
                continue
            if isinstance(code, str):
                try:
                    n = repo.fold(b, ci=ci, sf=sf)
                    if isinstance(n, int):
                        return Fmt("", code * n, False, norm(e))
                except NotConst:
                    pass
                return Fmt("", code, True, norm(e), count=norm(b))
    return None


# ---------------------------------------------------------------------------------- substitution
class _Subst(ast.NodeTransformer):
    def __init__(self, env):
        self.env = env

    def visit_Name(self, node):
        if isinstance(node.ctx, ast.Load) and node.id in self.env:
            return copy.deepcopy(self.env[node.id])
        return node

    def visit_Lambda(self, node):
        return node

    def visit_ListComp(self, node):
        return self._comp(node)

    visit_GeneratorExp = visit_SetComp = visit_ListComp

    def _comp(self, node):
        bound = {n.id for g in node.generators for n in ast.walk(g.target) if isinstance(n, ast.Name)}
        saved = {k: self.env[k] for k in bound if k in self.env}
        for k in saved:
            del self.env[k]
        try:
            return self.generic_visit(node)
        finally:
            self.env.update(saved)


def subst(e: ast.expr, env: Dict[str, ast.expr]) -> ast.expr:
    if not env:
        return e
    return _Subst(dict(env)).visit(copy.deepcopy(e))


# ---------------------------------------------------------------------------------- payloads
@dataclass
class Payload:
    shape: str                    # pack | cstring | fixedstring | raw | empty | join | call | other
    fmt: Optional[Fmt] = None
    args: List[ast.expr] = field(default_factory=list)
    star: bool = False
    transform: str = ""           # e.g. reversed
    src: List[str] = field(default_factory=list)     # attribute chains read
    length: Optional[int] = None  # fixedstring length
    truncation: str = ""          # text of an encode()[:N] byte-slice, if any
    text: str = ""


def attr_reads(e: ast.AST) -> List[str]:
    out = []
    for n in ast.walk(e):
        if isinstance(n, ast.Attribute):
            ch = attr_chain(n)
            if ch and len(ch) >= 2:
                out.append(".".join(ch))
    # keep maximal chains only
    out = [c for c in out if not any(o != c and o.startswith(c + ".") for o in out)]
    seen = []
    for c in out:
        if c not in seen:
            seen.append(c)
    return seen


def classify_payload(repo: Repo, ci: Optional[ClassInfo], e: ast.expr, sf=None) -> Payload:
    text = norm(e)
    if isinstance(e, ast.Constant) and e.value == b"":
        return Payload("empty", text=text)
    # b"%b\0" % X  is  X + b"\0"
    if isinstance(e, ast.BinOp) and isinstance(e.op, ast.Mod) and isinstance(e.left, ast.Constant) and e.left.value in (b"%b\0", b"%s\0") \
            and not isinstance(e.right, (ast.Tuple, ast.Dict)):
        return classify_payload(repo, ci, ast.copy_location(ast.BinOp(left=e.right, op=ast.Add(), right=ast.Constant(value=b"\0")), e), sf)
    # pack("32s", X): X NUL-padded and cut to exactly 32 bytes
    if isinstance(e, ast.Call) and norm(e.func) in ("pack", "struct.pack") and len(e.args) == 2 and not isinstance(e.args[1], ast.Starred):
        try:
            f_ = repo.fold(e.args[0], ci=ci, sf=sf)
        except Exception:
            f_ = None
        m_ = re.fullmatch(r"[<>=!@]?(\d+)s", f_) if isinstance(f_, str) else None
        if m_:
            inner = e.args[1]
            return Payload("fixedstring", src=attr_reads(inner), length=int(m_.group(1)), truncation=_has_encode_slice(inner), text=text)
    if isinstance(e, ast.Call) and norm(e.func) in ("pack", "struct.pack") and e.args:
        fmt = parse_fmt(repo, ci, e.args[0], sf=sf)
        args = list(e.args[1:])
        star = any(isinstance(a, ast.Starred) for a in args)
        transform = ""
        src = []
        for a in args:
            inner = a.value if isinstance(a, ast.Starred) else a
            if isinstance(inner, ast.Call) and norm(inner.func) == "reversed":
                transform = "reversed"
            if isinstance(inner, ast.Subscript) and isinstance(inner.slice, ast.Slice) and inner.slice.step is not None and norm(inner.slice.step) == "-1" \
                    and inner.slice.lower is None and inner.slice.upper is None:
                transform = "reversed"
            src += attr_reads(inner)
            if not attr_reads(inner) and isinstance(inner, ast.Name):
                src.append(inner.id)
        return Payload("pack", fmt=fmt, args=args, star=star, transform=transform, src=src, text=text)
    # X.encode(E) + b"\0"
    if isinstance(e, ast.BinOp) and isinstance(e.op, ast.Add) and isinstance(e.right, ast.Constant) and e.right.value == b"\0":
        l = e.left
        if isinstance(l, ast.Call) and isinstance(l.func, ast.Attribute) and l.func.attr == "encode":
            return Payload("cstring", src=attr_reads(l.func.value), text=text)
        if _has_encode_slice(l):
            return Payload("cstring", src=attr_reads(l), truncation=_has_encode_slice(l), text=text)
    # X.encode(E)[:N].ljust(N, b"\0") and safe variants
    if isinstance(e, ast.Call) and isinstance(e.func, ast.Attribute) and e.func.attr == "ljust" and len(e.args) == 2:
        try:
            n = repo.fold(e.args[0], ci=ci, sf=sf)
        except NotConst:
            n = None
        inner = e.func.value
        src = attr_reads(inner)
        return Payload("fixedstring", src=src, length=n, truncation=_has_encode_slice(inner), text=text)
    if isinstance(e, ast.Call) and isinstance(e.func, ast.Attribute) and e.func.attr == "encode":
        return Payload("text", src=attr_reads(e.func.value), text=text)
    if isinstance(e, ast.Call) and isinstance(e.func, ast.Attribute) and e.func.attr == "join":
        return Payload("join", src=attr_reads(e), text=text)
    if isinstance(e, (ast.Attribute, ast.Name)):
        return Payload("raw", src=attr_reads(e) or [norm(e)], text=text)
    if isinstance(e, ast.Call):
        return Payload("call", src=attr_reads(e), text=text)
    if isinstance(e, ast.BoolOp):
        return Payload("raw", src=attr_reads(e), text=text)
    return Payload("other", src=attr_reads(e), text=text)


def _has_encode_slice(e: ast.AST) -> str:
    """Text of an `X.encode(..)[:N]` byte slice that is NOT re-decoded leniently, else ''."""
    for n in ast.walk(e):
        if isinstance(n, ast.Subscript) and isinstance(n.slice, ast.Slice) and isinstance(n.value, ast.Call) \
                and isinstance(n.value.func, ast.Attribute) and n.value.func.attr == "encode":
            # safe idiom: <slice>.decode(E, "ignore"|"replace")
            safe = False
            for m in ast.walk(e):
                if isinstance(m, ast.Call) and isinstance(m.func, ast.Attribute) and m.func.attr == "decode" \
                        and m.func.value is n:
                    modes = [a.value for a in m.args[1:] if isinstance(a, ast.Constant)] + \
                            [k.value.value for k in m.keywords if k.arg == "errors" and isinstance(k.value, ast.Constant)]
                    if any(x in ("ignore", "replace") for x in modes):
                        safe = True
            if not safe:
                return norm(n)
    return ""


# ---------------------------------------------------------------------------------- writer rows
@dataclass
class WRow:
    kind: str                 # chunk | delegate | magic
    cid: Optional[str]
    payload: Optional[Payload]
    guards: List[str]
    loops: List[str]
    node: ast.AST
    fn: str                   # qualified function
    rel: str
    raw_id: Optional[bytes] = None
    delegate: str = ""
    payload_expr: Optional[ast.expr] = None

    @property
    def where(self) -> str:
        return f"{self.rel}:{getattr(self.node, 'lineno', 0)}"


def writer_rows(repo: Repo, ci: ClassInfo, fn: ast.FunctionDef, qual: Optional[str] = None) -> List[WRow]:
    rows: List[WRow] = []
    qual = qual or f"{ci.qualname}.{fn.name}"
    rel = ci.file.rel
    from . import inline
    # private helper generators (`yield from self._x_chunks(m)`) are part of the writer; so are helper generators of the module
    # that a container writes (`yield from module._controller_chunks()`): their class is known here
    recv = {}
    try:
        mod_k = repo.cls("Module", module="rv.modules.module")
        recv = {"module": mod_k, "self.module": mod_k}
    except Exception:
        pass
    fn = inline.normalize(repo, ci, fn, aliases=True, receivers=recv)

    def handle_yield(y: ast.AST, env, guards, loops):
        if isinstance(y, ast.YieldFrom):
            rows.append(WRow("delegate", None, None, list(guards), list(loops), y, qual, rel, delegate=norm(subst(y.value, env))))
            return
        v = y.value
        if v is None:
            return
        if isinstance(v, ast.Tuple) and len(v.elts) == 2:
            k, p = v.elts
            if isinstance(k, ast.Constant) and isinstance(k.value, bytes):
                pe = subst(p, env)
                rows.append(WRow("chunk", k.value.decode("latin1").strip(), classify_payload(repo, ci, pe), list(guards),
                                 list(loops), y, qual, rel, raw_id=k.value, payload_expr=pe))
                return
            if isinstance(k, ast.Constant) and k.value is None:
                rows.append(WRow("none", None, None, list(guards), list(loops), y, qual, rel))
                return
        # yield self.MAGIC_CHUNK
        try:
            val = repo.fold(v, ci=ci)
            if isinstance(val, tuple) and len(val) == 2 and isinstance(val[0], bytes):
                rows.append(WRow("magic", val[0].decode("latin1").strip(), Payload("empty" if val[1] == b"" else "raw"),
                                 list(guards), list(loops), y, qual, rel, raw_id=val[0]))
                return
        except NotConst:
            pass
        rows.append(WRow("unknown", None, None, list(guards), list(loops), y, qual, rel, delegate=norm(v)))

    def visit(stmts, env, guards, loops):
        env = dict(env)
        for st in stmts:
            if isinstance(st, ast.Expr) and isinstance(st.value, (ast.Yield, ast.YieldFrom)):
                handle_yield(st.value, env, guards, loops)
            elif isinstance(st, ast.Assign) and len(st.targets) == 1 and isinstance(st.targets[0], ast.Name):
                for y in ast.walk(st.value):
                    if isinstance(y, (ast.Yield, ast.YieldFrom)):
                        handle_yield(y, env, guards, loops)
                env[st.targets[0].id] = subst(st.value, env)
            elif isinstance(st, ast.AugAssign) and isinstance(st.target, ast.Name):
                cur = env.get(st.target.id, ast.Name(id=st.target.id, ctx=ast.Load()))
                env[st.target.id] = ast.BinOp(left=copy.deepcopy(cur), op=st.op, right=subst(st.value, env))
                ast.fix_missing_locations(ast.copy_location(env[st.target.id], st))
            elif isinstance(st, ast.If):
                t = norm(subst(st.test, env))
                visit(st.body, env, guards + [t], loops)
                visit(st.orelse, env, guards + [f"not ({t})"], loops)
                # variables assigned in branches become unknown afterwards
                for sub in ast.walk(st):
                    if isinstance(sub, ast.Assign):
                        for tt in sub.targets:
                            if isinstance(tt, ast.Name):
                                env.pop(tt.id, None)
            elif isinstance(st, (ast.For, ast.While)):
                hdr = f"for {norm(st.target)} in {norm(subst(st.iter, env))}" if isinstance(st, ast.For) else f"while {norm(st.test)}"
                inner_env = dict(env)
                if isinstance(st, ast.For):
                    for n in ast.walk(st.target):
                        if isinstance(n, ast.Name):
                            inner_env.pop(n.id, None)
                visit(st.body, inner_env, guards, loops + [hdr])
                visit(st.orelse, env, guards, loops)
                for sub in ast.walk(st):
                    if isinstance(sub, ast.Assign):
                        for tt in sub.targets:
                            for nn in ast.walk(tt):
                                if isinstance(nn, ast.Name):
                                    env.pop(nn.id, None)
                    elif isinstance(sub, ast.AugAssign) and isinstance(sub.target, ast.Name):
                        env.pop(sub.target.id, None)
            elif isinstance(st, ast.With):
                visit(st.body, env, guards, loops)
            elif isinstance(st, ast.Try):
                visit(st.body, env, guards, loops)
                for h in st.handlers:
                    visit(h.body, env, guards, loops)
                visit(st.finalbody, env, guards, loops)
            elif isinstance(st, ast.Return):
                # statements after an unconditional return in this block are dead
                break
            else:
                for y in ast.walk(st):
                    if isinstance(y, (ast.Yield, ast.YieldFrom)):
                        handle_yield(y, env, guards, loops)

    visit(stmts_of(fn), {}, [], [])
    return rows


# ---------------------------------------------------------------------------------- reader rows
@dataclass
class RRow:
    cid: str
    shape: str                # unpack | cstring | raw | packed | ignored | custom
    fmt: Optional[Fmt]
    targets: List[str]        # attribute chains written (self.object.x -> "x"; self._x -> "_x")
    transform: str
    node: ast.FunctionDef
    cls: str
    rel: str
    strict_decode: bool = True
    stmts: List[str] = field(default_factory=list)
    tuple_target: bool = False
    cstring_head: bool = False     # a custom handler that first decodes the payload as NUL-terminated text

    @property
    def where(self) -> str:
        return f"{self.rel}:{self.node.lineno}"


def _target_name(t: ast.AST) -> Optional[str]:
    ch = attr_chain(t)
    if not ch:
        return None
    if ch[:2] == ["self", "object"] and len(ch) >= 3:
        return ".".join(ch[2:])
    if ch[0] == "self" and len(ch) >= 2:
        return "." + ".".join(ch[1:])       # reader-private state, leading dot
    return ".".join(ch)


def reader_rows(repo: Repo, ci: ClassInfo) -> Dict[str, RRow]:
    """Handlers defined on `ci` or inherited along the MRO (first definition wins)."""
    out: Dict[str, RRow] = {}
    for c in repo.mro(ci):
        for name, fn in c.methods.items():
            if name.startswith("process_") and name not in ("process_chunks", "process_end_of_file"):
                cid = name[len("process_"):]
                if cid not in out:
                    out[cid] = classify_handler(repo, c, cid, fn)
    return out


def is_nul_truncation(e: ast.expr, data: str) -> bool:
    """Is `e` the part of the bytes `data` before its first NUL (all of it when there is none)?"""
    # D[:D.find(0)] if 0 in D else D
    if isinstance(e, ast.IfExp) and norm(e.orelse) == data and isinstance(e.test, ast.Compare) and len(e.test.ops) == 1 \
            and isinstance(e.test.ops[0], ast.In) and norm(e.test.comparators[0]) == data \
            and norm(e.test.left) in ("0", "b'\\x00'"):
        b = e.body
        if isinstance(b, ast.Subscript) and isinstance(b.slice, ast.Slice) and b.slice.lower is None and norm(b.value) == data \
                and b.slice.upper is not None and norm(b.slice.upper) in (f"{data}.find(0)", f"{data}.index(0)", f"{data}.find(b'\\x00')", f"{data}.index(b'\\x00')"):
            return True
    # D[: D.find(0) if 0 in D else len(D)]
    if isinstance(e, ast.Subscript) and isinstance(e.slice, ast.Slice) and e.slice.lower is None and e.slice.step is None and norm(e.value) == data \
            and isinstance(e.slice.upper, ast.IfExp):
        u = e.slice.upper
        t, b, o = u.test, u.body, u.orelse
        if isinstance(t, ast.UnaryOp) and isinstance(t.op, ast.Not):
            t, b, o = t.operand, o, b
        if isinstance(t, ast.Compare) and len(t.ops) == 1 and isinstance(t.ops[0], ast.NotIn):
            t = ast.Compare(left=t.left, ops=[ast.In()], comparators=t.comparators)
            b, o = o, b
        if isinstance(t, ast.Compare) and len(t.ops) == 1 and isinstance(t.ops[0], ast.In) and norm(t.comparators[0]) == data \
                and norm(t.left) in ("0", "b'\\x00'") and norm(o) in (f"len({data})", "None") \
                and norm(b) in (f"{data}.find(0)", f"{data}.index(0)", f"{data}.find(b'\\x00')", f"{data}.index(b'\\x00')"):
            return True
    # D if D.find(0) < 0 else D[:D.find(0)]      (and == -1 / >= 0 / != -1, branches swapped accordingly)
    if isinstance(e, ast.IfExp) and isinstance(e.test, ast.Compare) and len(e.test.ops) == 1:
        finds = (f"{data}.find(0)", f"{data}.find(b'\\x00')")
        l, op, r = norm(e.test.left), e.test.ops[0], norm(e.test.comparators[0])
        absent = None          # True: the test holds when there is no NUL
        if l in finds and ((isinstance(op, ast.Lt) and r == "0") or (isinstance(op, ast.Eq) and r == "-1") or (isinstance(op, ast.LtE) and r == "-1")):
            absent = True
        elif l in finds and ((isinstance(op, ast.GtE) and r == "0") or (isinstance(op, ast.NotEq) and r == "-1") or (isinstance(op, ast.Gt) and r == "-1")):
            absent = False
        if absent is not None:
            whole, cut = (e.body, e.orelse) if absent else (e.orelse, e.body)
            if norm(whole) == data and isinstance(cut, ast.Subscript) and isinstance(cut.slice, ast.Slice) and cut.slice.lower is None \
                    and cut.slice.step is None and norm(cut.value) == data and cut.slice.upper is not None and norm(cut.slice.upper) in finds:
                return True
    # D.split(b"\0", 1)[0] / D.split(b"\0")[0] / D.partition(b"\0")[0]
    if isinstance(e, ast.Subscript) and norm(e.slice) == "0" and isinstance(e.value, ast.Call) and isinstance(e.value.func, ast.Attribute) \
            and norm(e.value.func.value) == data and e.value.func.attr in ("split", "partition") and e.value.args \
            and norm(e.value.args[0]) == "b'\\x00'":
        return True
    return False


def _is_cstring_value(v: ast.expr, data: str) -> Optional[bool]:
    """None, or strictness, if `v` is `<NUL-truncation of data>.decode(...)`."""
    if isinstance(v, ast.Call) and isinstance(v.func, ast.Attribute) and v.func.attr == "decode" and is_nul_truncation(v.func.value, data):
        modes = [a.value for a in v.args[1:] if isinstance(a, ast.Constant)] + \
                [k.value.value for k in v.keywords if k.arg == "errors" and isinstance(k.value, ast.Constant)]
        return not any(m in ("ignore", "replace") for m in modes)
    return None


def cstring_decode(fn: ast.FunctionDef, data: str):
    """(assignment, strict?, decoded-in-a-local?) for the first statement that stores the decoded NUL-truncated payload."""
    env: Dict[str, ast.expr] = {}
    local_decode = None
    for st in stmts_of(fn):
        if isinstance(st, ast.Assign) and len(st.targets) == 1:
            t = st.targets[0]
            v = subst(st.value, env)
            strict = _is_cstring_value(v, data)
            if strict is not None:
                if isinstance(t, ast.Name):
                    env[t.id] = v
                    local_decode = (st, strict)
                    continue
                return st, strict, False
            if isinstance(t, ast.Name):
                env[t.id] = v
                continue
            # head, _, _ = data.partition(b"\0")
            if isinstance(t, ast.Tuple) and t.elts and isinstance(t.elts[0], ast.Name) and isinstance(v, ast.Call) \
                    and isinstance(v.func, ast.Attribute) and v.func.attr == "partition":
                env[t.elts[0].id] = ast.Subscript(value=v, slice=ast.Constant(value=0), ctx=ast.Load())
                continue
        if isinstance(st, ast.AnnAssign) and st.value is not None and isinstance(st.target, ast.Name):
            env[st.target.id] = subst(st.value, env)
            continue
        # if 0 in x: x = x[:x.index(0)]      (the conditional expression written as a statement)
        if isinstance(st, ast.If) and not st.orelse and len(st.body) == 1 and isinstance(st.body[0], ast.Assign) \
                and len(st.body[0].targets) == 1 and isinstance(st.body[0].targets[0], ast.Name):
            nm = st.body[0].targets[0].id
            old = env.get(nm, ast.Name(id=nm, ctx=ast.Load()))
            env[nm] = ast.IfExp(test=subst(st.test, env), body=subst(st.body[0].value, env), orelse=copy.deepcopy(old))
            ast.fix_missing_locations(ast.copy_location(env[nm], st))
            continue
        break
    if local_decode is not None:
        return local_decode[0], local_decode[1], True
    return None


def section_helpers(repo: Repo, ci: ClassInfo) -> Tuple[str, ...]:
    """Public helper methods of a reader class (own or inherited) that wrap the section protocol — a short straight-line body that
    calls `self.rewind(...)` — e.g. `read_section(reader_class, data, **args)`: handlers that use one are read through it."""
    out = []
    try:
        mro = repo.mro(ci)
    except Exception:
        mro = [ci]
    for k in mro:
        for name, m in k.methods.items():
            if name.startswith(("process_", "__")) or name in ("rewind", "process_chunks") or name in out:
                continue
            if len([st for st in m.body if not (isinstance(st, ast.Expr) and isinstance(st.value, ast.Constant))]) <= 4 \
                    and not any(isinstance(n, (ast.For, ast.While, ast.Try, ast.With, ast.If)) for n in ast.walk(m)) \
                    and any(isinstance(c, ast.Call) and norm(c.func) == "self.rewind" for c in ast.walk(m)):
                out.append(name)
    return tuple(out)


def classify_handler(repo: Repo, ci: ClassInfo, cid: str, fn: ast.FunctionDef) -> RRow:
    from . import inline
    fn = inline.normalize(repo, ci, fn, aliases=True, also=section_helpers(repo, ci))
    body = stmts_of(fn)
    row = RRow(cid, "custom", None, [], "", fn, ci.qualname, ci.file.rel, stmts=[norm(s) for s in body])
    params = [a.arg for a in fn.args.args if a.arg != "self"]
    data = params[0] if params else "data"
    real = [s for s in body if not (isinstance(s, ast.Expr) and isinstance(s.value, ast.Constant))]
    if not real or all(isinstance(s, ast.Pass) for s in real):
        row.shape = "ignored"
        return row
    # cstring idiom (any spelling of "up to the first NUL", then decode)
    cd = cstring_decode(fn, data)
    if cd is not None:
        st, strict, in_local = cd
        rest = [x for x in real if getattr(x, "_seq", 0) > getattr(st, "_seq", 0)]
        tn = _target_name(st.targets[0])
        if not rest and tn and not in_local:
            row.shape = "cstring"
            row.targets = [tn]
            row.strict_decode = strict
            return row
        row.cstring_head = True
        row.strict_decode = strict
    if len(real) == 2 and isinstance(real[0], ast.Assign) and isinstance(real[1], ast.Assign):
        a0, a1 = real
        if isinstance(a0.value, ast.IfExp) and "find(0)" in norm(a0.value) and isinstance(a1.value, ast.Call) \
                and isinstance(a1.value.func, ast.Attribute) and a1.value.func.attr == "decode":
            row.shape = "cstring"
            tn = _target_name(a1.targets[0])
            row.targets = [tn] if tn else []
            modes = [a.value for a in a1.value.args[1:] if isinstance(a, ast.Constant)] + \
                    [k.value.value for k in a1.value.keywords if k.arg == "errors" and isinstance(k.value, ast.Constant)]
            row.strict_decode = not any(m in ("ignore", "replace") for m in modes)
            return row
    if len(real) == 1 and isinstance(real[0], ast.Assign):
        st = real[0]
        t = st.targets[0]
        v = st.value
        call = v
        transform = ""
        # tuple(reversed(unpack(...)))  /  unpack(...)[::-1]
        while True:
            if isinstance(call, ast.Call) and norm(call.func) in ("tuple", "reversed", "list") and len(call.args) == 1:
                if norm(call.func) == "reversed":
                    transform = "" if transform == "reversed" else "reversed"
                call = call.args[0]
            elif isinstance(call, ast.Subscript) and isinstance(call.slice, ast.Slice) and call.slice.lower is None and call.slice.upper is None \
                    and call.slice.step is not None and norm(call.slice.step) == "-1":
                transform = "" if transform == "reversed" else "reversed"
                call = call.value
            else:
                break
        if isinstance(call, ast.Call) and norm(call.func) in ("unpack", "struct.unpack") and len(call.args) == 2 \
                and norm(call.args[1]) == data:
            row.shape = "unpack"
            row.fmt = parse_fmt(repo, ci, call.args[0])
            row.transform = transform
            if isinstance(t, ast.Tuple):
                row.targets = [x for x in (_target_name(e) for e in t.elts) if x]
            else:
                tn = _target_name(t)
                row.targets = [tn] if tn else []
                row.tuple_target = True
            return row
        if norm(v) == data:
            row.shape = "raw"
            tn = _target_name(t)
            row.targets = [tn] if tn else []
            return row
    # packed: (x,) = unpack(F, data); self.object.a = f(x); ...
    if isinstance(real[0], ast.Assign) and isinstance(real[0].value, ast.Call) \
            and norm(real[0].value.func) in ("unpack", "struct.unpack") and isinstance(real[0].targets[0], ast.Tuple) \
            and all(isinstance(e, ast.Name) for e in real[0].targets[0].elts):
        rest = real[1:]
        names = [e.id for e in real[0].targets[0].elts]
        # d, c, b, a = unpack(F, data); self.object.x = (a, b, c, d)      — the whole tuple stored, in the same or in reverse order
        if len(rest) == 1 and isinstance(rest[0], ast.Assign) and len(rest[0].targets) == 1 and isinstance(rest[0].value, (ast.Tuple, ast.List)) \
                and all(isinstance(e, ast.Name) for e in rest[0].value.elts) and _target_name(rest[0].targets[0]) \
                and norm(real[0].value.args[1]) == data and len(names) > 1:
            stored = [e.id for e in rest[0].value.elts]
            if stored == names or stored == names[::-1]:
                row.shape = "unpack"
                row.fmt = parse_fmt(repo, ci, real[0].value.args[0])
                row.transform = "reversed" if stored == names[::-1] else ""
                row.targets = [_target_name(rest[0].targets[0])]
                row.tuple_target = True
                return row
        # (a, b) = unpack(F, data); self.object.x = a; self.object.y = b    — plain moves: the same as unpacking into the attributes
        if rest and len(rest) == len(names) and all(isinstance(s, ast.Assign) and len(s.targets) == 1 and isinstance(s.value, ast.Name) for s in rest) \
                and [s.value.id for s in rest] == names and all(_target_name(s.targets[0]) for s in rest) and norm(real[0].value.args[1]) == data:
            row.shape = "unpack"
            row.fmt = parse_fmt(repo, ci, real[0].value.args[0])
            row.targets = [_target_name(s.targets[0]) for s in rest]
            row.tuple_target = True
            return row
        if rest and all(isinstance(s, ast.Assign) for s in rest):
            row.shape = "packed"
            row.fmt = parse_fmt(repo, ci, real[0].value.args[0])
            row.targets = [x for x in (_target_name(s.targets[0]) for s in rest) if x]
            return row
    # generic: collect all targets written
    for s in walk_no_nested(fn):
        if isinstance(s, ast.Assign):
            for t in s.targets:
                for e in (t.elts if isinstance(t, ast.Tuple) else [t]):
                    tn = _target_name(e)
                    if tn and tn not in row.targets:
                        row.targets.append(tn)
        if isinstance(s, ast.Call) and norm(s.func) in ("unpack", "struct.unpack") and row.fmt is None and s.args:
            env = {}
            for a in walk_no_nested(fn):
                if isinstance(a, ast.Assign) and len(a.targets) == 1 and isinstance(a.targets[0], ast.Name):
                    env.setdefault(a.targets[0].id, a.value)
            row.fmt = parse_fmt(repo, ci, s.args[0], env)
    return row
