"""Small structural predicates over (normalised) functions, used where a rule only needs "this call happens with that
argument" — instead of looking for a fragment of source text, which a rename would break."""

from __future__ import annotations

import ast
from typing import List, Optional

from .model import norm, walk_no_nested


def calls(fn: ast.AST) -> List[ast.Call]:
    return [c for c in ast.walk(fn) if isinstance(c, ast.Call)]


def calls_to(fn: ast.AST, name: str) -> List[ast.Call]:
    """Calls whose callee is `name` exactly or ends in `.name` (`self.rewind`, `rewind`)."""
    out = []
    for c in calls(fn):
        f = norm(c.func)
        if f == name or f.endswith("." + name):
            out.append(c)
    return out


def params(fn: ast.FunctionDef) -> List[str]:
    return [a.arg for a in fn.args.args if a.arg not in ("self", "cls")]


def arg_is(call: ast.Call, index: int, text: str, keyword: Optional[str] = None) -> bool:
    if len(call.args) > index and not any(isinstance(a, ast.Starred) for a in call.args[:index + 1]):
        return norm(call.args[index]) == text
    if keyword is not None:
        return any(k.arg == keyword and norm(k.value) == text for k in call.keywords)
    return False


def keyword(call: ast.Call, name: str) -> Optional[ast.expr]:
    return next((k.value for k in call.keywords if k.arg == name), None)


def statement_calls(fn: ast.AST, name: str) -> List[ast.Call]:
    """Calls to `name` that stand as a statement of their own (their value is not used)."""
    return [st.value for st in ast.walk(fn) if isinstance(st, ast.Expr) and isinstance(st.value, ast.Call)
            and (norm(st.value.func) == name or norm(st.value.func).endswith("." + name))]


def for_loops_over(fn: ast.AST, callee: str) -> List[ast.For]:
    out = []
    for n in ast.walk(fn):
        if isinstance(n, ast.For) and isinstance(n.iter, ast.Call) and (norm(n.iter.func) == callee or norm(n.iter.func).endswith("." + callee)):
            out.append(n)
    return out


def attr_stores(fn: ast.AST, attr: str) -> List[ast.Assign]:
    """Assignments with a target `<anything>.attr`."""
    return [n for n in ast.walk(fn) if isinstance(n, ast.Assign) and any(isinstance(t, ast.Attribute) and t.attr == attr for t in n.targets)]
