"""Writer ↔ reader codec parity (C01 R1/R2/R4/R5; reused by C02, C05, C08, C15, C16)."""

from __future__ import annotations

import ast
import re
from dataclasses import dataclass
from typing import Any, Dict, List, Optional, Tuple

from . import codec, docs, links
from .codec import Fmt, RRow, WRow
from .model import AnchorMissing, ClassInfo, NotConst, Repo, attr_chain, norm, walk_no_nested

SINGLE_BYTE = set("BbcxsP?")


@dataclass
class Section:
    name: str
    writer: List[WRow]
    reader_cls: ClassInfo
    reader: Dict[str, RRow]


def sections(repo: Repo) -> Dict[str, Section]:
    proj = repo.cls("Project", module="rv.project")
    mod = repo.cls("Module", module="rv.modules.module")
    pat = repo.cls("Pattern", module="rv.pattern")
    clone = repo.cls("PatternClone", module="rv.pattern")
    chunk = repo.cls("Chunk", module="rv.modules.module")
    synth = repo.cls("Synth", module="rv.synth")
    prows = codec.writer_rows(repo, proj, repo.own_method(proj, "chunks"))
    # a slot terminator written through a named constant (`yield _MODULE_END`) is the chunk it names
    for r in prows:
        if r.kind == "magic" and r.cid in ("PEND", "SEND") and r.loops:
            r.kind = "chunk"
    top = [r for r in prows if not r.loops]
    mod_tail = [r for r in prows if any("self.modules" in l for l in r.loops)]
    pat_tail = [r for r in prows if any("self.patterns" in l for l in r.loops)]
    mrows = codec.writer_rows(repo, mod, repo.own_method(mod, "iff_chunks"))
    crows = codec.writer_rows(repo, chunk, repo.own_method(chunk, "chunks"))
    srows = codec.writer_rows(repo, synth, repo.own_method(synth, "chunks"))
    sv = repo.cls("SunVoxReader", module="rv.readers.sunvox")
    mr = repo.cls("ModuleReader", module="rv.readers.module")
    pr = repo.cls("PatternReader", module="rv.readers.pattern")
    pcr = repo.cls("PatternCloneReader", module="rv.readers.pattern")
    ssr = repo.cls("SunSynthReader", module="rv.readers.sunsynth")
    return {
        "project": Section("project", top, sv, codec.reader_rows(repo, sv)),
        "module": Section("module", mrows + [r for r in mod_tail if r.kind == "chunk"] + crows, mr, codec.reader_rows(repo, mr)),
        "pattern": Section("pattern", codec.writer_rows(repo, pat, repo.own_method(pat, "iff_chunks"))
                           + [r for r in pat_tail if r.kind == "chunk"], pr, codec.reader_rows(repo, pr)),
        "clone": Section("clone", codec.writer_rows(repo, clone, repo.own_method(clone, "iff_chunks"))
                         + [r for r in pat_tail if r.kind == "chunk"], pcr, codec.reader_rows(repo, pcr)),
        "synth": Section("synth", [r for r in srows if not r.loops and r.kind in ("chunk", "magic") and r.cid in ("SSYN", "VERS")],
                         ssr, codec.reader_rows(repo, ssr)),
        "synth_tail": Section("synth_tail", [r for r in srows if r.kind == "chunk" and r.cid not in ("SSYN", "VERS")],
                              mr, codec.reader_rows(repo, mr)),
    }


def fmt_compare(w: Optional[Fmt], r: Optional[Fmt]) -> Tuple[str, str]:
    """('equal'|'sign'|'differ'|'unknown', detail)."""
    if w is None or r is None:
        return "unknown", f"writer {w.show() if w else None} / reader {r.show() if r else None}"
    wo, ro = w.order, r.order
    if wo != ro:
        # native order is the same as explicit little-endian only for single-byte codes
        if {wo, ro} <= {"", "<", "="} and set(w.codes) <= SINGLE_BYTE and set(r.codes) <= SINGLE_BYTE:
            pass
        else:
            return "differ", f"byte order/alignment: writer {w.show()!r} vs reader {r.show()!r}"
    if w.variable != r.variable:
        return "differ", f"count: writer {w.show()} vs reader {r.show()}"
    if w.codes == r.codes:
        return "equal", w.show()
    if w.codes.lower() == r.codes.lower() and len(w.codes) == len(r.codes):
        return "sign", f"writer {w.show()!r} vs reader {r.show()!r}"
    return "differ", f"writer {w.show()!r} vs reader {r.show()!r}"


# frozen field-name exceptions: chunk id -> (writer source attr, reader target, reason)
FIELD_EXCEPTIONS = {
    "VERS": ("sunvox_version", "loaded_sunvox_version", "the version of the writing library is always current; the file's version is kept separately"),
    "CHNK": ("chnk", "_reader_chnk", "chnk is a class constant / property; the stored count is kept for reference only"),
}
# ids whose field agreement is decided by other rules (named there)
FIELD_ELSEWHERE = {
    "CVAL": "C05 R1 / C10 R2 (get_raw/set_raw pair)", "CMID": "C02 R2 (cmid_data pair)", "PDTA": "deferred to PEND",
    "SFGS": "bit-domain pack pair", "SMII": "bit-domain pack pair", "PPAR": "constructor argument",
    "SLNK": "link-table alias", "SLnK": "link-table alias", "STYP": "class registry look-up",
    "CHNM": "Chunk record", "CHDT": "Chunk record", "CHFF": "Chunk record", "CHFR": "Chunk record",
}
READER_ONLY = {"PAMD": "unused in current SunVox", "PSYN": "unused in current SunVox", "PCTL": "unused in current SunVox"}
STRUCTURAL = {"SVOX", "SSYN", "PEND", "SEND", "SFFF", "PDTA", "PPAR"}


def last(s: str) -> str:
    parts = s.split(".")
    while parts and parts[-1] in ("encode", "value"):
        parts.pop()
    return parts[-1] if parts else s


def check_section(repo: Repo, rep, P: str, sec: Section, spec_chunks: Dict[str, List[dict]], only: Optional[set] = None,
                  reverse: bool = True):
    seen_ids = set()
    for w in sec.writer:
        if w.kind not in ("chunk", "magic") or w.cid is None:
            if w.kind == "unknown":
                rep.inconclusive(f"{P}.R1", f"{w.rel}:{w.fn}", w.delegate, "unrecognised yield", w.where)
            continue
        if only is not None and w.cid not in only:
            continue
        seen_ids.add(w.cid)
        wcon = f"{w.rel}:{w.fn}[{w.cid}]"
        if w.kind == "magic":
            continue
        r = sec.reader.get(w.cid)
        if r is None:
            rep.violation(f"{P}.R1", wcon, f"yield b'{w.cid}', {w.payload.text if w.payload else ''}",
                          f"the writer emits {w.cid} in the {sec.name} section but {sec.reader_cls.qualname} has no "
                          f"process_{w.cid}: the field comes back as its default", w.where)
            continue
        rcon = f"{r.rel}:{r.cls}.process_{w.cid}"
        p = w.payload
        # ---- shape
        compat = {
            "pack": ("unpack", "packed", "custom"), "cstring": ("cstring",), "fixedstring": ("cstring",),
            "raw": ("raw", "custom"), "empty": ("custom", "ignored", "raw", "unpack", "packed", "cstring"),
            "join": ("custom",), "call": ("custom", "raw"), "text": ("cstring",),
        }.get(p.shape)
        if compat is None:
            rep.inconclusive(f"{P}.R1", wcon, p.text, f"payload shape {p.shape} not modelled", w.where)
            continue
        if r.shape == "ignored" and p.shape != "empty":
            rep.violation(f"{P}.R1", rcon, "pass", f"{w.cid} is written from {p.src} but the reader ignores it", r.where)
            continue
        if p.shape == "cstring" and r.shape == "custom" and r.cstring_head:
            rep.ok(f"{P}.R1", rcon, f"{w.cid}: cstring ↔ custom handler starting with the cstring idiom", "compatible payload shapes")
            continue
        if p.shape in ("cstring", "fixedstring", "text") and r.shape == "custom":
            # a recognised wrong cut: data[:data.find(NUL)] with no test that a NUL is there — find() gives -1 for a payload without a
            # terminator and the slice drops its last byte
            bad_cut = None
            for stxt in r.stmts:
                m_ = re.search(r"\b(\w+)\[:\s*\1\.(?:find|rfind)\(([^)]*)\)\]", stxt)
                if m_ and not re.search(rf"\bif\b.*\bin {re.escape(m_.group(1))}\b", stxt):
                    bad_cut = stxt
            if bad_cut is not None:
                rep.violation(f"{P}.R1", rcon, bad_cut[:160],
                              f"{w.cid}: the text is cut at data.find(NUL) without checking that a NUL is present: for a payload without a "
                              "terminator find() is -1 and the last character is lost (the writer's own NUL-less edge cases, files of other writers)",
                              r.where)
                continue
        if r.shape not in compat and (p.shape == "call" or r.shape == "custom"):
            # one side is not of a recognised shape (a helper call on the writer side, a free-form handler on the reader side):
            # nothing definite is known about the pair
            rep.inconclusive(f"{P}.R1", rcon, "; ".join(r.stmts)[:160],
                             f"{w.cid}: writer payload is {p.shape} ({p.text[:60]}), reader handler is {r.shape}: pair not recognised", r.where)
            continue
        if r.shape not in compat:
            rep.violation(f"{P}.R1", rcon, "; ".join(r.stmts)[:160],
                          f"{w.cid}: writer payload is {p.shape} ({p.text[:60]}) but the reader treats it as {r.shape}", r.where)
            continue
        # ---- format
        if p.shape == "pack":
            verdict, detail = fmt_compare(p.fmt, r.fmt)
            if verdict == "differ":
                rep.violation(f"{P}.R1", rcon, f"{w.cid}: {detail}",
                              f"{w.cid}: writer and reader disagree on the struct format ({detail})", r.where)
                continue
            if verdict == "unknown":
                if r.shape == "custom" and r.fmt is None:
                    rep.info(f"{P}.R1", rcon, f"{w.cid}: {detail}", "custom handler without a recognisable format")
                else:
                    rep.inconclusive(f"{P}.R1", rcon, f"{w.cid}: {detail}", "format not resolved", r.where)
                    continue
            if verdict == "sign":
                t = (spec_chunks.get(w.cid) or [{}])[0].get("type", {})
                lo, hi = t.get("min"), t.get("max")
                if lo is not None and hi is not None and 0 <= lo <= hi < 2**31:
                    rep.ok(f"{P}.R1", rcon, f"{w.cid}: {detail}",
                           f"signedness differs but the specified domain [{lo},{hi}] is identical under both")
                else:
                    rep.violation(f"{P}.R1", rcon, f"{w.cid}: {detail}",
                                  f"{w.cid}: writer and reader disagree on signedness and the specification gives no "
                                  "bounds that make the two encodings coincide", r.where)
                    continue
            elif verdict == "equal":
                rep.ok(f"{P}.R1", rcon, f"{w.cid}: {detail}", "same struct format on both sides")
            # element transform (reversed) must be applied on both sides or neither
            if p.transform != r.transform:
                rep.violation(f"{P}.R1", rcon, f"{w.cid}: writer transform {p.transform!r} / reader {r.transform!r}",
                              f"{w.cid}: element order differs between writer and reader", r.where)
        else:
            rep.ok(f"{P}.R1", rcon, f"{w.cid}: {p.shape} ↔ {r.shape}", "compatible payload shapes")
        # ---- field agreement
        if w.cid in FIELD_ELSEWHERE or p.shape == "empty":
            continue
        wsrc = [last(s) for s in p.src]
        rt = [last(t) for t in r.targets]
        if w.cid in FIELD_EXCEPTIONS:
            ws, rs, why = FIELD_EXCEPTIONS[w.cid]
            if w.cid == "VERS" and wsrc[:1] == ["sunsynth_version"]:
                ws, rs = "sunsynth_version", "loaded_sunsynth_version"
            if wsrc[:1] == [ws] and rt[:1] == [rs]:
                rep.ok(f"{P}.R2", rcon, f"{w.cid}: {ws} → {rs}", f"frozen exception: {why}", nontrivial=False)
            else:
                rep.violation(f"{P}.R2", rcon, f"{w.cid}: written from {wsrc}, read into {rt}",
                              f"{w.cid}: expected {ws} → {rs}", r.where)
            continue
        if len(wsrc) == 1 and len(rt) == 1:
            if wsrc[0] == rt[0]:
                rep.ok(f"{P}.R2", rcon, f"{w.cid}: {wsrc[0]}", "written from and read into the same attribute")
            else:
                rep.violation(f"{P}.R2", rcon, f"{w.cid}: written from `{wsrc[0]}`, read into `{rt[0]}`",
                              f"{w.cid} is written from `{wsrc[0]}` but loaded into `{rt[0]}`: the two fields are swapped or "
                              "one of them is lost on a round trip", r.where)
        else:
            rep.inconclusive(f"{P}.R2", rcon, f"{w.cid}: written from {wsrc}, read into {rt}", "field mapping not one-to-one",
                             r.where)
    if reverse:
        for cid, r in sorted(sec.reader.items()):
            if only is not None and cid not in only:
                continue
            if cid in seen_ids or cid in STRUCTURAL:
                continue
            rcon = f"{r.rel}:{r.cls}.process_{cid}"
            if cid in READER_ONLY and r.shape == "ignored":
                rep.ok(f"{P}.R1", rcon, "pass", f"reader-only id accepted and ignored ({READER_ONLY[cid]})", nontrivial=False)
                continue
            if r.shape == "ignored":
                rep.ok(f"{P}.R1", rcon, "pass", "ignored id", nontrivial=False)
                continue
            rep.violation(f"{P}.R1", rcon, f"process_{cid} → {r.targets}",
                          f"the reader loads {cid} into {r.targets} but no writer of the {sec.name} section emits {cid}: "
                          "the value is dropped on save", r.where)


# ------------------------------------------------------------------------------ defaults
def ctor_defaults(repo: Repo, ci: ClassInfo) -> Dict[str, Any]:
    """attribute -> folded constructor default ('<unknown>' when not constant)."""
    out: Dict[str, Any] = {}
    init = ci.methods.get("__init__")
    if init is not None:
        from . import inline
        init = inline.normalize(repo, ci, init)        # defaults set in private helpers of the constructor count as well
        for st in init.body:
            if isinstance(st, ast.Assign):
                val = st.value
                for t in st.targets:
                    ch = attr_chain(t)
                    if ch and ch[0] == "self" and len(ch) == 2:
                        out[ch[1]] = _default_of(repo, ci, val, out)
    # attrs-style class attributes
    for name, val in ci.assigns.items():
        if isinstance(val, ast.Call) and norm(val.func) == "attr":
            d = "<unknown>"
            if val.args:
                try:
                    d = repo.fold(val.args[0], ci=ci)
                except NotConst:
                    pass
            for k in val.keywords:
                if k.arg == "default":
                    try:
                        d = repo.fold(k.value, ci=ci)
                    except NotConst:
                        d = "<unknown>"
            out.setdefault(name, d)
    return out


def _default_of(repo, ci, val, known):
    if isinstance(val, ast.Call) and norm(val.func) in ("kw.get", "kwargs.get"):
        if len(val.args) >= 2:
            try:
                return repo.fold(val.args[1], ci=ci)
            except NotConst:
                ch = attr_chain(val.args[1])
                if ch and ch[0] == "self" and ch[1] in known:
                    return known[ch[1]]
                return "<unknown>"
        return None
    ch = attr_chain(val)
    if ch and ch[0] == "self" and len(ch) == 2 and ch[1] in known:
        return known[ch[1]]
    try:
        return repo.fold(val, ci=ci)
    except NotConst:
        return "<unknown>"
