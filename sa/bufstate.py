"""Typestate of an in-memory buffer through a save-and-load clone.

`clone()` is "serialise, rewind, load".  The truth of that is in the order of four kinds of event on one buffer object, so the
function is interpreted abstractly, statement by statement, over these values:

    Buf(content, pos)   an io.BytesIO: content 'empty' | ('ser', S) (the chunks of object S were written), pos 'start' | 'end' | '?'
    Bytes(S)            the serialised bytes of S
    Loaded(S)           what read_sunvox_file returned for a buffer holding S, positioned at its start
    Part(S, attr)       `<Loaded(S)>.attr`
    Wrong(reason)       definitely not a save-and-load (an empty / exhausted buffer is read, the object itself is returned)
    None                not recognised

Calls of `self.read()` / `X.clone()` that resolve to methods of Container are interpreted in turn with the receiver as subject.
"""
from __future__ import annotations

import ast
from dataclasses import dataclass
from typing import Dict, List, Optional, Tuple

from .model import Repo, ClassInfo, norm


@dataclass(frozen=True)
class Buf:
    content: object
    pos: str


@dataclass(frozen=True)
class Bytes:
    subject: str


@dataclass(frozen=True)
class Loaded:
    subject: str


@dataclass(frozen=True)
class Part:
    subject: str
    attr: str


@dataclass(frozen=True)
class Wrong:
    reason: str


@dataclass(frozen=True)
class Obj:
    text: str


class Interp:
    def __init__(self, repo: Repo, depth: int = 0):
        self.repo = repo
        self.depth = depth
        self.events: List[str] = []
        self.unknown: List[str] = []

    # -------------------------------------------------------------------------------------------------------
    def container_method(self, subject_text: str, ci: Optional[ClassInfo], name: str):
        """The Container method `name` as seen from `subject` (self of class ci, or a `Synth(self)` / `Project()` expression)."""
        repo = self.repo
        k = ci
        if subject_text != "self":
            cname = subject_text.split("(")[0].split(".")[-1]
            k = None
            for mod in ("rv.synth", "rv.project", "rv.container"):
                try:
                    k = repo.cls(cname, module=mod)
                    break
                except Exception:
                    continue
        if k is None:
            return None
        r = repo.lookup(k, name)
        if r is None or r[1] != "method":
            return None
        owner = r[0]
        return owner, repo.own_method(owner, name)

    def run(self, ci: Optional[ClassInfo], fn: ast.FunctionDef, subject: str = "self"):
        """Abstract return value of fn (None when not recognised)."""
        env: Dict[str, object] = {}
        self._subject = subject
        self._ci = ci
        rets: List[object] = []
        ok = self.block(fn.body, env, rets)
        if not ok or not rets:
            return None
        first = rets[0]
        for r in rets[1:]:
            if r != first:
                return None
        return first

    def subj(self, e: ast.expr, env) -> Optional[str]:
        """Text of the object expression e with `self` replaced by the current subject."""
        if isinstance(e, ast.Name):
            if e.id == "self":
                return self._subject
            v = env.get(e.id)
            if isinstance(v, Obj):
                return v.text
            return None
        if isinstance(e, ast.Call) and isinstance(e.func, (ast.Name, ast.Attribute)) and norm(e.func).split(".")[-1] in ("Synth",) \
                and len(e.args) == 1 and not e.keywords and norm(e.args[0]) == "self" and self._subject == "self":
            return norm(e)
        return None

    def ev(self, e: ast.expr, env):
        if isinstance(e, ast.Name):
            if e.id == "self":
                return Obj(self._subject)
            return env.get(e.id)
        if isinstance(e, ast.Attribute):
            v = self.ev(e.value, env)
            if isinstance(v, Loaded):
                return Part(v.subject, e.attr)
            if isinstance(v, Wrong):
                return v
            return None
        if not isinstance(e, ast.Call):
            return None
        f = norm(e.func)
        last = f.split(".")[-1]
        if last == "BytesIO" and f in ("BytesIO", "io.BytesIO") and not e.keywords:
            if not e.args:
                return Buf("empty", "start")
            if len(e.args) == 1:
                v = self.ev(e.args[0], env)
                if isinstance(v, Bytes):
                    return Buf(("ser", v.subject), "start")
                if isinstance(v, Wrong):
                    return v
            return None
        if last == "Synth":
            s = self.subj(e, env)
            return Obj(s) if s else None
        if last == "read_sunvox_file" and len(e.args) == 1 and not e.keywords:
            v = self.ev(e.args[0], env)
            if isinstance(v, Buf):
                self.events.append("read_sunvox_file")
                if v.content == "empty":
                    return Wrong("read_sunvox_file is given a buffer nothing was written to")
                if v.pos == "end":
                    return Wrong("read_sunvox_file is given the buffer positioned after the written data (no seek(0)): nothing is loaded")
                if v.pos == "start":
                    return Loaded(v.content[1])
            if isinstance(v, Wrong):
                return v
            return None
        if isinstance(e.func, ast.Attribute):
            recv = e.func.value
            rv = self.ev(recv, env)
            if isinstance(rv, Buf) and e.func.attr == "getvalue" and not e.args:
                if rv.content == "empty":
                    return Wrong("the bytes are taken from a buffer nothing was written to")
                return Bytes(rv.content[1])
            if isinstance(rv, Buf) and e.func.attr == "read" and not e.args:
                if rv.content == "empty":
                    return Wrong("the bytes are taken from a buffer nothing was written to")
                if rv.pos == "end":
                    return Wrong("the buffer is read from its end (no seek(0)): the bytes are empty")
                if rv.pos == "start":
                    return Bytes(rv.content[1])
                return None
            s = self.subj(recv, env)
            if s is not None and e.func.attr in ("read", "clone") and not e.args and not e.keywords and self.depth < 3:
                cm = self.container_method(s, self._ci, e.func.attr)
                if cm is None:
                    return None
                owner, fn2 = cm
                if owner.name != "Container":
                    return None
                sub = Interp(self.repo, self.depth + 1)
                from . import inline
                fn2 = inline.normalize(self.repo, owner, fn2)
                r = sub.run(owner, fn2, s)
                self.events += [f"{owner.name}.{e.func.attr}: " + x for x in sub.events]
                return r
        if last in ("copy", "deepcopy") and len(e.args) == 1 and norm(e.args[0]) == "self":
            return Wrong(f"{f}(self) is returned: the object is copied in memory, not saved and loaded")
        return None

    def block(self, stmts: List[ast.stmt], env, rets) -> bool:
        for st in stmts:
            if isinstance(st, ast.Expr) and isinstance(st.value, ast.Constant):
                continue
            if isinstance(st, ast.Pass) or isinstance(st, (ast.Import, ast.ImportFrom)):
                continue
            if isinstance(st, ast.Return):
                if st.value is None:
                    rets.append(Wrong("returns nothing"))
                elif isinstance(st.value, ast.Name) and st.value.id == "self" :
                    rets.append(Wrong("the object itself is returned, not a loaded copy"))
                else:
                    rets.append(self.ev(st.value, env))
                return True
            if isinstance(st, ast.Assign) and len(st.targets) == 1 and isinstance(st.targets[0], ast.Name):
                v = self.ev(st.value, env)
                if v is None and isinstance(st.value, ast.Name) and st.value.id in env:
                    v = env[st.value.id]
                env[st.targets[0].id] = v if v is not None else Obj("?" + norm(st.value))
                if isinstance(v, Buf):
                    # a buffer is a mutable object: names alias it
                    env.setdefault("__alias__", {})
                    if isinstance(st.value, ast.Name):
                        env["__alias__"][st.targets[0].id] = st.value.id
                continue
            if isinstance(st, ast.With):
                for it in st.items:
                    v = self.ev(it.context_expr, env)
                    if it.optional_vars is None:
                        continue
                    if not isinstance(it.optional_vars, ast.Name):
                        return False
                    env[it.optional_vars.id] = v if v is not None else Obj("?" + norm(it.context_expr))
                    if isinstance(it.context_expr, ast.Name) and isinstance(v, Buf):
                        env.setdefault("__alias__", {})[it.optional_vars.id] = it.context_expr.id
                if not self.block(st.body, env, rets):
                    return False
                if rets:
                    return True
                continue
            if isinstance(st, ast.Try) and all(h.body and isinstance(h.body[-1], ast.Raise) for h in st.handlers):
                # handlers that clean up and re-raise do not continue: the normal flow is body, else, finally
                if not self.block(st.body + st.orelse, env, rets):
                    return False
                done = bool(rets)
                if not self.block(st.finalbody, env, []):
                    return False
                if done:
                    return True
                continue
            if isinstance(st, ast.Expr) and isinstance(st.value, ast.Call) and isinstance(st.value.func, ast.Attribute):
                c = st.value
                meth = c.func.attr
                recv = c.func.value
                if meth == "write_to" and len(c.args) == 1 and isinstance(c.args[0], ast.Name) and not c.keywords:
                    s = self.subj(recv, env)
                    b = self._buf(c.args[0].id, env)
                    if s is None or b is None:
                        self.unknown.append(norm(st))
                        return False
                    name, val = b
                    if val.content != "empty" or val.pos != "start":
                        self.unknown.append(norm(st))
                        return False
                    self.events.append(f"{s}.write_to")
                    self._set(name, Buf(("ser", s), "end"), env)
                    continue
                if isinstance(recv, ast.Name) and self._buf(recv.id, env) is not None:
                    name, val = self._buf(recv.id, env)
                    if meth == "seek":
                        if len(c.args) == 1 and not c.keywords and norm(c.args[0]) == "0":
                            self.events.append("seek(0)")
                            self._set(name, Buf(val.content, "start"), env)
                        else:
                            self._set(name, Buf(val.content, "?"), env)
                        continue
                    if meth in ("close", "flush"):
                        continue
                    self.unknown.append(norm(st))
                    return False
            # a statement that does not touch any tracked name is of no concern here; anything else is not recognised
            names = {n.id for n in ast.walk(st) if isinstance(n, ast.Name)}
            tracked = {k for k, v in env.items() if isinstance(v, (Buf, Bytes, Loaded, Part))}
            if names & tracked or any(isinstance(n, (ast.Return, ast.Yield)) for n in ast.walk(st)):
                self.unknown.append(norm(st)[:80])
                return False
        return True

    def _root(self, name: str, env) -> str:
        al = env.get("__alias__", {})
        seen = set()
        while name in al and name not in seen:
            seen.add(name)
            name = al[name]
        return name

    def _buf(self, name: str, env) -> Optional[Tuple[str, Buf]]:
        r = self._root(name, env)
        v = env.get(r)
        return (r, v) if isinstance(v, Buf) else None

    def _set(self, root: str, val: Buf, env) -> None:
        al = env.get("__alias__", {})
        env[root] = val
        for k in list(al):
            if self._root(k, env) == root:
                env[k] = val


def clone_verdict(repo: Repo, ci: ClassInfo, name: str = "clone") -> Tuple[str, object, List[str]]:
    """('ok' | 'wrong' | 'unknown', abstract return value, events) for ci.<name> read in normal form."""
    from . import inline
    fn = inline.normalize(repo, ci, repo.own_method(ci, name))
    it = Interp(repo)
    r = it.run(ci, fn, "self")
    if isinstance(r, Wrong):
        return "wrong", r, it.events
    if isinstance(r, (Loaded, Part)):
        return "ok", r, it.events
    return "unknown", r, it.events + ["unrecognised: " + u for u in it.unknown]
